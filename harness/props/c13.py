"""C13 — a generated converter equals the field-wise construction the linking rules fix.

Lean side: AdaptixModel/Conv/{Link,Convert}.lean (model), AdaptixProofs/Props/C13.lean (theorems).
Tie: correspondence `convert` — generated model pairs (five model kinds, nested, generic, field-less, classes
defining __bool__ / __len__; fields wrapped in Optional / iterables / dict, the wrappers nesting up to three deep)
related by rename / drop / add / retype edits (leaf types below a wrapper are retyped too and served by user
coercers), source values biased per case towards the falsy-but-not-None inhabitants of every type (0, 0.0, "",
False, Decimal(0), empty containers, empty / falsy model instances), recipes of the public providers
(link, link_constant, link_function, from_param, allow/forbid_unlinked_optional, coercer) with overlapping
entries in random order, extra parameters (same-named at top level and nested, defaults, keyword-only), several
calls each; the real get_converter / impl_converter / convert / ConversionRetort are run in-process and compared
with the model driver on: converter produced or ProviderNotFoundError, every call's result (type-exact,
field-wise) or TypeError.
Second suite `link`: the linkings the real ModelCoercerProvider fetches for the top-level model pair (observed by a
recording subclass at the end of the user recipe) against `fetchFieldLinking` of the model.
Direct oracle (real code only): the result equals a Python transcription of the documented algorithm
(harness/props/c13_oracle.py `Spec`), the source and the extra arguments are unchanged by the call, an
impl_converter result has the stub's signature / name, creation raises nothing but ProviderNotFoundError.
"""
import copy
import json

from harness.core import Ctx, Driver, InfraError
from harness.props.c13_gen import gen_case
from harness.props.c13_oracle import RealCase, Spec, Undefined, Unlinked

ID = "C13"
CLAIM = {
    "technique": "Lean 4 proof (compiler correctness of linking -> broaching plan -> call plan against a direct "
                 "interpreter of the documented linking algorithm) + model/code correspondence",
    "text": (
        "Proved in Lean for every class table, recipe (predicates are arbitrary functions of the location stack), "
        "signature, value and fuel: if the model generator produces a converter, calling it returns exactly "
        "convertSpec — the destination built field by field from the linked sources, extra parameters looked up by "
        "name, coercion recursing through nested models, Optional, iterables and dicts (convert_eq_spec, "
        "call_eq_spec); recipe order decides (first_link_wins); a same-named extra parameter, rightmost first, wins "
        "over the source field exactly for top-level fields (param_over_field_top_level, "
        "param_over_field_top_level_only, nested_ignores_params); from_param reaches every level (from_param_any_level); "
        "an Optional pair maps None to None and sends every other value - the falsy ones included - through the "
        "conversion of the wrapped pair, an empty sequence is rebuilt by the destination's factory "
        "(optional_spec_none_test, optional_converter_none_test, empty_iterable_rebuilt); unmatched extra source "
        "fields do not change any linking (extra_src_ignored); plan evaluation cannot write to the source "
        "(src_untouched); the produced function carries the stub's signature (signature_preserved). The hand-written "
        "model is tied to /repo on every run by the `convert` correspondence over generated model pairs, recipes, "
        "parameters and values, and the direct oracle re-checks the property on the real library against an "
        "independent Python transcription of the documented algorithm."
    ),
    "note": (
        "Trusted: Lean 4.33 kernel; axioms audited each run. The theorems are about the Lean model. Which coercer is "
        "chosen for two non-model types is property C14 and enters as the parameter World.asIs; user functions and "
        "constructors are uninterpreted / modelled by Python's call binding; shapes of the five model kinds are "
        "given to the model by the harness (C17). Recursive models are outside the model (the code does not "
        "terminate on them). For an explicit link(src, dst) whose source predicate matches several candidates the "
        "candidate order is the code's (source fields, then parameters right to left); the property statement does "
        "not fix it."
    ),
    "design_ref": "DESIGN.md §4 C13",
}
PROPS_FILE = "AdaptixProofs/Props/C13.lean"
LEAN_TARGETS = ["AdaptixProofs.Props.C13", "drv_c13"]
RULE = ("a case is one (model pair, recipe, signature, API) with 1-3 calls; it is non-trivial when a converter is "
        "produced and at least one destination field is fed by something other than the same-named source field "
        "(explicit link, constant, function, parameter, skipped optional) or a nested model is converted")
ASSUMPTIONS = [
    "source values are well typed for the source model (a TypedDict source carries all its keys)",
    "user functions given to link_function / link(coercer=) / coercer() / factory= are pure (the harness uses "
    "functions returning a tagged record of their arguments)",
    "predicates are pure functions of the location stack (the predicate language itself is C10)",
    "for an explicit link whose source predicate matches several candidates the order of the code is taken as the "
    "rule: fields of the source model first, then extra parameters right to left (the tutorial sentence 'parameters "
    "are checked before the fields' is read as describing the default same-name linking)",
    "set-like iterables are not generated (the minimal iterable model keeps element order and multiplicity)",
]
TRUSTED = [
    "shapes of the five model kinds as described by harness/props/c13_world.py (validated by the correspondence: a "
    "wrong accessor / parameter kind shows up as a disagreement)",
    "Python call binding as modelled by bindCall / bindSig (validated by the correspondence on calls with "
    "positional, keyword and defaulted arguments)",
]


# ---------------------------------------------------------------------------

def lean_request(case, world):
    return {"op": "convert", "world": world, "sig": case["sig"], "recipe": case["recipe"], "fuel": 40,
            "calls": case["calls"]}


def nontrivial(case, created):
    if not created:
        return False
    if any(p["k"] != "policy" for p in case["recipe"]) or len(case["sig"]["params"]) > 1:
        return True
    return len(case["classes"]) > 2


def short(case):
    return json.loads(json.dumps(case))


def canon_value(u, j):
    """TypedDict instances are plain dicts at run time: render them (and every dict) as a key-sorted dict on
    both sides; Python dict equality does not depend on the order"""
    if not isinstance(j, dict) or "v" not in j:
        return j
    v = j["v"]
    if v == "obj":
        fields = [[k, canon_value(u, x)] for k, x in j["fields"]]
        if u.logical[j["cls"]]["kind"] == "typeddict":
            kvs = [[{"v": "atom", "tag": "str", "repr": repr(k)}, x] for k, x in fields]
            return {"v": "dict", "kvs": sorted(kvs, key=lambda kv: json.dumps(kv[0], sort_keys=True))}
        return {"v": "obj", "cls": j["cls"], "fields": fields}
    if v == "dict":
        kvs = [[canon_value(u, k), canon_value(u, x)] for k, x in j["kvs"]]
        return {"v": "dict", "kvs": sorted(kvs, key=lambda kv: json.dumps(kv[0], sort_keys=True))}
    if v == "seq":
        return {"v": "seq", "kind": j["kind"], "xs": [canon_value(u, x) for x in j["xs"]]}
    if v == "app":
        return {"v": "app", "f": j["f"], "pos": [canon_value(u, x) for x in j["pos"]],
                "kw": [[k, canon_value(u, x)] for k, x in j["kw"]]}
    return j


def type_depth(ty):
    """number of Optional / iterable / dict wrappers stacked in a type"""
    t = ty["t"]
    if t in ("opt", "iter"):
        return 1 + type_depth(ty["a"])
    if t == "dict":
        return 1 + type_depth(ty["v"])
    return 0


def note_structure(ctx: Ctx, case):
    """evidence counters for the structural regions of the input space (types and classes)"""
    tys = [f["ty"] for c in case["classes"] for f in c["fields"]] + [p["ty"] for p in case["sig"]["params"]]
    depth = max([type_depth(t) for t in tys] or [0])
    ctx.dist[f"type-wrapper-depth-{min(depth, 3)}"] += 1
    if any(not c["fields"] for c in case["classes"]):
        ctx.dist["class-fieldless"] += 1
    if any(c.get("falsy") for c in case["classes"]):
        ctx.dist["class-falsy-by-bool-or-len"] += 1
    for k, v in (case.get("profile") or {}).items():
        if v:
            ctx.dist[f"profile-{k}"] += 1


def check_case(ctx: Ctx, case, reply, suite="convert", rc=None):
    """runs the real library on one case; direct oracle; compares with the model reply (if any).
    returns (compared, disagreements)"""
    try:
        rc = rc or RealCase(case)
    except Exception as e:  # the generator produced an illegal class body: a harness bug, never silent
        raise InfraError(f"cannot materialise case: {type(e).__name__}: {e}\n{json.dumps(case)[:2000]}")
    world = rc.u.world_json()
    created = rc.create()
    spec = Spec(case, rc.u)
    kind = f"{case['api']}:{created[0]}"
    compared = disagreements = 0
    real_view = {"created": created[0]}

    if created[0] == "error":
        ctx.fail(f"create:raises-{created[1]}",
                 f"creating the converter raised {created[1]} instead of returning a converter or "
                 f"ProviderNotFoundError (api {case['api']}, name {case.get('fname')!r})", case)
    results = []
    if created[0] == "ok":
        conv, stub = created[1], created[2]
        if stub is not None:
            rep = rc.signature_report(conv, stub)
            if rep is not None:
                ctx.fail("signature:not-preserved", f"impl_converter result does not carry the stub's signature: {rep}", case)
        for call in case["calls"]:
            out = rc.call(conv, call)
            if "value" in out:
                out["value"] = canon_value(rc.u, out["value"])
            results.append(out)
            if out.get("exc") == "ValidationError":
                # a pydantic destination rejected a value it was given ("you must ensure type compatibility
                # yourself"): the constructor's own checks are outside the property and the model
                out["skip"] = True
                ctx.dist["call-skipped-pydantic-validation"] += 1
                continue
            if not out["src_unchanged"]:
                ctx.fail("source:modified", "the source object or an extra argument changed during the call", case)
            args = [rc.u.from_json(a) for a in call["args"]]
            kwargs = [(k, rc.u.from_json(v)) for k, v in call["kwargs"]]
            try:
                exp = canon_value(rc.u, spec.expected(args, kwargs))
            except Unlinked as e:
                exp = None
                if "value" in out:
                    ctx.fail("create:unlinked-field-accepted",
                             f"a converter was produced and returned a value although the linking rules leave the "
                             f"destination field {e} without a link (required, or optional under the forbidding policy)",
                             case)
            except Undefined:
                exp = None
            if case["api"] == "convert" and out.get("exc") == "ProviderNotFoundError":
                continue
            if exp is not None:
                if "value" not in out:
                    ctx.fail(f"call:raises-{out['exc']}",
                             f"calling the produced converter raised {out['exc']}; the documented result is "
                             f"{json.dumps(exp)[:300]}", case)
                elif out["value"] != exp:
                    ctx.fail("result:differs-from-linking-rules",
                             f"converter returned {json.dumps(out['value'])[:400]} but the linking rules give "
                             f"{json.dumps(exp)[:400]}", case)
    if case["api"] == "convert" and any(r.get("exc") == "ProviderNotFoundError" for r in results):
        created = ("not_found",)          # convert() builds the converter inside the call
        real_view["created"] = "not_found"
        kind = f"{case['api']}:not_found"
    real_view["results"] = [{"skip": True} if r.get("skip") else r.get("value", {"exc": r.get("exc")}) for r in results]
    ctx.note_case({"sig": case["sig"], "recipe": case["recipe"], "classes": case["classes"]},
                  nontrivial=nontrivial(case, created[0] == "ok"), kind=kind)
    for c in case["classes"]:
        ctx.dist[f"kind-{c['role']}-{c['kind']}"] += 1
    for p in case["recipe"]:
        ctx.dist[f"provider-{p['k']}"] += 1
    ctx.dist[f"params-{min(len(case['sig']['params']) - 1, 3)}"] += 1
    note_structure(ctx, case)
    for k, v in spec.stats.items():       # value regions the documented algorithm went through in this case's calls
        ctx.dist[k] += v
    if any(k.startswith("val-optional-coerced:falsy") for k in spec.stats):
        ctx.dist["case-falsy-value-through-coercing-optional"] += 1

    if reply is not None and created[0] != "error":
        compared = 1
        model_view = None
        if "ok" not in reply:
            model_view = reply
        else:
            m = reply["ok"]
            if not m.get("wf"):
                # the case lies outside the hypotheses of the theorems (ShapeWF, distinct parameter names): a
                # generator bug, reported as a broken tie rather than silently counted as evidence
                ctx.disagree("convert-hypotheses", short(case), "generated world", "shapeWFb = false")
            model_created = "ok" if m["created"] else "not_found"
            model_view = {"created": model_created}
            if m["created"]:
                model_view["results"] = [canon_value(rc.u, r["model"]) if r["model"] is not None else {"exc": "TypeError"}
                                         for r in m["results"]]
                for r in m["results"]:
                    if r["model"] != r["spec"]:
                        ctx.disagree("convert-model-vs-spec", short(case), r["spec"], r["model"])
            # a runtime failure of the real call is compared by class only for signature mismatches
            rv = copy.deepcopy(real_view)
            rv["results"] = [r if "exc" not in r or r["exc"] == "TypeError" else {"exc": r["exc"]} for r in rv.get("results", [])]
            if created[0] != "ok":
                rv.pop("results", None)
            elif "results" in model_view:
                model_view["results"] = [{"skip": True} if r.get("skip") else mr
                                         for r, mr in zip(rv["results"], model_view["results"])]
            if rv != model_view:
                disagreements = 1
        if disagreements or "ok" not in reply:
            disagreements = 1
            ctx.disagree(suite, short(case), real_view, model_view)
    ctx.sample({"suite": suite, "api": case["api"], "sig": case["sig"], "recipe": case["recipe"][:4],
                "real": real_view}, every=97)
    return compared, disagreements, world


def link_applicable(case):
    sig = case["sig"]
    return (sig["ret"]["t"] == "model" and sig["params"][0]["ty"]["t"] == "model"
            and all(p["kind"] not in ("var_pos", "var_kw") for p in sig["params"]))


def canon_linking(u, j):
    j = dict(j)
    if j.get("l") == "field":
        j["coercer"] = j.get("coercer") not in (None, False)
    elif j.get("l") == "const":
        j["value"] = canon_value(u, j["value"])
    elif j.get("l") == "factory":
        j.pop("f", None)
    return j


def check_links(ctx: Ctx, case, reply, rc=None):
    """suite `link`: the linkings the real ModelCoercerProvider fetches for the top-level model pair (observed by a
    recording subclass) against `fetchFieldLinking` of the model"""
    rc = rc or RealCase(case)
    real = rc.observe_linkings()
    if "ok" not in reply:
        model = reply
    else:
        model = [[fid, canon_linking(rc.u, lk)] for fid, lk in reply["ok"]]
        if any(lk.get("l") == "failed" for _, lk in model):
            model = None
    if real is not None:
        real = [[fid, canon_linking(rc.u, lk)] for fid, lk in real]
    if real is None:
        # the converter may also fail after linking (no coercer for a linked pair): only the model's
        # "a field cannot be linked" is comparable then, through the `convert` suite
        return 0, 0
    if real != model:
        ctx.disagree("link", short(case), real, model)
        return 1, 1
    return 1, 0


def run_cases(ctx: Ctx, cases, drv, suite="convert"):
    reqs = []
    link_idx = []
    rcs = []          # the real classes of a case are materialised once and shared by both suites
    for i, case in enumerate(cases):
        try:
            rc = RealCase(case)
        except Exception as e:
            raise InfraError(f"cannot materialise case: {type(e).__name__}: {e}\n{json.dumps(case)[:3000]}")
        rcs.append(rc)
        world = rc.u.world_json()
        reqs.append(lean_request(case, world))
        if link_applicable(case) and suite == "convert":
            link_idx.append(i)
    link_reqs = [{"op": "link", "world": reqs[i]["world"], "sig": cases[i]["sig"], "recipe": cases[i]["recipe"]}
                 for i in link_idx]
    replies = drv.batch(reqs + link_reqs) if drv else [None] * len(cases)
    n = d = 0
    for case, rep, rc in zip(cases, replies, rcs):
        c, dd, _ = check_case(ctx, case, rep, suite, rc)
        n += c
        d += dd
    if drv:
        ctx.suite(suite, n, d)
        ln = ld = 0
        for i, rep in zip(link_idx, replies[len(cases):]):
            a, b = check_links(ctx, cases[i], rep, rcs[i])
            ln += a
            ld += b
        if link_idx:
            ctx.suite("link", ln, ld)


def _fixed_cases():
    """hand-written corner cases run first on every seed (docs examples and past findings)"""
    from harness.props.c13_gen import atom_json
    from harness.props.c13_world import LEAF_ANY, LEAF_INT, leaf, model_ty
    out = []
    A = leaf(LEAF_ANY)
    S = {"id": 0, "role": "src", "kind": "dataclass", "name": "S0", "fields": [{"id": "a", "ty": leaf(LEAF_INT)}, {"id": "b", "ty": A}]}
    D = {"id": 1, "role": "dst", "kind": "dataclass", "name": "D1", "fields": [{"id": "a", "ty": leaf(LEAF_INT)}, {"id": "b", "ty": A}]}
    obj = {"v": "obj", "cls": 0, "fields": [["a", atom_json(5)], ["b", atom_json("x")]]}
    from harness.props.c13_gen import LOOKALIKES
    # stub defaults that are not Python literals, hostile function names
    for i, d in enumerate(LOOKALIKES):
        out.append({"classes": [S, D], "api": "impl_converter", "fname": ["conv", "coercer", "data"][i % 3], "recipe": [],
                    "sig": {"params": [{"name": "s", "kind": "pos_or_kw", "ty": model_ty(0)},
                                       {"name": "b", "kind": "pos_or_kw", "ty": A, "default": d}], "ret": model_ty(1)},
                    "calls": [{"args": [obj], "kwargs": []}, {"args": [obj], "kwargs": [["b", atom_json(7)]]}], "split": 0})
        out.append({"classes": [S, D], "api": "get_converter", "fname": [None, "coercer", "src"][i % 3],
                    "recipe": [{"k": "link_constant", "dst": {"p": "name", "n": "b"}, "value": d}],
                    "sig": {"params": [{"name": "src", "kind": "pos_only", "ty": model_ty(0)}], "ret": model_ty(1)},
                    "calls": [{"args": [obj], "kwargs": []}], "split": 0})
    return out


def run(ctx: Ctx):
    drv = None
    if ctx.driver_ok:
        try:
            drv = Driver("drv_c13")
        except InfraError:
            drv = None
    run_cases(ctx, _fixed_cases(), drv, "convert")
    n = ctx.budget(1800, 19000)
    batch = 500
    done = 0
    while done < n:
        cases = [gen_case(ctx.rng) for _ in range(min(batch, n - done))]
        run_cases(ctx, cases, drv, "convert")
        done += len(cases)
    ctx.extra["exhaustive"] = False


def search(ctx: Ctx):
    """after a broken tie: the disagreeing cases first (direct oracle already ran on them), then a larger budget"""
    for d in ctx.disagreements[:100]:
        if isinstance(d.get("case"), dict) and "classes" in d["case"]:
            check_case(ctx, d["case"], None, "search")
    if not ctx.failures:
        for _ in range(6000):
            check_case(ctx, gen_case(ctx.rng), None, "search")
            if ctx.failures:
                break


def replay(ctx: Ctx, case) -> bool:
    before = len(ctx.failures)
    check_case(ctx, case, None, "replay")
    return len(ctx.failures) > before
