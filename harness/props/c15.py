"""C15 — type normalisation is a canonical form.

Lean side: AdaptixModel/Types/{Hint,Normalize}.lean (model), AdaptixProofs/Props/C15.lean (theorems).
Tie: correspondence of
  * normalize   : structure (origin, args recursively) of normalize_type(hint)        vs  `normalize`
  * relations   : ==/hash relations between the normal forms of a group of hints       vs  structural equality
  * order-key   : _UnionNormType._make_orderable / _LiteralNormType._make_orderable    vs  `orderKey` / `litKey`
  * tv-limit    : NormTV.limit                                                         vs  `tvLimit`
  * malformed   : hints containing unsubscribed special forms / non-types              vs  the model's refusal
Hints are described to the model *as constructed by `typing`* (get_origin/get_args of the real object).
Direct oracle (real code only): hints related by meaning-preserving rewrites normalise to equal forms with
equal hashes, a single meaning-changing edit never collapses, re-normalising a normal form read back as a
hint is the identity, and equivalent hints give the same Retort.load/dump outcomes and serve as the same
predicate.
Hints that mention type variables (strengthening 5): AdaptixModel/Types/HintVars.lean models get_type_vars /
get_type_vars_of_parametrized / is_generic / is_bare_generic / is_parametrized over the attributes of the Python
object representing each spelling (tie: correspondence `generic-info`); direct oracle: equivalent spellings report
the same type variables to substitute, agree on is_generic / is_bare_generic / acceptance as a predicate when in the
same subscription state, and -- as the annotation of a field of a generic dataclass / NamedTuple / TypedDict requested
bare, parametrised or through a non-generic child -- give loaders and dumpers that are created or refused alike and
agree on generated data.
"""

import collections
import collections.abc
import dataclasses
import enum
import operator
import re
import types
import typing
from dataclasses import InitVar, dataclass
from functools import reduce
from typing import Annotated, Any, ClassVar, Final, Generic, List, Literal, NewType, Optional, TypeVar, Union

from harness.core import Ctx, Driver, InfraError, canon

ID = "C15"
CLAIM = {
    "technique": "Lean 4 proof (normal form is canonical for the rewrite congruence, sound for a value denotation, "
                 "idempotent) + model/code correspondence",
    "text": (
        "Proved in Lean for every hint of the grammar (classes, NewType, TypeVar, bare/parametrised generics, tuple "
        "forms, type[...], Union/Optional/|, typed Literal values, Annotated) over any universe of classes: "
        "normalisation preserves the value denotation of a hint, hence hints with equal normal forms denote the same "
        "set of values and Literal[0]/Literal[False] never collapse (normalize_sound, normalize_injective, "
        "literal_typed_distinct); hints related by any sequence of the listed meaning-preserving rewrites at any depth "
        "(reorder/nest/duplicate union members, |, Optional, alias vs builtin, bare vs implicit parameters, literal "
        "reorder/merge/split, Literal[None] vs None) have equal normal forms (canonical_form), re-normalising a normal "
        "form read back as a hint is the identity (idempotent_cpython), both under the CPython facts that id() "
        "separates objects and repr() separates literal values (the ordering-key hypothesis is *derived* from them, "
        "distinct_order_keys); bare generics get Any / the bound / the union of constraints (implicit_params). The "
        "model is tied to the code by six correspondences on hints as constructed by typing; load/dump/predicate "
        "equivalence of equivalent hints is established by the direct oracle only (one known finding). The helpers "
        "behind generic resolution (get_type_vars_of_parametrized, is_generic) are modelled over the attributes of "
        "the object representing each spelling and proved to depend only on the type variables a hint mentions, not "
        "on its spelling (type_vars_of_parametrized_spec, type_vars_union_style/optional_def/alias/union_perm/"
        "union_nest/union_dup, is_generic_subscribed); tied by the generic-info correspondence; that generic models "
        "whose fields use different spellings get equivalent loaders/dumpers is established by the direct oracle."
    ),
    "note": (
        "Trusted: Lean 4.33 kernel; axioms audited each run (subset of propext, Classical.choice, Quot.sound). The "
        "theorems are about the hand-written Lean model of TypeNormalizer with fixes/C15-literal-dedup, "
        "C15-union-order-total and C15-annotated-flatten applied; the model is tied to /repo on every run by "
        "differential correspondence (structure of the normal form, ==/hash relations, the sort keys themselves, "
        "TypeVar limits, refusal of malformed hints). typing's own flattening/de-duplication at hint construction, "
        "forward references, Callable/ParamSpec/TypeVarTuple/TypeAliasType are outside the model. Equivalence of "
        "loaders/dumpers/predicates is tested (direct oracle), not proved."
    ),
    "design_ref": "DESIGN.md §4 C15",
}
PROPS_FILE = "AdaptixProofs/Props/C15.lean"
LEAN_TARGETS = ["AdaptixProofs.Props.C15", "drv_c15"]
RULE = ("a case is a group of hints: a generated hint, 2-6 hints obtained from it by a random sequence of "
        "meaning-preserving rewrites and 1-2 hints obtained by one meaning-changing edit; it is non-trivial when the "
        "base hint contains a union, a literal or a bare generic; a generic-helpers / generic-field case is a chain of "
        "equivalent spellings of a hint with type variables (random rewrites + every union style of the root + all "
        "aliases flipped), non-trivial when the spellings are represented by objects of different classes")
ASSUMPTIONS = [
    "IdentKeys: id() separates the classes/TypeVars/NewTypes/special forms a hint mentions and is never 0 — hypothesis of "
    "canonical_form / idempotent_cpython, true of CPython (that the modelled repr() separates literal values is now a theorem, "
    "ident_keys_of_ids); "
    "the harness re-checks them on the objects and literal values of every run (suite ident-keys)",
    "hints reach adaptix as constructed by typing: Literal values already de-duplicated by (type, value) and not empty "
    "(TypingBuilt / side conditions of the literal rules), nested Union/Literal/Annotated already flattened (the "
    "harness feeds exactly these objects)",
    "Annotated metadata are str objects; literal str/bytes are ASCII (the modelled part of repr())",
]
TRUSTED = [
    "the harness's description of a typing object (get_origin/get_args/__constraints__/__bound__/__parameters__ and "
    "BUILTIN_ORIGIN_TO_TYPEVARS read from the working tree) is what the normaliser sees",
    "objFacts (HintVars.lean): what CPython puts into __parameters__ / get_origin / get_args / isinstance(tp, type) of the "
    "object representing each spelling -- compared with the real objects on every run (generic-info)",
    "Python str comparison is lexicographic by code point; list.sort is stable (modelled by stable insertion sort)",
]

# ---------------------------------------------------------------------------
# universe of objects the generated hints mention
# ---------------------------------------------------------------------------


def _make_same_named(tag):
    @dataclass
    class A:
        x: int

    class E(enum.Enum):
        A = 1
        B = 2

    A.tag = tag
    return A, E


class Color(enum.Enum):
    RED = "red"
    BLUE = "blue"


class IE(enum.IntEnum):
    X = 1
    Y = 0


@dataclass
class Bm:
    y: str


class Universe:
    """Built once per process; keeps every object alive so id() stays meaningful."""

    def __init__(self):
        a1, e1 = _make_same_named(1)
        a2, e2 = _make_same_named(2)
        self.classes = {
            "int": int, "str": str, "bytes": bytes, "bool": bool, "float": float,
            "A#1": a1, "A#2": a2, "Bm": Bm, "E#1": e1, "E#2": e2, "Color": Color, "IE": IE,
        }
        self.newtypes = {"NInt": NewType("NInt", int), "NStr": NewType("NStr", str)}
        # TypeVar declarations at recipe level (bound / constraints are recipes)
        self.tv_decl = {
            "T": {"bound": None, "constraints": []},
            "U": {"bound": None, "constraints": []},
            "B": {"bound": {"r": "cls", "n": "int"}, "constraints": []},
            "BL": {"bound": {"r": "gen", "g": "list", "alias": True, "args": [{"r": "cls", "n": "int"}]}, "constraints": []},
            "BO": {"bound": {"r": "union", "style": "optional", "ms": [{"r": "cls", "n": "str"}, {"r": "none", "sp": False}]},
                   "constraints": []},
            # a bound that is itself a bare generic (it gets its own implicit parameters: list -> list[Any])
            "BB": {"bound": {"r": "gen", "g": "list", "alias": False, "args": None}, "constraints": []},
            "BD": {"bound": {"r": "gen", "g": "dict", "alias": True, "args": None}, "constraints": []},
            "C": {"bound": None, "constraints": [{"r": "cls", "n": "str"}, {"r": "cls", "n": "bytes"}]},
            "CL": {"bound": None, "constraints": [
                {"r": "gen", "g": "list", "alias": False, "args": None},
                {"r": "gen", "g": "list", "alias": True, "args": None},
                {"r": "cls", "n": "str"}]},
            "CU": {"bound": None, "constraints": [
                {"r": "union", "style": "Union", "ms": [{"r": "cls", "n": "int"}, {"r": "none", "sp": False}]},
                {"r": "cls", "n": "int"}, {"r": "literal", "vs": [{"t": "int", "v": 1}]},
                {"r": "literal", "vs": [{"t": "bool", "v": True}]}]},
        }
        self.generics: dict = {}
        self.tvars: dict = {}
        # builtin generics: name -> (builtin spelling, typing alias or None, arity, may be bare, loadable)
        b = self.generics
        b["list"] = (list, typing.List, 1, True, True)
        b["set"] = (set, typing.Set, 1, True, True)
        b["frozenset"] = (frozenset, typing.FrozenSet, 1, True, True)
        b["deque"] = (collections.deque, typing.Deque, 1, True, True)
        b["dict"] = (dict, typing.Dict, 2, True, True)
        b["defaultdict"] = (collections.defaultdict, typing.DefaultDict, 2, True, True)
        b["OrderedDict"] = (collections.OrderedDict, typing.OrderedDict, 2, True, False)
        b["Counter"] = (collections.Counter, typing.Counter, 1, True, False)
        b["Pattern"] = (re.Pattern, typing.Pattern, 1, True, False)
        b["Iterable"] = (collections.abc.Iterable, typing.Iterable, 1, False, True)
        b["Sequence"] = (collections.abc.Sequence, typing.Sequence, 1, False, True)
        b["Mapping"] = (collections.abc.Mapping, typing.Mapping, 2, False, True)
        b["ClassVar"] = (ClassVar, None, 1, False, False)
        b["Final"] = (Final, None, 1, False, False)
        b["InitVar"] = (InitVar, None, 1, False, False)
        self.user_generic_params = {"G1": ["T"], "G2": ["T", "B"], "G3": ["C", "BL"], "G4": ["CL"], "G5": ["BO", "U"],
                                    "G6": ["CU", "T"], "G7": ["BB", "BD"], "G8": ["BD"]}
        self._builder = None

    def finish(self, builder):
        """TypeVars and user generics need `build`, hence the second phase."""
        self._builder = builder
        for name, d in self.tv_decl.items():
            if d["constraints"]:
                self.tvars[name] = TypeVar(name, *[builder(c) for c in d["constraints"]])
            elif d["bound"] is not None:
                self.tvars[name] = TypeVar(name, bound=builder(d["bound"]))
            else:
                self.tvars[name] = TypeVar(name)
        for gname, params in self.user_generic_params.items():
            tvs = tuple(self.tvars[p] for p in params)
            ns = {"__annotations__": {f"f{i}": tv for i, tv in enumerate(tvs)}}
            cls = dataclass(types.new_class(gname, (Generic[tvs],), {}, lambda d, ns=ns: d.update(ns)))
            self.generics[gname] = (cls, None, len(params), True, True)

    def implicit_recipes(self, gname):
        """Documented implicit parameters of a bare generic, computed from the TypeVar declarations only."""
        if gname in self.user_generic_params:
            names = self.user_generic_params[gname]
        elif gname == "Pattern":
            return [{"r": "union", "style": "Union", "ms": [{"r": "cls", "n": "str"}, {"r": "cls", "n": "bytes"}]}]
        else:
            return [{"r": "any"}] * self.generics[gname][2]
        out = []
        for n in names:
            d = self.tv_decl[n]
            if d["constraints"]:
                out.append({"r": "union", "style": "Union", "ms": list(d["constraints"])})
            elif d["bound"] is not None:
                out.append(d["bound"])
            else:
                out.append({"r": "any"})
        return out


_UNIVERSE = None


def universe() -> Universe:
    global _UNIVERSE
    if _UNIVERSE is None:
        u = Universe()
        _UNIVERSE = u
        u.finish(build)
    return _UNIVERSE


NoneType = type(None)

# ---------------------------------------------------------------------------
# recipe -> typing object (the hint exactly as a user would write it)
# ---------------------------------------------------------------------------


def lit_value(v):
    u = universe()
    t = v["t"]
    if t == "int":
        return int(v["v"])
    if t == "bool":
        return bool(v["v"])
    if t == "str":
        return str(v["v"])
    if t == "bytes":
        return v["v"].encode("latin-1")
    if t == "enum":
        return u.classes[v["c"]][v["n"]]
    if t == "none":
        return None
    raise InfraError(f"bad literal {v}")


BAD_OBJECTS = {
    "Union": Union, "Optional": Optional, "Literal": Literal, "ClassVar": ClassVar, "Final": Final,
    "Annotated": Annotated, "InitVar": InitVar, "NewType": NewType, "TypeVar": TypeVar,
    "five": 5, "fwd": "int", "float_obj": 3.5,
}
BAD_KIND = {
    "Union": "NotSubscribedError", "Optional": "NotSubscribedError", "Literal": "NotSubscribedError",
    "ClassVar": "NotSubscribedError", "Final": "NotSubscribedError", "Annotated": "NotSubscribedError",
    "InitVar": "NotSubscribedError", "NewType": "ValueError", "TypeVar": "ValueError",
    "five": "ValueError", "fwd": "ValueError", "float_obj": "ValueError",
}


def build(r):
    u = universe()
    k = r["r"]
    if k == "none":
        return NoneType if r.get("sp") else None
    if k == "any":
        return Any
    if k == "cls":
        return u.classes[r["n"]]
    if k == "newtype":
        return u.newtypes[r["n"]]
    if k == "tv":
        return u.tvars[r["n"]]
    if k == "bad":
        return BAD_OBJECTS[r["n"]]
    if k == "gen":
        builtin, alias, arity, _bare_ok, _ = u.generics[r["g"]]
        base = alias if (r.get("alias") and alias is not None) else builtin
        if r["args"] is None:
            return base
        args = tuple(build(a) for a in r["args"])
        return base[args if len(args) != 1 else args[0]]
    if k == "tuple":
        base = typing.Tuple if r.get("alias") else tuple
        if r["form"] == "bare":
            return base
        items = tuple(build(a) for a in r["items"])
        if r["form"] == "var":
            return base[items[0], ...]
        return base[items] if items else base[()]
    if k == "type":
        base = typing.Type if r.get("alias") else type
        return base if r["arg"] is None else base[build(r["arg"])]
    if k == "union":
        ms = [build(m) for m in r["ms"]]
        style = r.get("style", "Union")
        if style == "optional" and len(ms) == 2 and ms[1] in (None, NoneType):
            return Optional[ms[0]]
        if style == "or" and len(ms) >= 2:
            try:
                return reduce(operator.or_, ms)
            except TypeError:
                pass
        return Union[tuple(ms)]
    if k == "literal":
        return Literal[tuple(lit_value(v) for v in r["vs"])]
    if k == "annotated":
        return Annotated[(build(r["h"]), *r["metas"])]
    raise InfraError(f"bad recipe {r}")


# ---------------------------------------------------------------------------
# typing object -> model hint (what the normaliser is given), independent of adaptix
# ---------------------------------------------------------------------------

_KEEP_ALIVE: list = []


def atom(obj):
    _KEEP_ALIVE.append(obj)
    return {"id": id(obj), "s": str(obj)}


def describe_lit(v):
    if v is None:
        return {"t": "none"}
    if isinstance(v, enum.Enum):
        return {"t": "enum", "c": atom(type(v)), "n": v.name}
    t = type(v)
    if t is bool:
        return {"t": "bool", "v": v}
    if t is int:
        return {"t": "int", "v": v}
    if t is str:
        return {"t": "str", "v": v}
    if t is bytes:
        return {"t": "bytes", "v": v.decode("latin-1")}
    raise InfraError(f"literal value outside the model: {v!r}")


_NEW_TYPE_CLS = type(NewType("_x", int))


def _is_alias_spelling(tp):
    return isinstance(tp, (typing._GenericAlias, typing._SpecialGenericAlias))  # type: ignore[attr-defined]


def _bad_kind(tp):
    for name in ("Union", "Optional", "Literal", "ClassVar", "Final", "Annotated", "InitVar", "NewType", "TypeVar"):
        if tp is BAD_OBJECTS[name]:
            return name
    if isinstance(tp, (int, float, str, list)) and not isinstance(tp, type):
        return "five"
    return None


def describe(tp, table):
    """`table` is BUILTIN_ORIGIN_TO_TYPEVARS of the working tree."""
    bad = _bad_kind(tp)
    if bad is not None:
        return {"k": "bad", "kind": BAD_KIND[bad]}
    if tp is None or tp is NoneType:
        return {"k": "none", "sp": tp is NoneType}
    if tp is Any:
        return {"k": "any"}
    if isinstance(tp, TypeVar):
        if tp.__constraints__:
            return {"k": "tv", "a": atom(tp), "c": True, "lim": [describe(c, table) for c in tp.__constraints__]}
        lim = [] if tp.__bound__ is None else [describe(tp.__bound__, table)]
        return {"k": "tv", "a": atom(tp), "c": False, "lim": lim}
    if isinstance(tp, _NEW_TYPE_CLS):
        return {"k": "newtype", "a": atom(tp)}
    if isinstance(tp, InitVar):
        return {"k": "app", "alias": False, "a": atom(InitVar), "args": [describe(tp.type, table)]}
    origin = typing.get_origin(tp)
    args = typing.get_args(tp)
    alias = _is_alias_spelling(tp)
    if origin is Union or origin is types.UnionType:
        if repr(tp).startswith("typing.Optional[") and len(args) == 2 and args[1] is NoneType:
            return {"k": "optional", "h": describe(args[0], table)}
        return {"k": "union", "op": isinstance(tp, types.UnionType), "ms": [describe(a, table) for a in args]}
    if origin is Literal:
        return {"k": "literal", "vs": [describe_lit(v) for v in args]}
    if origin is Annotated:
        metas = list(tp.__metadata__)
        if not all(type(m) is str for m in metas):
            raise InfraError("Annotated metadata outside the model")
        return {"k": "annotated", "h": describe(tp.__origin__, table), "metas": metas}
    if origin is tuple or tp is tuple:
        if tp is tuple or tp is typing.Tuple:
            return {"k": "tuple_bare", "alias": tp is typing.Tuple}
        if len(args) == 2 and args[1] is Ellipsis:
            return {"k": "tuple_var", "alias": alias, "h": describe(args[0], table)}
        if args == ((),):
            args = ()
        return {"k": "tuple_fix", "alias": alias, "hs": [describe(a, table) for a in args]}
    if origin is type or tp is type:
        if not args:
            return {"k": "type_bare", "alias": tp is typing.Type}
        return {"k": "type_of", "alias": alias, "h": describe(args[0], table)}
    if origin is not None and args:
        return {"k": "app", "alias": alias, "a": atom(origin), "args": [describe(a, table) for a in args]}
    base = tp if origin is None else origin
    params = getattr(base, "__parameters__", ())
    if isinstance(params, tuple) and params and isinstance(base, type) and issubclass(base, Generic):
        return {"k": "bare", "alias": alias, "a": atom(base), "params": [describe(p, table) for p in params]}
    if base in table:
        return {"k": "bare", "alias": alias, "a": atom(base), "params": [describe(p, table) for p in table[base]]}
    if isinstance(base, type):
        return {"k": "cls", "a": atom(base)}
    raise InfraError(f"hint outside the model: {tp!r}")


# ---------------------------------------------------------------------------
# real side
# ---------------------------------------------------------------------------

class Real:
    def __init__(self):
        from adaptix._internal.type_tools import normalize_type
        from adaptix._internal.type_tools import normalize_type as nt_mod  # noqa: F401
        from adaptix._internal.type_tools.constants import BUILTIN_ORIGIN_TO_TYPEVARS
        from adaptix._internal.type_tools.normalize_type import (
            BaseNormType,
            Bound,
            NormTV,
            _cached_normalize,
            _LiteralNormType,
            _UnionNormType,
        )
        self.normalize_type = normalize_type
        self.table = dict(BUILTIN_ORIGIN_TO_TYPEVARS)
        self.BaseNormType, self.NormTV, self.Bound = BaseNormType, NormTV, Bound
        self._cache = _cached_normalize
        self._lit_probe = _LiteralNormType((), source=None)
        self._union_probe = _UnionNormType((), source=None)

    def norm(self, tp):
        # the process-wide lru_cache is keyed by typing equality (Union[int, str] == Union[str, int]):
        # without clearing it, a respelled hint would be served the normal form of the first spelling
        self._cache.cache_clear()
        return self.normalize_type(tp)

    def env(self):
        def pair(o):
            return [str(o), id(o)]
        return {"none": pair(None), "any": pair(Any), "union": pair(Union), "literal": pair(Literal),
                "annotated": pair(Annotated), "tuple": pair(tuple), "type": pair(type), "ellipsis": str(Ellipsis)}

    def genv(self):
        """what the model of the generic helpers needs to know about the working tree / CPython"""
        _KEEP_ALIVE.extend(self.table)
        return {"builtin": sorted(id(o) for o in self.table), "opaque": [id(InitVar)],
                "tuple_in_table": tuple in self.table, "type_in_table": type in self.table}

    # -- canonical structure of a real normal form (same JSON as the driver's encNorm) --
    def canon_origin(self, o):
        for name, obj in (("none", None), ("any", Any), ("union", Union), ("literal", Literal),
                          ("annotated", Annotated), ("tuple", tuple), ("type", type)):
            if o is obj:
                return name
        _KEEP_ALIVE.append(o)
        return {"obj": id(o)}

    def canon_lit(self, v):
        d = describe_lit(v)
        if d["t"] == "enum":
            d["c"] = d["c"]["id"]
        return d

    def canon_norm(self, n):
        if isinstance(n, self.NormTV):
            # modelled as the node whose origin is the variable (origin = var, args = ())
            _KEEP_ALIVE.append(n.origin)
            return {"o": {"obj": id(n.origin)}, "args": []}
        if isinstance(n, self.BaseNormType):
            o = self.canon_origin(n.origin)
            if o == "literal":
                return {"o": o, "args": [{"lit": self.canon_lit(v)} for v in n.args]}
            if o == "annotated":
                return {"o": o, "args": [self.canon_norm(n.args[0])] + [{"meta": m} for m in n.args[1:]]}
            return {"o": o, "args": [self.canon_norm(a) for a in n.args]}
        if n is Ellipsis:
            return "..."
        raise InfraError(f"norm arg outside the model: {n!r}")

    def canon_key(self, k):
        if not (isinstance(k, tuple) and len(k) == 3):
            return {"unstructured-key": repr(k)[:200]}
        return [k[0], k[1], [self.canon_key(c) for c in k[2]]]

    def order_key(self, n):
        return self.canon_key(self._union_probe._make_orderable(n))

    def lit_key(self, v):
        k = self._lit_probe._make_orderable(v)
        if not (isinstance(k, tuple) and len(k) == 3):
            return {"unstructured-key": repr(k)[:200]}
        return {"text": k[0], "id": k[1]}

    def tv_limit(self, n):
        lim = n.limit
        if isinstance(lim, self.Bound):
            return {"constraints": False, "values": [self.canon_norm(lim.value)]}
        return {"constraints": True, "values": [self.canon_norm(v) for v in lim.value]}

    # -- a normal form read back as a hint (for idempotence) --
    def rebuild(self, n):
        if isinstance(n, self.NormTV):
            return n.origin
        if n is Ellipsis:
            return Ellipsis
        o = n.origin
        if o is None:
            return None
        if o is Union:
            return Union[tuple(self.rebuild(a) for a in n.args)]
        if o is Literal:
            return Literal[tuple(n.args)]
        if o is Annotated:
            return Annotated[(self.rebuild(n.args[0]), *n.args[1:])]
        if o is InitVar:
            return InitVar[self.rebuild(n.args[0])]
        if not n.args:
            return o if o is not tuple else tuple[()]
        args = tuple(self.rebuild(a) for a in n.args)
        if o in (ClassVar, Final):
            return o[args[0]]
        try:
            return o[args] if len(args) != 1 else o[args[0]]
        except TypeError:
            raise InfraError(f"cannot read back {n!r}")


# ---------------------------------------------------------------------------
# independent meaning of a recipe (sets), used to validate rewrites/edits
# ---------------------------------------------------------------------------

def sem(r, coarse=False):
    """Meaning of a recipe with unions as frozensets of alternatives and literals as sets of (type, value).
    `coarse=True` additionally distributes type[...] over alternatives (used only to *skip* inequality demands)."""
    u = universe()
    k = r["r"]
    if k == "none":
        return ("none",)
    if k == "any":
        return ("any",)
    if k in ("cls", "newtype", "tv", "bad"):
        return (k, r["n"])
    if k == "gen":
        args = r["args"] if r["args"] is not None else u.implicit_recipes(r["g"])
        return ("gen", r["g"], tuple(sem(a, coarse) for a in args))
    if k == "tuple":
        if r["form"] == "bare":
            return ("tuple", "var", (("any",),))
        return ("tuple", r["form"], tuple(sem(a, coarse) for a in r["items"]))
    if k == "type":
        inner = ("any",) if r["arg"] is None else sem(r["arg"], coarse)
        if coarse and isinstance(inner, frozenset):
            return frozenset(("type", x) for x in inner)
        return ("type", inner)
    if k == "union":
        alts = set()
        for m in r["ms"]:
            s = sem(m, coarse)
            if isinstance(s, frozenset):
                alts |= s
            else:
                alts.add(s)
        return next(iter(alts)) if len(alts) == 1 else frozenset(alts)
    if k == "literal":
        alts = {("none",) if v["t"] == "none" else ("lit", canon(v)) for v in r["vs"]}
        return next(iter(alts)) if len(alts) == 1 else frozenset(alts)
    if k == "annotated":
        inner, metas = sem(r["h"], coarse), tuple(r["metas"])
        if isinstance(inner, tuple) and inner and inner[0] == "ann":     # Annotated[Annotated[T, a], b] is Annotated[T, a, b]
            return ("ann", inner[1], inner[2] + metas)
        return ("ann", inner, metas)
    raise InfraError(f"bad recipe {r}")


def contains(r, kinds):
    if r["r"] in kinds:
        return True
    return any(contains(c, kinds) for c in children(r))


def children(r):
    k = r["r"]
    if k == "gen":
        return r["args"] or []
    if k == "tuple":
        return r.get("items", []) if r["form"] != "bare" else []
    if k == "type":
        return [] if r["arg"] is None else [r["arg"]]
    if k == "union":
        return r["ms"]
    if k == "annotated":
        return [r["h"]]
    return []


def with_children(r, new):
    r = dict(r)
    k = r["r"]
    if k == "gen":
        r["args"] = list(new)
    elif k == "tuple":
        r["items"] = list(new)
    elif k == "type":
        r["arg"] = new[0]
    elif k == "union":
        r["ms"] = list(new)
    elif k == "annotated":
        r["h"] = new[0]
    return r


def paths(r, prefix=()):
    yield prefix
    for i, c in enumerate(children(r)):
        yield from paths(c, (*prefix, i))


def get_at(r, path):
    for i in path:
        r = children(r)[i]
    return r


def set_at(r, path, new):
    if not path:
        return new
    cs = list(children(r))
    cs[path[0]] = set_at(cs[path[0]], path[1:], new)
    return with_children(r, cs)


# ---------------------------------------------------------------------------
# generators
# ---------------------------------------------------------------------------

LIT_POOL = (
    [{"t": "int", "v": v} for v in (0, 1, -1, 2, 10, 255, -20)]
    + [{"t": "bool", "v": v} for v in (False, True)]
    + [{"t": "str", "v": v} for v in ("a", "b", "0", "1", "True", "", "it's", 'q"', "both'\"", "back\\slash", "tab\t",
                                        "nl\n", "None", "b'a'", " ", "Z", "~")]
    + [{"t": "bytes", "v": v} for v in ("a", "0", "", "it's", "x\"y", "\\")]
    + [{"t": "enum", "c": c, "n": n} for c, n in (("E#1", "A"), ("E#2", "A"), ("E#1", "B"), ("E#2", "B"),
                                                  ("Color", "RED"), ("Color", "BLUE"), ("IE", "X"), ("IE", "Y"))]
)
SCALARS = ["int", "str", "bytes", "bool", "float"]
CLASSES = [*SCALARS, "A#1", "A#2", "Bm", "E#1", "E#2", "Color", "IE"]
CONTAINERS1 = ["list", "set", "frozenset", "deque", "Iterable", "Sequence", "Counter", "Pattern"]
CONTAINERS2 = ["dict", "defaultdict", "OrderedDict", "Mapping"]
USER_GENERICS = ["G1", "G2", "G3", "G4", "G5", "G6", "G7", "G8"]
LOADABLE_GENERICS = {"list", "set", "frozenset", "deque", "dict", "defaultdict", "Iterable", "Sequence", "Mapping",
                     *USER_GENERICS}


def gen_literal(rng, allow_none=True):
    n = rng.choice([1, 1, 2, 2, 3, 4])
    vs = [rng.choice(LIT_POOL) for _ in range(n)]
    if allow_none and rng.random() < 0.2:
        vs.insert(rng.randrange(len(vs) + 1), {"t": "none"})
    # look-alike clusters: 0/False/"0"/b"0", 1/True/IE.X
    if rng.random() < 0.35:
        cluster = rng.choice([
            [{"t": "int", "v": 0}, {"t": "bool", "v": False}, {"t": "str", "v": "0"}, {"t": "bytes", "v": "0"},
             {"t": "enum", "c": "IE", "n": "Y"}],
            [{"t": "int", "v": 1}, {"t": "bool", "v": True}, {"t": "str", "v": "1"}, {"t": "enum", "c": "IE", "n": "X"},
             {"t": "str", "v": "True"}],
            [{"t": "enum", "c": "E#1", "n": "A"}, {"t": "enum", "c": "E#2", "n": "A"}],
        ])
        vs = rng.sample(cluster, rng.randint(1, len(cluster)))
    return {"r": "literal", "vs": vs}


def gen_recipe(rng, depth, loadable=False, in_union=False):
    """A random hint recipe. `loadable` restricts to types the builtin recipe of Retort can load and dump."""
    u = universe()
    leaf = depth <= 0 or rng.random() < 0.25
    if leaf:
        x = rng.random()
        if x < 0.45:
            return {"r": "cls", "n": rng.choice(CLASSES if rng.random() < 0.6 else ["A#1", "A#2", "int", "str"])}
        if x < 0.55:
            return {"r": "none", "sp": rng.random() < 0.5}
        if x < 0.62:
            return {"r": "any"}
        if x < 0.70:
            return {"r": "newtype", "n": rng.choice(list(u.newtypes))}
        if x < 0.82:
            return gen_literal(rng)
        if x < 0.9:
            g = rng.choice([g for g in (CONTAINERS1 + CONTAINERS2 + USER_GENERICS) if u.generics[g][3]
                            and (not loadable or g in LOADABLE_GENERICS)])
            return {"r": "gen", "g": g, "alias": rng.random() < 0.5, "args": None}
        if x < 0.94:
            return {"r": "tuple", "alias": rng.random() < 0.5, "form": "bare"}
        if not loadable:
            if x < 0.97:
                return {"r": "tv", "n": rng.choice(list(u.tvars))}
            return {"r": "type", "alias": rng.random() < 0.5, "arg": None}
        return {"r": "cls", "n": rng.choice(SCALARS)}
    x = rng.random()
    sub = lambda **kw: gen_recipe(rng, depth - 1, loadable, **kw)  # noqa: E731
    if x < 0.38 and not in_union:
        n = rng.choice([2, 2, 3, 3, 4, 5])
        ms = [sub(in_union=True) for _ in range(n)]
        if rng.random() < 0.5:
            ms.append(gen_literal(rng))
        if rng.random() < 0.25:
            ms.append(gen_literal(rng))
        if rng.random() < 0.3:
            ms.append({"r": "none", "sp": rng.random() < 0.5})
        rng.shuffle(ms)
        return {"r": "union", "style": rng.choice(["Union", "or", "Union"]), "ms": ms}
    if x < 0.58:
        pool = [g for g in CONTAINERS1 if not loadable or g in LOADABLE_GENERICS]
        return {"r": "gen", "g": rng.choice(pool), "alias": rng.random() < 0.5, "args": [sub()]}
    if x < 0.68:
        pool = [g for g in CONTAINERS2 if not loadable or g in LOADABLE_GENERICS]
        key = {"r": "cls", "n": rng.choice(["str", "int"])} if loadable else sub()
        return {"r": "gen", "g": rng.choice(pool), "alias": rng.random() < 0.5, "args": [key, sub()]}
    if x < 0.76:
        g = rng.choice(USER_GENERICS)
        return {"r": "gen", "g": g, "alias": False, "args": [sub() for _ in range(u.generics[g][2])]}
    if x < 0.86:
        form = rng.choice(["var", "fix", "fix"])
        n = 1 if form == "var" else rng.choice([0, 1, 2, 3])
        return {"r": "tuple", "alias": rng.random() < 0.5, "form": form, "items": [sub() for _ in range(n)]}
    if x < 0.92:
        return {"r": "annotated", "h": sub(), "metas": rng.sample(["m", "meta", "0", "x y"], rng.randint(1, 2))}
    if x < 0.97 and not loadable:
        return {"r": "type", "alias": rng.random() < 0.5, "arg": sub()}
    return {"r": "union", "style": "optional", "ms": [sub(in_union=True), {"r": "none", "sp": False}]} \
        if not in_union else sub(in_union=True)


# ---------------------------------------------------------------------------
# meaning-preserving rewrites (each returns a new recipe or None when not applicable at that node)
# ---------------------------------------------------------------------------

def respell(rng, r):
    """A copy of `r` with random spelling changes below it (all meaning-preserving)."""
    for _ in range(rng.randint(1, 3)):
        ps = list(paths(r))
        p = rng.choice(ps)
        name, new = apply_rewrite(rng, get_at(r, p), only_spelling=True)
        if new is not None:
            r = set_at(r, p, new)
    return r


def rw_reorder(rng, r):
    if r["r"] == "union" and len(r["ms"]) >= 2:
        ms = list(r["ms"])
        rng.shuffle(ms)
        style = "Union" if r.get("style") == "optional" else r.get("style", "Union")
        return dict(r, ms=ms, style=style)


def rw_nest(rng, r):
    if r["r"] == "union" and len(r["ms"]) >= 3:
        ms = list(r["ms"])
        i = rng.randrange(len(ms) - 1)
        j = rng.randint(i + 2, len(ms))
        inner = {"r": "union", "style": rng.choice(["Union", "or"]), "ms": ms[i:j]}
        return dict(r, ms=ms[:i] + [inner] + ms[j:], style="Union")


def rw_duplicate(rng, r):
    if r["r"] == "union":
        ms = list(r["ms"])
        m = rng.choice(ms)
        ms.insert(rng.randrange(len(ms) + 1), respell(rng, m))
        return dict(r, ms=ms, style="Union" if r.get("style") == "optional" else r.get("style", "Union"))
    if r["r"] not in ("bad",) and rng.random() < 0.2:
        # X  ->  Union[X, X'] with X' a respelling of X
        return {"r": "union", "style": rng.choice(["Union", "or"]), "ms": [r, respell(rng, r)]}


def rw_style(rng, r):
    if r["r"] == "union":
        styles = ["Union", "or"]
        if len(r["ms"]) == 2 and r["ms"][1]["r"] == "none":
            styles.append("optional")
        styles = [s for s in styles if s != r.get("style")]
        return dict(r, style=rng.choice(styles))


def rw_optional_position(rng, r):
    # Optional[X] <-> Union[None, X]
    if r["r"] == "union" and len(r["ms"]) == 2 and r["ms"][1]["r"] == "none" and r.get("style") == "optional":
        return dict(r, ms=[r["ms"][1], r["ms"][0]], style="Union")
    if r["r"] == "union" and len(r["ms"]) == 2 and r["ms"][0]["r"] == "none":
        return dict(r, ms=[r["ms"][1], r["ms"][0]], style="optional")


def rw_alias(rng, r):
    u = universe()
    if r["r"] == "gen" and u.generics[r["g"]][1] is not None:
        return dict(r, alias=not r.get("alias"))
    if r["r"] in ("tuple", "type"):
        return dict(r, alias=not r.get("alias"))


def rw_implicit(rng, r):
    u = universe()
    if r["r"] == "gen":
        if r["args"] is None:
            return dict(r, args=u.implicit_recipes(r["g"]))
        if u.generics[r["g"]][3] and canon([sem(a) for a in r["args"]]) == canon([sem(a) for a in u.implicit_recipes(r["g"])]):
            return dict(r, args=None)
    if r["r"] == "tuple":
        if r["form"] == "bare":
            return dict(r, form="var", items=[{"r": "any"}])
        if r["form"] == "var" and r["items"][0]["r"] == "any":
            return {"r": "tuple", "alias": r.get("alias"), "form": "bare"}
    if r["r"] == "type":
        if r["arg"] is None:
            return dict(r, arg={"r": "any"})
        if r["arg"]["r"] == "any":
            return dict(r, arg=None)


def rw_literal_split(rng, r):
    if r["r"] == "literal" and len(r["vs"]) >= 2:
        vs = list(r["vs"])
        rng.shuffle(vs)
        k = rng.randint(1, len(vs) - 1)
        parts = [{"r": "literal", "vs": vs[:k]}, {"r": "literal", "vs": vs[k:]}]
        if rng.random() < 0.3:   # overlapping split
            parts[1]["vs"] = parts[1]["vs"] + [rng.choice(vs[:k])]
        return {"r": "union", "style": rng.choice(["Union", "or"]), "ms": parts}


def rw_literal_merge(rng, r):
    if r["r"] == "union":
        idx = [i for i, m in enumerate(r["ms"]) if m["r"] == "literal"]
        if len(idx) >= 2:
            i, j = rng.sample(idx, 2)
            merged = {"r": "literal", "vs": r["ms"][i]["vs"] + r["ms"][j]["vs"]}
            ms = [m for k, m in enumerate(r["ms"]) if k not in (i, j)]
            ms.insert(rng.randrange(len(ms) + 1), merged)
            return dict(r, ms=ms, style="Union" if r.get("style") == "optional" else r.get("style", "Union"))


def rw_literal_reorder(rng, r):
    if r["r"] == "literal" and len(r["vs"]) >= 2:
        vs = list(r["vs"])
        rng.shuffle(vs)
        if rng.random() < 0.3:
            vs.append(rng.choice(vs))     # repeated value: typing drops it
        return dict(r, vs=vs)


def rw_literal_none(rng, r):
    if r["r"] == "none":
        return {"r": "literal", "vs": [{"t": "none"}]}
    if r["r"] == "literal":
        if r["vs"] == [{"t": "none"}]:
            return {"r": "none", "sp": rng.random() < 0.5}
        if any(v["t"] == "none" for v in r["vs"]):
            rest = [v for v in r["vs"] if v["t"] != "none"]
            if not rest:
                return {"r": "none", "sp": rng.random() < 0.5}
            ms = [{"r": "literal", "vs": rest}, {"r": "none", "sp": rng.random() < 0.5}]
            rng.shuffle(ms)
            return {"r": "union", "style": "Union", "ms": ms}
    if r["r"] == "union":
        li = [i for i, m in enumerate(r["ms"]) if m["r"] == "literal"]
        ni = [i for i, m in enumerate(r["ms"]) if m["r"] == "none"]
        if li and ni:
            i, j = rng.choice(li), rng.choice(ni)
            vs = list(r["ms"][i]["vs"])
            vs.insert(rng.randrange(len(vs) + 1), {"t": "none"})
            ms = [dict(m, vs=vs) if k == i else m for k, m in enumerate(r["ms"]) if k != j]
            return dict(r, ms=ms, style="Union")


def rw_none_spelling(rng, r):
    if r["r"] == "none":
        return dict(r, sp=not r.get("sp"))


SPELLING_REWRITES = [("alias", rw_alias), ("none-spelling", rw_none_spelling), ("union-style", rw_style),
                     ("implicit-params", rw_implicit), ("literal-reorder", rw_literal_reorder),
                     ("reorder", rw_reorder)]
REWRITES = [
    ("reorder", rw_reorder), ("reorder", rw_reorder), ("nest", rw_nest), ("duplicate", rw_duplicate),
    ("union-style", rw_style), ("optional", rw_optional_position), ("alias", rw_alias),
    ("implicit-params", rw_implicit), ("implicit-params", rw_implicit),
    ("literal-split", rw_literal_split), ("literal-merge", rw_literal_merge),
    ("literal-reorder", rw_literal_reorder), ("literal-none", rw_literal_none), ("none-spelling", rw_none_spelling),
]


def apply_rewrite(rng, node, only_spelling=False):
    table = SPELLING_REWRITES if only_spelling else REWRITES
    for _ in range(6):
        name, fn = rng.choice(table)
        new = fn(rng, node)
        if new is not None:
            return name, new
    return None, None


def rewrite_somewhere(rng, r):
    """One meaning-preserving rewrite at a random node. Returns (kind, new recipe) or (None, None)."""
    ps = list(paths(r))
    for _ in range(8):
        p = rng.choice(ps)
        name, new = apply_rewrite(rng, get_at(r, p))
        if new is not None:
            return name, set_at(r, p, new)
    return None, None


# ---------------------------------------------------------------------------
# single meaning-changing edits
# ---------------------------------------------------------------------------

LOOKALIKE = {
    canon({"t": "int", "v": 0}): [{"t": "bool", "v": False}, {"t": "str", "v": "0"}, {"t": "enum", "c": "IE", "n": "Y"}],
    canon({"t": "int", "v": 1}): [{"t": "bool", "v": True}, {"t": "str", "v": "1"}, {"t": "enum", "c": "IE", "n": "X"}],
    canon({"t": "bool", "v": False}): [{"t": "int", "v": 0}, {"t": "str", "v": "False"}],
    canon({"t": "bool", "v": True}): [{"t": "int", "v": 1}, {"t": "str", "v": "True"}],
    canon({"t": "str", "v": "0"}): [{"t": "int", "v": 0}, {"t": "bytes", "v": "0"}],
    canon({"t": "str", "v": "a"}): [{"t": "bytes", "v": "a"}],
    canon({"t": "bytes", "v": "a"}): [{"t": "str", "v": "a"}, {"t": "str", "v": "b'a'"}],
    canon({"t": "enum", "c": "E#1", "n": "A"}): [{"t": "enum", "c": "E#2", "n": "A"}],
    canon({"t": "enum", "c": "E#2", "n": "A"}): [{"t": "enum", "c": "E#1", "n": "A"}],
    canon({"t": "enum", "c": "IE", "n": "X"}): [{"t": "int", "v": 1}, {"t": "bool", "v": True}],
    canon({"t": "enum", "c": "IE", "n": "Y"}): [{"t": "int", "v": 0}, {"t": "bool", "v": False}],
}
TWIN = {"A#1": "A#2", "A#2": "A#1", "E#1": "E#2", "E#2": "E#1", "int": "bool", "bool": "int", "str": "bytes",
        "bytes": "str"}


def ed_literal_value(rng, r):
    if r["r"] == "literal":
        vs = list(r["vs"])
        i = rng.randrange(len(vs))
        alt = LOOKALIKE.get(canon(vs[i]))
        new = rng.choice(alt) if alt and rng.random() < 0.8 else rng.choice(LIT_POOL)
        vs[i] = new
        return "literal-value", dict(r, vs=vs)


def ed_literal_add(rng, r):
    if r["r"] == "literal":
        base = rng.choice(r["vs"])
        alt = LOOKALIKE.get(canon(base))
        new = rng.choice(alt) if alt and rng.random() < 0.7 else rng.choice(LIT_POOL)
        return "literal-add", dict(r, vs=r["vs"] + [new])


def ed_literal_drop(rng, r):
    if r["r"] == "literal" and len(r["vs"]) >= 2:
        vs = list(r["vs"])
        vs.pop(rng.randrange(len(vs)))
        return "literal-drop", dict(r, vs=vs)


def ed_class(rng, r):
    if r["r"] == "cls":
        n = TWIN[r["n"]] if r["n"] in TWIN and rng.random() < 0.7 else rng.choice(CLASSES)
        return "class", dict(r, n=n)
    if r["r"] == "newtype":
        return "newtype-base", {"r": "cls", "n": "int" if r["n"] == "NInt" else "str"}
    if r["r"] == "tv":
        return "typevar", dict(r, n=rng.choice(list(universe().tvars)))
    if r["r"] == "none":
        return "none-to-class", {"r": "cls", "n": rng.choice(SCALARS)}
    if r["r"] == "any":
        return "any-to-class", {"r": "cls", "n": rng.choice(SCALARS)}


def ed_union_drop(rng, r):
    if r["r"] == "union" and len(r["ms"]) >= 2:
        ms = list(r["ms"])
        ms.pop(rng.randrange(len(ms)))
        return "union-drop", dict(r, ms=ms, style="Union")


def ed_union_add(rng, r):
    if r["r"] == "union":
        ms = list(r["ms"])
        extra = rng.choice([{"r": "cls", "n": rng.choice(CLASSES)}, gen_literal(rng, allow_none=False),
                            {"r": "none", "sp": False}, {"r": "gen", "g": "list", "alias": False, "args": None}])
        ms.insert(rng.randrange(len(ms) + 1), extra)
        return "union-add", dict(r, ms=ms, style="Union")


def ed_generic(rng, r):
    u = universe()
    if r["r"] == "gen":
        arity = u.generics[r["g"]][2]
        same = [g for g in (CONTAINERS1 + CONTAINERS2) if u.generics[g][2] == arity and g != r["g"]
                and (r["args"] is not None or u.generics[g][3])]
        if r["args"] is None and rng.random() < 0.5:
            # a bare generic is not the generic with some *other* parameter
            return "bare-vs-param", dict(r, args=[{"r": "cls", "n": "Bm"}] * arity)
        if r["g"] not in USER_GENERICS and r["g"] not in ("ClassVar", "Final", "InitVar") and same:
            return "generic-origin", dict(r, g=rng.choice(same), alias=False)
    if r["r"] == "tuple" and r["form"] == "var":
        return "tuple-form", dict(r, form="fix")
    if r["r"] == "tuple" and r["form"] == "fix" and len(r["items"]) == 1:
        return "tuple-form", dict(r, form="var")
    if r["r"] == "tuple" and r["form"] == "fix" and len(r["items"]) >= 2:
        return "tuple-arity", dict(r, items=r["items"][:-1])
    if r["r"] == "type" and r["arg"] is None:
        return "bare-vs-param", dict(r, arg={"r": "cls", "n": "int"})


EDITS = [ed_literal_value, ed_literal_value, ed_literal_add, ed_literal_drop, ed_class, ed_class, ed_union_drop,
         ed_union_add, ed_generic]


def edit_somewhere(rng, r):
    """One meaning-changing edit; returns (kind, recipe) with sem(new) != sem(r), or (None, None)."""
    ps = list(paths(r))
    base = canon(sem_key(r, True))
    for _ in range(12):
        p = rng.choice(ps)
        out = rng.choice(EDITS)(rng, get_at(r, p))
        if out is None:
            continue
        kind, new_node = out
        new = set_at(r, p, new_node)
        if canon(sem_key(new, True)) != base and canon(sem_key(new, False)) != canon(sem_key(r, False)):
            return kind, new
    return None, None


def sem_key(r, coarse):
    """JSON-able, order-independent rendering of `sem`."""
    def enc(s):
        if isinstance(s, frozenset):
            return {"set": sorted(canon(enc(x)) for x in s)}
        if isinstance(s, tuple):
            return [enc(x) for x in s]
        return s
    return enc(sem(r, coarse))


# ---------------------------------------------------------------------------
# cases
# ---------------------------------------------------------------------------

def L(*vs):
    out = []
    for v in vs:
        if v is None:
            out.append({"t": "none"})
        elif isinstance(v, bool):
            out.append({"t": "bool", "v": v})
        elif isinstance(v, int):
            out.append({"t": "int", "v": v})
        elif isinstance(v, str):
            out.append({"t": "str", "v": v})
        elif isinstance(v, bytes):
            out.append({"t": "bytes", "v": v.decode()})
        else:
            out.append({"t": "enum", "c": v[0], "n": v[1]})
    return {"r": "literal", "vs": out}


def C(n):
    return {"r": "cls", "n": n}


def U(*ms, style="Union"):
    return {"r": "union", "style": style, "ms": list(ms)}


def G(g, *args, alias=False):
    return {"r": "gen", "g": g, "alias": alias, "args": list(args) if args else None}


NONE = {"r": "none", "sp": False}


def corner_groups():
    """Hand-written groups: the statement's own examples and the collisions found while building the check."""
    g = []

    def grp(chain, edits=()):
        g.append({"suite": "group", "chain": [[k, r] for k, r in chain], "edits": [[k, r] for k, r in edits]})

    grp([("base", U(L(0), L(False))), ("literal-merge", L(0, False)), ("literal-reorder", L(False, 0))],
        [("literal-drop", L(0)), ("literal-drop", L(False)), ("literal-value", L(0, True))])
    grp([("base", U(L(0, False), C("int"))), ("reorder", U(C("int"), L(False), L(0)))],
        [("literal-drop", U(L(0), C("int")))])
    grp([("base", U(L(1), L(True), L(("IE", "X")))), ("literal-merge", L(("IE", "X"), True, 1))],
        [("literal-drop", L(1, True)), ("literal-drop", L(("IE", "X"), 1))])
    grp([("base", U(C("A#1"), C("A#2"))), ("reorder", U(C("A#2"), C("A#1"))), ("union-style", U(C("A#2"), C("A#1"), style="or"))],
        [("union-drop", C("A#1")), ("class", U(C("A#1"), C("A#1")))])
    grp([("base", G("list", U(C("A#1"), C("A#2")))), ("reorder", G("list", U(C("A#2"), C("A#1"))))])
    grp([("base", U(G("list", L(0)), G("list", L("0")))), ("reorder", U(G("list", L("0")), G("list", L(0))))],
        [("literal-value", U(G("list", L(0)), G("list", L(0))))])
    grp([("base", L(("E#1", "A"), ("E#2", "A"))), ("literal-reorder", L(("E#2", "A"), ("E#1", "A")))],
        [("literal-drop", L(("E#1", "A")))])
    grp([("base", U(L(None), NONE)), ("literal-none", NONE), ("literal-none", L(None))], [("none-to-class", C("int"))])
    grp([("base", U(C("int"), NONE, style="optional")), ("optional", U(NONE, C("int"))), ("union-style", U(C("int"), NONE, style="or")),
         ("literal-none", U(C("int"), L(None)))], [("union-drop", C("int"))])
    grp([("base", L(1, None)), ("literal-none", U(L(1), NONE)), ("literal-split", U(L(None), L(1)))], [("literal-drop", L(1))])
    grp([("base", G("list")), ("alias", G("list", alias=True)), ("implicit-params", G("list", {"r": "any"}))],
        [("bare-vs-param", G("list", C("int")))])
    grp([("base", G("Pattern")), ("implicit-params", G("Pattern", U(C("str"), C("bytes")))),
         ("reorder", G("Pattern", U(C("bytes"), C("str"))))], [("bare-vs-param", G("Pattern", C("str")))])
    for name in USER_GENERICS:
        grp([("base", G(name)), ("implicit-params", G(name, *universe().implicit_recipes(name)))])
    grp([("base", {"r": "tuple", "alias": False, "form": "bare"}),
         ("implicit-params", {"r": "tuple", "alias": True, "form": "var", "items": [{"r": "any"}]})],
        [("tuple-form", {"r": "tuple", "alias": True, "form": "fix", "items": [{"r": "any"}]})])
    grp([("base", {"r": "type", "alias": False, "arg": U(C("int"), C("str"))}),
         ("reorder", {"r": "type", "alias": True, "arg": U(C("str"), C("int"))})])
    grp([("base", U({"r": "type", "alias": False, "arg": U(C("int"), C("str"))}, {"r": "type", "alias": False, "arg": C("int")})),
         ("reorder", U({"r": "type", "alias": True, "arg": C("int")}, {"r": "type", "alias": False, "arg": U(C("str"), C("int"))}))])
    return g


def make_group(rng, depth, loadable=False):
    base = gen_recipe(rng, depth, loadable)
    chain = [["base", base]]
    cur = base
    for _ in range(rng.randint(2, 6) if not loadable else rng.randint(1, 3)):
        kind, new = rewrite_somewhere(rng, cur)
        if new is None:
            continue
        chain.append([kind, new])
        cur = new
    edits = []
    for _ in range(rng.randint(1, 2)):
        src = rng.choice(chain)[1]
        kind, new = edit_somewhere(rng, src)
        if new is None:
            continue
        if rng.random() < 0.4:
            _k2, n2 = rewrite_somewhere(rng, new)
            new = n2 or new
        edits.append([kind, new])
    return {"suite": "retort" if loadable else "group", "chain": chain, "edits": edits}


def self_check_group(case):
    base = canon(sem_key(case["chain"][0][1], False))
    for kind, r in case["chain"][1:]:
        if canon(sem_key(r, False)) != base:
            raise InfraError(f"harness bug: rewrite {kind} changed the meaning: {case['chain'][0][1]} -> {r}")
    for kind, r in case["edits"]:
        if canon(sem_key(r, True)) == canon(sem_key(case["chain"][0][1], True)):
            raise InfraError(f"harness bug: edit {kind} kept the meaning")


# ---------------------------------------------------------------------------
# norm groups: correspondence + direct oracle
# ---------------------------------------------------------------------------

def show(tp):
    return repr(tp)[:300]


def eval_group(ctx: Ctx, real: Real, case, requests=None, metas=None):
    """Runs the real normaliser on every hint of the group, evaluates the direct oracle, and (when `requests` is
    given) queues the model requests. Returns nothing; everything is reported through ctx."""
    self_check_group(case)
    entries = [("chain", k, r) for k, r in case["chain"]] + [("edit", k, r) for k, r in case["edits"]]
    hints, norms = [], []
    for _role, _k, r in entries:
        tp = build(r)
        hints.append(tp)
        try:
            norms.append(real.norm(tp))
        except Exception as e:  # a hint of the grammar must normalise
            norms.append(None)
            ctx.fail("normalize-raises", f"normalize_type({show(tp)}) raised {type(e).__name__}: {e}", case)
    base_r = case["chain"][0][1]
    ctx.note_case(case, nontrivial=contains(base_r, ("union", "literal")) or _has_bare(base_r), kind="group")
    for _role, k, _r in entries[1:]:
        ctx.dist[f"{_role}:{k}"] += 1
    n_chain = len(case["chain"])
    ok_chain = True
    # equivalent hints: equal forms, equal hashes (consecutive steps name the rewrite that broke it)
    for i in range(1, n_chain):
        a, b = norms[i - 1], norms[i]
        if a is None or b is None:
            ok_chain = False
            continue
        kind = entries[i][1]
        if not (a == b and b == a):
            ok_chain = False
            ctx.fail(f"equiv:{kind}", f"equivalent hints normalise differently ({kind}): {show(hints[i - 1])} -> {a!r}  vs  "
                     f"{show(hints[i])} -> {b!r}", case)
        elif hash(a) != hash(b):
            ok_chain = False
            ctx.fail(f"hash:{kind}", f"equal normal forms with different hashes ({kind}): {show(hints[i - 1])} vs {show(hints[i])}", case)
    # a meaning-changing edit never collapses
    if ok_chain and norms[0] is not None:
        for i in range(n_chain, len(entries)):
            if norms[i] is not None and (norms[i] == norms[0] or norms[0] == norms[i]):
                kind = entries[i][1]
                ctx.fail(f"collapse:{kind}", f"hints denoting different types normalise equal ({kind}): {show(hints[0])} and "
                         f"{show(hints[i])} -> {norms[i]!r}", case)
    # idempotence: the normal form read back as a hint normalises to itself
    for i in (0, len(entries) - 1):
        n = norms[i]
        if n is None:
            continue
        try:
            again = real.norm(real.rebuild(n))
        except InfraError:
            raise
        except Exception as e:
            ctx.fail("idempotent", f"normal form of {show(hints[i])} cannot be normalised again: {type(e).__name__}: {e}", case)
            continue
        if not (again == n and hash(again) == hash(n)):
            ctx.fail("idempotent", f"normalisation is not idempotent on {show(hints[i])}: {n!r} -> {again!r}", case)
    if requests is None:
        return
    env = real.env()
    canon_norms = [None if n is None else real.canon_norm(n) for n in norms]
    first = len(requests)
    for tp in hints:
        requests.append({"op": "normalize", "env": env, "hint": describe(tp, real.table)})
    requests.append({"op": "order_key", "env": env, "hint": describe(hints[0], real.table)})
    rel = [[(norms[i] is not None and norms[j] is not None and norms[i] == norms[j]) for j in range(len(norms))]
           for i in range(len(norms))]
    for i in range(len(norms)):
        for j in range(len(norms)):
            if rel[i][j] and hash(norms[i]) != hash(norms[j]):
                ctx.fail("hash:relation", f"{norms[i]!r} == {norms[j]!r} but hashes differ", case)
    metas.append({"case": case, "first": first, "n": len(hints), "canon": canon_norms, "rel": rel,
                  "key": None if norms[0] is None else real.order_key(norms[0]), "hints": [show(h) for h in hints]})


def _has_bare(r):
    if r["r"] == "gen" and r["args"] is None:
        return True
    if r["r"] in ("tuple",) and r["form"] == "bare":
        return True
    if r["r"] == "type" and r["arg"] is None:
        return True
    return any(_has_bare(c) for c in children(r))


def compare_groups(ctx: Ctx, replies, metas):
    n_norm = d_norm = n_rel = d_rel = n_key = d_key = 0
    for m in metas:
        reps = replies[m["first"]: m["first"] + m["n"]]
        key_rep = replies[m["first"] + m["n"]]
        for i, (rep, real_c) in enumerate(zip(reps, m["canon"])):
            if real_c is None:
                continue
            n_norm += 1
            if rep.get("ok") != real_c:
                d_norm += 1
                ctx.disagree("normalize", {"case": m["case"], "index": i, "hint": m["hints"][i]}, real_c, rep)
        model_rel = [[("ok" in a and a.get("ok") == b.get("ok")) for b in reps] for a in reps]
        if all(c is not None for c in m["canon"]):
            n_rel += 1
            if model_rel != m["rel"]:
                d_rel += 1
                ctx.disagree("relations", {"case": m["case"], "hints": m["hints"]}, m["rel"], model_rel)
        if m["key"] is not None:
            n_key += 1
            if key_rep.get("ok") != m["key"]:
                d_key += 1
                ctx.disagree("order-key", {"case": m["case"], "hint": m["hints"][0]}, m["key"], key_rep)
    ctx.suite("normalize", n_norm, d_norm)
    ctx.suite("relations", n_rel, d_rel)
    ctx.suite("order-key", n_key, d_key)


def suite_groups(ctx: Ctx, real: Real, drv, n_random: int):
    cases = corner_groups()
    for i in range(n_random):
        cases.append(make_group(ctx.rng, ctx.rng.choice([1, 2, 2, 3, 3, 4])))
    chunk = 2000     # bounded driver batches (a request carries the full description of a hint)
    for start in range(0, len(cases), chunk):
        requests, metas = ([], []) if drv else (None, None)
        for c in cases[start:start + chunk]:
            eval_group(ctx, real, c, requests, metas)
            ctx.sample({"suite": "group", "hints": [show(build(r)) for _k, r in c["chain"]][:3],
                        "edit": [show(build(r)) for _k, r in c["edits"]][:1]}, every=397)
        if drv:
            replies = drv.batch(requests)
            compare_groups(ctx, replies, metas)
        del _KEEP_ALIVE[200000:]


# ---------------------------------------------------------------------------
# keys, TypeVar limits, malformed hints
# ---------------------------------------------------------------------------

def suite_keys(ctx: Ctx, real: Real, drv):
    if not drv:
        return
    env = real.env()
    vals = list(LIT_POOL) + [{"t": "none"}]
    for _ in range(ctx.budget(150, 1500)):
        if ctx.rng.random() < 0.5:
            vals.append({"t": "int", "v": ctx.rng.choice([1, -1]) * ctx.rng.randrange(10 ** ctx.rng.randint(0, 25))})
        else:
            alphabet = "ab'\"\\ \t\n\rZ~0{}[],.\x7f\x01"
            s = "".join(ctx.rng.choice(alphabet) for _ in range(ctx.rng.randint(0, 6)))
            vals.append({"t": ctx.rng.choice(["str", "bytes"]), "v": s})
    reqs, reals = [], []
    for v in vals:
        pv = lit_value(v)
        d = describe_lit(pv)
        reqs.append({"op": "lit_key", "env": env, "v": d})
        reals.append(real.lit_key(pv))
    n = d_ = 0
    for v, rep, rl in zip(vals, drv.batch(reqs), reals):
        n += 1
        ctx.note_case({"suite": "lit-key", "v": v}, nontrivial=v["t"] in ("str", "bytes", "enum"), kind="lit-key")
        if rep.get("ok") != rl:
            d_ += 1
            ctx.disagree("literal-key", {"suite": "lit-key", "v": v}, rl, rep)
    ctx.suite("literal-key", n, d_)
    # the IdentKeys hypothesis on this run's objects: distinct values <-> distinct keys; object ids distinct, non-zero
    seen_keys: dict = {}
    n = d_ = 0
    for v, rl in zip(vals, reals):
        ident = canon(describe_lit(lit_value(v)) if v["t"] != "enum" else [v["c"], v["n"]])
        k = canon(rl)
        n += 1
        if seen_keys.setdefault(k, ident) != ident:
            d_ += 1
            ctx.disagree("ident-keys", {"suite": "ident-keys", "v": v}, "distinct literal values", f"share the key {k}")
    objs = list(universe().classes.values()) + list(universe().newtypes.values()) + list(universe().tvars.values()) \
        + [g[0] for g in universe().generics.values()] + [None, Any, Union, Literal, Annotated, tuple, type]
    ids = [id(o) for o in objs]
    n += 1
    if 0 in ids:
        d_ += 1
        ctx.disagree("ident-keys", {"suite": "ident-keys", "objects": True}, "ids are non-zero", "an object has id 0")
    ctx.suite("ident-keys", n, d_)
    # TypeVar limits
    u = universe()
    reqs, reals, names = [], [], []
    for name, tv in u.tvars.items():
        reqs.append({"op": "tv_limit", "env": env, "hint": describe(tv, real.table)})
        reals.append(real.tv_limit(real.norm(tv)))
        names.append(name)
    n = d_ = 0
    for name, rep, rl in zip(names, drv.batch(reqs), reals):
        n += 1
        ctx.note_case({"suite": "tv-limit", "tv": name}, nontrivial=True, kind="tv-limit")
        if rep.get("ok") != rl:
            d_ += 1
            ctx.disagree("tv-limit", {"suite": "tv-limit", "tv": name}, rl, rep)
    ctx.suite("tv-limit", n, d_)


def gen_malformed(rng):
    bad = {"r": "bad", "n": rng.choice(list(BAD_OBJECTS))}
    r = bad
    for _ in range(rng.randint(0, 3)):
        x = rng.random()
        other = gen_recipe(rng, 1)
        if x < 0.35:
            r = {"r": "gen", "g": rng.choice(["list", "set", "frozenset"]), "alias": False, "args": [r]}
        elif x < 0.6:
            r = {"r": "gen", "g": "dict", "alias": False, "args": [other, r] if rng.random() < 0.5 else [r, other]}
        elif x < 0.8:
            items = [other, r] if rng.random() < 0.5 else [r, other]
            r = {"r": "tuple", "alias": False, "form": "fix", "items": items}
        else:
            r = {"r": "tuple", "alias": False, "form": "var", "items": [r]}
    return r


def suite_malformed(ctx: Ctx, real: Real, drv, n: int):
    env = real.env()
    cases = [{"r": "bad", "n": k} for k in BAD_OBJECTS] + [gen_malformed(ctx.rng) for _ in range(n)]
    reqs, reals, kept = [], [], []
    for r in cases:
        try:
            tp = build(r)
        except TypeError:
            ctx.dist["malformed:typing-refuses"] += 1
            continue
        try:
            out = real.canon_norm(real.norm(tp))
        except ValueError as e:
            out = {"raises": "NotSubscribedError" if type(e).__name__ == "NotSubscribedError" else "ValueError"}
        except Exception as e:
            out = {"raises": type(e).__name__}
        case = {"suite": "malformed", "recipe": r}
        ctx.note_case(case, nontrivial=r["r"] != "bad", kind="malformed")
        ctx.dist["malformed:" + str(out.get("raises", "accepted") if isinstance(out, dict) else "accepted")] += 1
        reals.append(out)
        kept.append(case)
        reqs.append({"op": "normalize", "env": env, "hint": describe(tp, real.table)})
    if not drv:
        return
    n_ = d_ = 0
    for case, rep, rl in zip(kept, drv.batch(reqs), reals):
        n_ += 1
        if rep.get("ok") != rl:
            d_ += 1
            ctx.disagree("malformed", case, rl, rep)
    ctx.suite("malformed", n_, d_)


# ---------------------------------------------------------------------------
# second observation: loaders, dumpers and predicates of equivalent hints
# ---------------------------------------------------------------------------

JUNK = [None, 0, 1, True, False, "a", "0", "red", [1], {"x": 1}, [], [True], ["a"], 1.5, {"x": "s"}, {"y": "s"},
        {"f0": 1, "f1": 1}, [[1]], {"k": 1}, "YQ=="]


def gen_data(rng, r, depth=0):
    u = universe()
    k = r["r"]
    if depth > 6:
        return None
    if k == "none":
        return None
    if k == "any":
        return rng.choice(JUNK)
    if k == "cls":
        n = r["n"]
        return {"int": rng.choice([0, 1, 7]), "str": rng.choice(["a", "0"]), "bytes": "YQ==", "bool": rng.choice([True, False]),
                "float": rng.choice([1.5, 1]), "A#1": {"x": 1}, "A#2": {"x": 1}, "Bm": {"y": "s"}, "E#1": rng.choice([1, 2]),
                "E#2": rng.choice([1, 2]), "Color": "red", "IE": rng.choice([0, 1])}[n]
    if k == "newtype":
        return 5 if r["n"] == "NInt" else "s"
    if k == "literal":
        v = lit_value(rng.choice(r["vs"]))
        if isinstance(v, enum.Enum):
            return v.value
        if isinstance(v, bytes):
            return rng.choice([v, "YQ=="])
        return v
    if k == "gen":
        g = r["g"]
        args = r["args"] if r["args"] is not None else u.implicit_recipes(g)
        if g in USER_GENERICS:
            return {f"f{i}": gen_data(rng, a, depth + 1) for i, a in enumerate(args)}
        if u.generics[g][2] == 2:
            key = gen_data(rng, args[0], depth + 1)
            try:
                hash(key)
            except TypeError:
                key = "k"
            return {key: gen_data(rng, args[1], depth + 1)}
        return [gen_data(rng, args[0], depth + 1) for _ in range(rng.randint(0, 2))]
    if k == "tuple":
        if r["form"] == "bare":
            return [rng.choice(JUNK)]
        if r["form"] == "var":
            return [gen_data(rng, r["items"][0], depth + 1) for _ in range(rng.randint(0, 2))]
        return [gen_data(rng, a, depth + 1) for a in r["items"]]
    if k == "union":
        return gen_data(rng, rng.choice(r["ms"]), depth + 1)
    if k == "annotated":
        return gen_data(rng, r["h"], depth + 1)
    return None


def vcanon(v, depth=0):
    if depth > 12:
        return "deep"
    if dataclasses.is_dataclass(v) and not isinstance(v, type):
        return ["dc", id(type(v)), {f.name: vcanon(getattr(v, f.name), depth + 1) for f in dataclasses.fields(v)}]
    if isinstance(v, enum.Enum):
        return ["enum", id(type(v)), v.name]
    if isinstance(v, dict):
        return [type(v).__name__, sorted(canon([vcanon(k, depth + 1), vcanon(x, depth + 1)]) for k, x in v.items())]
    if isinstance(v, (set, frozenset)):
        return [type(v).__name__, sorted(canon(vcanon(x, depth + 1)) for x in v)]
    if isinstance(v, (list, tuple, collections.deque)):
        return [type(v).__name__, [vcanon(x, depth + 1) for x in v]]
    return [type(v).__name__, repr(v)]


def outcome(fn):
    try:
        v = fn()
    except Exception as e:
        return ["exc", type(e).__name__], None
    return ["ok", vcanon(v)], v


_HIT = object()


def collapsed_model_union(real: Real, tp, getter="get_loader"):
    """Known finding (see known_findings.jsonl): two members of a Union that are spellings of ONE model class are
    merged into one normal form whose `source` is the Union of the spellings; the model provider is selected, but the
    shape is introspected from that raw Union object, so no loader/dumper is produced. True iff `tp` contains such a
    union and the two spellings alone (Union[spelling1, spelling2]) reproduce it."""
    from adaptix import ProviderNotFoundError, Retort
    seen = []

    def walk(t):
        if typing.get_origin(t) in (Union, types.UnionType):
            seen.append(t)
        for a in typing.get_args(t):
            if a is not Ellipsis and not isinstance(a, (str, bytes, int, enum.Enum)) and a is not None:
                walk(a)
        if typing.get_origin(t) is Annotated:
            walk(t.__origin__)
    walk(tp)
    for u in seen:
        members = [m for m in typing.get_args(u)]
        norms = []
        for m in members:
            try:
                norms.append(real.norm(m))
            except Exception:
                norms.append(None)
        for i in range(len(members)):
            for j in range(i + 1, len(members)):
                if norms[i] is None or norms[j] is None or norms[i] != norms[j]:
                    continue
                if not dataclasses.is_dataclass(norms[i].origin):
                    continue
                minimal = Union[members[i], members[j]]
                try:
                    getattr(Retort(), getter)(members[i])
                except Exception:
                    continue
                try:
                    getattr(Retort(), getter)(minimal)
                except ProviderNotFoundError:
                    return True
                except Exception:
                    continue
    return False


def eval_retort_group(ctx: Ctx, real: Real, case, rng):
    from adaptix import Retort, loader
    self_check_group(case)
    chain = case["chain"]
    hints = [build(r) for _k, r in chain]
    edits = [build(r) for _k, r in case["edits"]]
    base_r = chain[0][1]
    data = case.get("data")
    if data is None:
        data = [gen_data(rng, base_r) for _ in range(3)] + rng.sample(JUNK, 3)
        data = [d for d in data if _jsonable(d)]
        case["data"] = data
    ctx.note_case(case, nontrivial=contains(base_r, ("union", "literal")) or _has_bare(base_r), kind="retort")
    loads, values = [], []
    for tp in hints:
        real._cache.cache_clear()
        retort = Retort()
        res = [outcome(lambda d=d: retort.load(d, tp)) for d in data]
        loads.append([o for o, _v in res])
        values.append([v for o, v in res if o[0] == "ok"])
    for i in range(1, len(hints)):
        if loads[i] != loads[i - 1]:
            j = next(k for k in range(len(data)) if loads[i][k] != loads[i - 1][k])
            sig = f"load-equiv:{chain[i][0]}"
            if ["exc", "ProviderNotFoundError"] in (loads[i][j], loads[i - 1][j]) and (
                    collapsed_model_union(real, hints[i]) or collapsed_model_union(real, hints[i - 1])):
                sig = "retort:collapsed-union-of-model"
            ctx.fail(sig, f"equivalent hints load differently ({chain[i][0]}): load({data[j]!r}, "
                     f"{show(hints[i - 1])}) = {loads[i - 1][j]}  vs  load(…, {show(hints[i])}) = {loads[i][j]}", case)
    dumps = []
    for tp in hints:
        real._cache.cache_clear()
        retort = Retort()
        dumps.append([outcome(lambda v=v: retort.dump(v, tp))[0] for v in values[0]])
    for i in range(1, len(hints)):
        if dumps[i] != dumps[i - 1]:
            sig = f"dump-equiv:{chain[i][0]}"
            if any(d == ["exc", "ProviderNotFoundError"] for d in dumps[i] + dumps[i - 1]) and (
                    collapsed_model_union(real, hints[i], "get_dumper") or collapsed_model_union(real, hints[i - 1], "get_dumper")):
                sig = "retort:collapsed-union-of-model"
            ctx.fail(sig, f"equivalent hints dump differently ({chain[i][0]}): {show(hints[i - 1])} "
                     f"{dumps[i - 1]} vs {show(hints[i])} {dumps[i]}", case)
    # predicates: a loader registered for one spelling serves every equivalent spelling, and no different type
    if contains(base_r, ("tv",)):
        return
    pred_i = rng.randrange(len(hints)) if "pred" not in case else case["pred"]
    case["pred"] = pred_i
    pred = hints[pred_i]
    try:
        real._cache.cache_clear()
        retort = Retort(recipe=[loader(pred, lambda d: _HIT)])
    except ValueError:
        ctx.dist["pred:not-a-predicate"] += 1
        return
    for i, tp in enumerate(hints):
        real._cache.cache_clear()
        o, v = outcome(lambda: retort.load(None, tp))
        if v is not _HIT:
            ctx.fail(f"pred-equiv:{chain[max(i, 1)][0]}", f"loader registered for {show(pred)} does not serve the equivalent hint "
                     f"{show(tp)} ({o})", case)
    # a bare generic as predicate matches by origin, whatever the parameters (documented; C10's business)
    base = typing.get_origin(pred) or pred
    origin_based = not typing.get_args(pred) and (
        base in real.table or base in (tuple, type) or bool(getattr(base, "__parameters__", ())))
    if not origin_based:
        pred_sem = canon(sem_key(chain[pred_i][1], False))
        for (kind, er), tp in zip(case["edits"], edits):
            if any(canon(sem_key(get_at(er, p), False)) == pred_sem for p in paths(er)):
                continue    # a *part* of the edited hint is the registered type: the marker may surface through it
            try:
                if _norm_contains(real, real.norm(tp), real.norm(pred)):
                    continue    # ... also a part that only exists in the normal form (merged literal members)
                if any(_norm_contains(real, real.norm(v), real.norm(pred)) for v in _proxied_variants(tp)):
                    continue    # Mapping[K, V] / MutableMapping[K, V] are served by the providers of dict[K, V] (ABCProxy,
                                # documented: "Loader accepts any Mapping and makes dict instances"): delegation, not a collapse
            except Exception:
                continue
            real._cache.cache_clear()
            o, v = outcome(lambda: retort.load(None, tp))
            if v is _HIT:
                ctx.fail(f"pred-collapse:{kind}", f"loader registered for {show(pred)} serves the different type {show(tp)}", case)


def _rebuild(tp, origin, new_args):
    try:
        if origin is typing.Union or str(origin) == "<class 'types.UnionType'>":
            return typing.Union[new_args]
        if origin is typing.Annotated:
            return typing.Annotated[(new_args[0], *tp.__metadata__)]
        return origin[new_args]
    except TypeError:
        return None


def _proxied_variants(tp, depth=0):
    """the hint with ONE abstract mapping (at any position) replaced by the implementation ABCProxy delegates to"""
    import collections.abc
    abstract = (collections.abc.Mapping, collections.abc.MutableMapping)
    origin, args = typing.get_origin(tp), typing.get_args(tp)
    if origin is None:
        if tp in abstract:
            yield dict
        return
    if origin is typing.Literal or depth > 6:
        return
    if origin in abstract:
        yield dict[args] if args else dict
    for i, a in enumerate(args):
        if isinstance(a, (list, type(Ellipsis))):
            continue
        for v in _proxied_variants(a, depth + 1):
            nt = _rebuild(tp, origin, args[:i] + (v,) + args[i + 1:])
            if nt is not None:
                yield nt


def _norm_contains(real: Real, n, part):
    if n == part:
        return True
    if isinstance(n, real.BaseNormType) and not isinstance(n, real.NormTV):
        return any(_norm_contains(real, a, part) for a in n.args if isinstance(a, real.BaseNormType))
    return False


def _jsonable(d):
    try:
        canon(d)
        import json
        json.dumps(d)
        return True
    except (TypeError, ValueError):
        return False


def suite_retort(ctx: Ctx, real: Real, n: int):
    corner = []
    for g in corner_groups():
        rs = [r for _k, r in g["chain"]] + [r for _k, r in g["edits"]]
        if not any(contains(r, ("tv", "type")) or _uses_unloadable(r) for r in rs):
            corner.append(dict(g, suite="retort"))
    cases = corner + [make_group(ctx.rng, ctx.rng.choice([1, 2, 2, 3]), loadable=True) for _ in range(n)]
    for c in cases:
        eval_retort_group(ctx, real, c, ctx.rng)
        ctx.sample({"suite": "retort", "hints": [show(build(r)) for _k, r in c["chain"]][:2], "data": c.get("data")}, every=97)
    ctx.extra["retort_groups"] = len(cases)


def _uses_unloadable(r):
    if r["r"] == "gen" and r["g"] not in LOADABLE_GENERICS:
        return True
    return any(_uses_unloadable(c) for c in children(r))


# ---------------------------------------------------------------------------
# third observation: equivalent spellings that MENTION TYPE VARIABLES
#   * as the annotation of a field of a generic model (dataclass / NamedTuple / TypedDict) requested bare,
#     parametrised and through a non-generic child: GenericResolver substitutes the variables in the field hint
#     through get_type_vars_of_parametrized / is_generic, which read attributes of the hint OBJECT
#     (`__parameters__`, its class, its origin) -- and the object differs between spellings of one type
#     (typing._UnionGenericAlias for Optional/Union, types.UnionType for `X | Y`, typing._GenericAlias for List[T],
#     types.GenericAlias for list[T]);
#   * directly at these shared helpers and at predicate creation (create_loc_stack_checker).
# ---------------------------------------------------------------------------

PLAIN_TVS = ["T", "U", "B"]          # T, U: no bound; B: bound=int
MODEL_KINDS = ["dataclass", "namedtuple", "typeddict"]
ACCESS = ["bare", "param", "child"]


def TV(n):
    return {"r": "tv", "n": n}


def plant_type_vars(rng, r, tvs):
    """`r` with 1-3 of its class/Any/NewType leaves replaced by type variables of `tvs` (None if it has no such leaf)"""
    slots = [p for p in paths(r) if get_at(r, p)["r"] in ("cls", "any", "newtype")]
    if not slots:
        return None
    rng.shuffle(slots)
    for i, p in enumerate(slots[:rng.choice([1, 1, 2, 3])]):
        r = set_at(r, p, TV(tvs[0] if i == 0 else rng.choice(tvs)))
    return r


def gen_tv_recipe(rng, tvs, loadable=True):
    """A hint mentioning type variables; a union at top level most of the time (the property is about unions), members
    drawn from the ordinary generator (builtin generics in both spellings, user generics, classes, literals, None)."""
    for _ in range(50):
        if rng.random() < 0.65:
            n = rng.choice([1, 1, 2, 2, 3])
            ms = [gen_recipe(rng, rng.choice([1, 1, 2]), loadable, in_union=True) for _ in range(n)]
            if rng.random() < 0.2:
                ms.append(gen_literal(rng))
            rng.shuffle(ms)
            style = rng.choice(["Union", "or"])
            if rng.random() < 0.5 or len(ms) == 1:
                ms.append({"r": "none", "sp": rng.random() < 0.3})
                if len(ms) == 2 and rng.random() < 0.4:
                    style = "optional"
            r = {"r": "union", "style": style, "ms": ms}
        else:
            r = gen_recipe(rng, rng.choice([1, 2, 2, 3]), loadable)
        r = plant_type_vars(rng, r, tvs)
        if r is not None:
            return r
    raise InfraError("generator: no hint with type variables produced")


def flip_all_aliases(r):
    u = universe()
    r = with_children(r, [flip_all_aliases(c) for c in children(r)]) if children(r) else dict(r)
    if (r["r"] == "gen" and u.generics[r["g"]][1] is not None) or r["r"] in ("tuple", "type"):
        r["alias"] = not r.get("alias")
    return r


def spelling_chain(rng, base, n_random):
    """base, `n_random` random meaning-preserving rewrites, then a systematic sweep of the spellings of the ROOT: every
    union style the root admits (Union[...] / X | Y / Optional[X]) and the hint with every typing alias <-> builtin
    generic spelling flipped."""
    chain = [["base", base]]
    cur = base
    for _ in range(n_random):
        kind, new = rewrite_somewhere(rng, cur)
        if new is not None:
            chain.append([kind, new])
            cur = new
    if cur["r"] == "union":
        styles = ["Union", "or"]
        if len(cur["ms"]) == 2 and cur["ms"][1]["r"] == "none":
            styles.append("optional")
        elif len(cur["ms"]) == 2 and cur["ms"][0]["r"] == "none":
            chain.append(["optional", dict(cur, ms=[cur["ms"][1], cur["ms"][0]], style="optional")])
            cur = chain[-1][1]
            styles.append("optional")
        for st in styles:
            if st != cur.get("style", "Union"):
                cur = dict(cur, style=st)
                chain.append(["union-style", cur])
    flipped = flip_all_aliases(cur)
    if flipped != cur:
        chain.append(["alias", flipped])
    return chain


def subst_tvs(r, mapping):
    if r["r"] == "tv" and r["n"] in mapping:
        return mapping[r["n"]]
    cs = children(r)
    return with_children(r, [subst_tvs(c, mapping) for c in cs]) if cs else r


def tvs_of_recipe(r):
    out = []
    for p in paths(r):
        n = get_at(r, p)
        if n["r"] == "tv" and n["n"] not in out:
            out.append(n["n"])
    return out


def spelling_class(tp):
    """which Python object represents the hint (the attribute-reading helpers see nothing else)"""
    if isinstance(tp, types.UnionType):
        return "pep604-UnionType"
    if isinstance(tp, types.GenericAlias):
        return "builtin-GenericAlias"
    if typing.get_origin(tp) is Union:
        return "typing-Union"
    if isinstance(tp, typing._GenericAlias):  # type: ignore[attr-defined]
        return "typing-GenericAlias"
    if isinstance(tp, TypeVar):
        return "TypeVar"
    return "other"


def make_generic_field_case(rng):
    tvs = ["T"] + ([rng.choice(["U", "B"])] if rng.random() < 0.35 else [])
    base = gen_tv_recipe(rng, tvs)
    used = [t for t in PLAIN_TVS if t in tvs_of_recipe(base)]
    args = {}
    for t in used:
        if t == "B":
            args[t] = C(rng.choice(["int", "bool"]))
        else:
            a = gen_recipe(rng, rng.choice([0, 0, 1]), loadable=True)
            args[t] = a
    return {"suite": "generic-field", "kind": rng.choice(MODEL_KINDS), "access": rng.choice(ACCESS), "tvs": used,
            "args": args, "extra": rng.random() < 0.3, "chain": spelling_chain(rng, base, rng.randint(0, 3))}


def build_model(kind, name, tvs, field_tp, extra):
    ann = {"f": field_tp}
    if extra:
        ann["k"] = tvs[0]

    def body(ns):
        ns["__annotations__"] = dict(ann)
        ns["__module__"] = __name__
    gen = Generic[tuple(tvs)]
    if kind == "dataclass":
        return dataclass(types.new_class(name, (gen,), {}, body))
    if kind == "namedtuple":
        return types.new_class(name, (typing.NamedTuple, gen), {}, body)
    return types.new_class(name, (typing.TypedDict, gen), {}, body)


def build_request(kind, cls, access, actual):
    if access == "bare":
        return cls, cls
    par = cls[tuple(actual)] if len(actual) != 1 else cls[actual[0]]
    if access == "param":
        return par, cls
    child = types.new_class(cls.__name__ + "Child", (par,), {}, lambda ns: ns.update({"__module__": __name__}))
    if kind == "dataclass":
        child = dataclass(child)
    return child, child


def model_fields(kind, v):
    if kind == "dataclass":
        return {f.name: getattr(v, f.name) for f in dataclasses.fields(v)}
    if kind == "namedtuple":
        return v._asdict()
    return dict(v)


def model_outcome(kind, fn):
    try:
        v = fn()
    except Exception as e:
        return ["exc", type(e).__name__], None
    fields = model_fields(kind, v)
    return ["ok", {k: vcanon(x) for k, x in fields.items()}], fields


def creation_outcome(fn):
    try:
        fn()
    except Exception as e:
        return ["exc", type(e).__name__]
    return ["ok"]


def eval_generic_field(ctx: Ctx, real: Real, case, rng):
    """One field hint in several equivalent spellings, each as the annotation of field `f` of its own generic model of
    one kind; the models are requested the same way. Loader/dumper creation must succeed or fail identically and the
    loaders/dumpers must agree on the data."""
    from adaptix import Retort
    u = universe()
    self_check_group(dict(case, edits=[]))
    kind, access, tvs, chain = case["kind"], case["access"], case["tvs"], case["chain"]
    implicit = {"T": {"r": "any"}, "U": {"r": "any"}, "B": C("int")}
    mapping = {t: (implicit[t] if access == "bare" else case["args"][t]) for t in tvs}
    actual = [build(mapping[t]) for t in tvs]
    tv_objs = [u.tvars[t] for t in tvs]
    concrete_r = subst_tvs(chain[0][1], mapping)
    data = case.get("data")
    if data is None:
        data = []
        for _ in range(3):
            d = {"f": gen_data(rng, concrete_r)}
            if case["extra"]:
                d["k"] = gen_data(rng, mapping[tvs[0]])
            data.append(d)
        data += [{"f": j, "k": j} for j in rng.sample(JUNK, 2)]
        data = [d for d in data if _jsonable(d)]
        case["data"] = data
    hints = [build(r) for _k, r in chain]
    classes = [spelling_class(h) for h in hints]
    in_region = any(c == "pep604-UnionType" and getattr(h, "__parameters__", ()) for c, h in zip(classes, hints))
    ctx.note_case(case, nontrivial=len(set(classes)) > 1, kind=f"generic-field:{kind}:{access}")
    for c in classes:
        ctx.dist[f"generic-field:field-object:{c}"] += 1
    ctx.dist["generic-field:has-pep604-union-with-typevars" if in_region else "generic-field:no-pep604-union-with-typevars"] += 1
    ctx.dist[f"generic-field:spelling-classes-in-group:{len(set(classes))}"] += 1
    rows = []
    for tp in hints:
        real._cache.cache_clear()
        cls = build_model(kind, "GM", tv_objs, tp, case["extra"])
        req, ctor = build_request(kind, cls, access, actual)
        retort = Retort()
        row = {"loader": creation_outcome(lambda: retort.get_loader(req)), "req": req, "ctor": ctor}
        res = [model_outcome(kind, lambda d=d: retort.load(d, req)) for d in data]
        row["loads"] = [o for o, _f in res]
        row["fields"] = [f for o, f in res if o[0] == "ok"]
        rows.append(row)
    ok_fields = rows[0]["fields"]
    for row in rows:
        real._cache.cache_clear()
        retort = Retort()
        req, ctor = row["req"], row["ctor"]
        row["dumper"] = creation_outcome(lambda: retort.get_dumper(req))
        row["dumps"] = [outcome(lambda f=f: retort.dump(ctor(**f), req))[0] for f in ok_fields]
    ctx.dist["generic-field:loader-built" if rows[0]["loader"] == ["ok"] else "generic-field:loader-refused"] += 1
    ctx.dist[f"generic-field:loads-ok:{sum(1 for o in rows[0]['loads'] if o[0] == 'ok')}"] += 1

    def known(i, getter):
        for j in (i, i - 1):
            try:
                if collapsed_model_union(real, build(subst_tvs(chain[j][1], mapping)), getter):
                    return True
            except Exception:
                pass
        return False

    where = f"field f of a generic {kind} requested {access}" + ("" if access == "bare" else f" with {actual!r}")
    for i in range(1, len(rows)):
        a, b, rw = rows[i - 1], rows[i], chain[i][0]
        pair = f"`f: {show(hints[i - 1])}` vs `f: {show(hints[i])}`"
        if a["loader"] != b["loader"]:
            sig = "retort:collapsed-union-of-model" if known(i, "get_loader") else f"gfield-loader:{rw}"
            ctx.fail(sig, f"equivalent field hints ({rw}), {where}: loader creation {a['loader']} vs {b['loader']} for {pair}", case)
        elif a["loads"] != b["loads"]:
            j = next(k for k in range(len(data)) if a["loads"][k] != b["loads"][k])
            sig = "retort:collapsed-union-of-model" if known(i, "get_loader") else f"gfield-load:{rw}"
            ctx.fail(sig, f"equivalent field hints ({rw}), {where}: load({data[j]!r}) = {a['loads'][j]} vs {b['loads'][j]} for {pair}", case)
        if a["dumper"] != b["dumper"]:
            sig = "retort:collapsed-union-of-model" if known(i, "get_dumper") else f"gfield-dumper:{rw}"
            ctx.fail(sig, f"equivalent field hints ({rw}), {where}: dumper creation {a['dumper']} vs {b['dumper']} for {pair}", case)
        elif a["dumps"] != b["dumps"]:
            sig = "retort:collapsed-union-of-model" if known(i, "get_dumper") else f"gfield-dump:{rw}"
            ctx.fail(sig, f"equivalent field hints ({rw}), {where}: dumps {a['dumps']} vs {b['dumps']} for {pair}", case)


def suite_generic_fields(ctx: Ctx, real: Real, n: int):
    for _ in range(n):
        c = make_generic_field_case(ctx.rng)
        eval_generic_field(ctx, real, c, ctx.rng)
        ctx.sample({"suite": "generic-field", "kind": c["kind"], "access": c["access"],
                    "hints": [show(build(r)) for _k, r in c["chain"]][:3], "data": c.get("data")}, every=53, cap=12)
    ctx.extra["generic_field_groups"] = ctx.extra.get("generic_field_groups", 0) + n


# -- the shared helpers themselves ------------------------------------------------------------------------------

def unwrap_annotated(tp):
    while typing.get_origin(tp) is Annotated:
        tp = tp.__origin__
    return tp


def param_state(tp):
    """`bare` (could still be subscribed: list, List, a user generic class), `type` (the class `type` / typing.Type, which
    is_generic tells apart on purpose) or `subscribed/plain`. is_generic / is_bare_generic answer a question about this
    state, so they are only compared between spellings in the same state."""
    core = unwrap_annotated(tp)
    if core is type or core is typing.Type:
        return "type"
    if typing.get_args(core):
        return "subscribed"
    return "unsubscribed"


class Helpers:
    def __init__(self):
        from adaptix._internal.provider.loc_stack_filtering import create_loc_stack_checker
        from adaptix._internal.type_tools import get_type_vars, is_bare_generic, is_generic, is_parametrized
        from adaptix._internal.type_tools.basic_utils import get_type_vars_of_parametrized
        self.get_type_vars, self.tvp = get_type_vars, get_type_vars_of_parametrized
        self.is_generic, self.is_bare_generic, self.is_parametrized = is_generic, is_bare_generic, is_parametrized
        self.create_checker = create_loc_stack_checker

    def facts(self, tp):
        def names(vs):
            return [v.__name__ for v in vs]
        out = {}
        for name, fn in (("type_vars", lambda: names(self.get_type_vars(tp))), ("tvp", lambda: names(self.tvp(tp))),
                         ("generic", lambda: bool(self.is_generic(tp))), ("bare", lambda: bool(self.is_bare_generic(tp))),
                         ("parametrized", lambda: bool(self.is_parametrized(tp)))):
            try:
                out[name] = fn()
            except Exception as e:
                out[name] = {"raises": type(e).__name__}
        return out

    def predicate(self, tp):
        try:
            self.create_checker(tp)
        except Exception as e:
            return "refused:" + type(e).__name__
        return "accepted"


def eval_helper_group(ctx: Ctx, real: Real, helpers: Helpers, case, requests=None, metas=None):
    """What generic resolution and predicate creation ask about a hint must not depend on how the hint is spelled:
    the set of type variables to substitute (get_type_vars_of_parametrized, or the hint itself being a TypeVar), and --
    between spellings in the same subscription state -- is_generic / is_bare_generic and whether the hint is accepted as
    a predicate."""
    self_check_group(dict(case, edits=[]))
    chain = case["chain"]
    hints = [build(r) for _k, r in chain]
    classes = [spelling_class(h) for h in hints]
    ctx.note_case(case, nontrivial=len(set(classes)) > 1, kind="generic-helpers")
    for c in classes:
        ctx.dist[f"generic-helpers:object:{c}"] += 1
    if any(c == "pep604-UnionType" and getattr(h, "__parameters__", ()) for c, h in zip(classes, hints)):
        ctx.dist["generic-helpers:has-pep604-union-with-typevars"] += 1
    facts, states, preds, effective = [], [], [], []
    for h in hints:
        real._cache.cache_clear()
        f = helpers.facts(h)
        facts.append(f)
        states.append(param_state(h))
        preds.append(helpers.predicate(h))
        tvp = f["tvp"] if isinstance(f["tvp"], list) else f["tvp"]
        effective.append(sorted(set(tvp) | ({h.__name__} if isinstance(h, TypeVar) else set())) if isinstance(tvp, list) else tvp)
    for i in range(1, len(hints)):
        rw = chain[i][0]
        pair = f"{show(hints[i - 1])} vs {show(hints[i])}"
        if effective[i] != effective[i - 1]:
            ctx.fail(f"helpers-typevars:{rw}", f"equivalent hints ({rw}) report different type variables to substitute "
                     f"(get_type_vars_of_parametrized): {effective[i - 1]} vs {effective[i]} for {pair}", case)
        if states[i] != states[i - 1] or states[i] == "type":
            ctx.dist["generic-helpers:state-differs-or-type"] += 1
            continue
        for key in ("generic", "bare"):
            if facts[i][key] != facts[i - 1][key]:
                ctx.fail(f"helpers-is-{key}:{rw}", f"equivalent hints ({rw}) in the same subscription state: is_"
                         f"{'generic' if key == 'generic' else 'bare_generic'} = {facts[i - 1][key]} vs {facts[i][key]} for {pair}", case)
        if preds[i] != preds[i - 1]:
            ctx.fail(f"helpers-predicate:{rw}", f"equivalent hints ({rw}) as predicates: {preds[i - 1]} vs {preds[i]} for {pair}", case)
    if requests is not None:
        for h, f in zip(hints, facts):
            requests.append({"op": "generic_info", "genv": real.genv(), "hint": describe(h, real.table)})
            metas.append({"case": case, "hint": show(h), "real": f, "ids": {v.__name__: id(v) for v in universe().tvars.values()}})


def make_helper_case(rng):
    if rng.random() < 0.3:      # any hint of the grammar (bare generics, tuple/type forms, hints without variables)
        base = gen_recipe(rng, rng.choice([0, 1, 2, 3]))
    else:
        tvs = rng.sample(list(universe().tvars), rng.choice([1, 1, 2]))
        base = gen_tv_recipe(rng, tvs, loadable=rng.random() < 0.5)
    return {"suite": "generic-helpers", "chain": spelling_chain(rng, base, rng.randint(0, 4))}


def suite_generic_helpers(ctx: Ctx, real: Real, drv, n: int):
    helpers = Helpers()
    requests, metas = ([], []) if drv else (None, None)
    for _ in range(n):
        eval_helper_group(ctx, real, helpers, make_helper_case(ctx.rng), requests, metas)
    if drv:
        n_ = d_ = 0
        name_of = {id(v): k for k, v in universe().tvars.items()}
        for m, rep in zip(metas, drv.batch(requests)):
            n_ += 1
            got = rep.get("ok")
            if isinstance(got, dict):
                ctx.dist["generic-info:model-object:" + str(got.pop("cls", "?")).split(".")[-1]] += 1
                got = dict(got, type_vars=[name_of.get(i, i) for i in got.get("type_vars", [])],
                           tvp=[name_of.get(i, i) for i in got.get("tvp", [])])
            if got != m["real"]:
                d_ += 1
                ctx.disagree("generic-info", {"case": m["case"], "hint": m["hint"]}, m["real"], rep)
        ctx.suite("generic-info", n_, d_)


# ---------------------------------------------------------------------------
# entry points
# ---------------------------------------------------------------------------

def permuted_args_probe(ctx: Ctx, real: "Real"):
    """union members of ONE origin whose arguments are permutations of each other (tuple[int, float] | tuple[float, int],
    dict[str, int] | dict[int, str], nested, in typing and builtin spellings): the member order must not survive"""
    import itertools
    A = [int, float, str, bytes]
    members = []
    for x, y in itertools.permutations(A, 2):
        members.append((tuple[x, y], typing.Tuple[x, y], tuple[y, x], typing.Tuple[y, x]))
        members.append((dict[x, y], typing.Dict[x, y], dict[y, x], typing.Dict[y, x]))
        members.append((list[dict[x, y]], typing.List[typing.Dict[x, y]], list[dict[y, x]], typing.List[typing.Dict[y, x]]))
    for a1, a2, b1, b2 in members:
        for extra in ((), (type(None),), (int,)):
            u1 = typing.Union[(a1, b1) + extra]
            u2 = typing.Union[extra + (b2, a2)]
            real._cache.cache_clear()
            n1 = real.norm(u1)
            real._cache.cache_clear()
            n2 = real.norm(u2)
            case = {"probe": "permuted-args", "u1": repr(u1), "u2": repr(u2)}
            ctx.note_case(case, nontrivial=True, kind="probe:permuted-args")
            if n1 != n2:
                ctx.fail("equiv:reorder", f"equivalent unions normalise differently: {u1!r} vs {u2!r}", case)
            elif hash(n1) != hash(n2):
                ctx.fail("hash:reorder", f"equal normal forms with different hashes: {u1!r} vs {u2!r}", case)


def type_alias_probes(ctx: Ctx):
    """PEP 695 aliases: different parametrisations of one alias are different types (never collapsed: distinct normal forms, all
    members of a union kept, a predicate for one does not match the other); equal parametrisations in different spellings agree in
    normal form and hash"""
    import dataclasses
    from typing import Optional, Union

    from adaptix import Retort, loader
    from adaptix._internal.type_tools import normalize_type
    ns: dict = {}
    exec("type Items[T] = list[T]\ntype Pair[K, V] = dict[K, V]\ntype Plain = list[int]\n", ns)  # noqa: S102
    Items, Pair, Plain = ns["Items"], ns["Pair"], ns["Plain"]
    different = [(Items[int], Items[str]), (Items[int], Items[bool]), (Pair[str, int], Pair[int, str]), (Items[Items[int]], Items[Items[str]]),
                 (Items[int], Plain), (Items[Optional[int]], Items[int])]
    same = [(Items[Union[int, str]], Items[Union[str, int]]), (Items[Optional[int]], Items[Union[None, int]]), (Items[int], Items[int])]
    for a, b in different:
        case = {"suite": "type-alias", "a": repr(a), "b": repr(b)}
        ctx.note_case(case, nontrivial=True, kind="type-alias:different")
        na, nb = normalize_type(a), normalize_type(b)
        if na == nb:
            ctx.fail("alias-collapse:normal-form", f"different types {a!r} and {b!r} have equal normal forms", case)
            continue
        nu = normalize_type(Union[a, b, None])
        if len(nu.args) != 3:
            ctx.fail("alias-collapse:union-members", f"Union[{a!r}, {b!r}, None] normalises to {len(nu.args)} members", case)
            continue
        M = dataclasses.make_dataclass("AM", [("x", a), ("y", b)])
        try:
            r = Retort(recipe=[loader(a, lambda d: "MARK")])
            got = r.load({"x": [], "y": [] if "dict" not in repr(b) and "Pair" not in repr(b) else {}}, M) \
                if "Pair" not in repr(a) else r.load({"x": {}, "y": {}}, M)
        except Exception as e:  # noqa: BLE001
            ctx.dist[f"type-alias:probe-raises:{type(e).__name__}"] += 1
            continue
        if got.y == "MARK" or got.x != "MARK":
            ctx.fail("alias-collapse:predicate", f"loader({a!r}, f) in a model with fields x: {a!r}, y: {b!r} gives {got!r}", case)
    for a, b in same:
        case = {"suite": "type-alias", "a": repr(a), "b": repr(b)}
        ctx.note_case(case, nontrivial=True, kind="type-alias:same")
        na, nb = normalize_type(a), normalize_type(b)
        if na != nb or hash(na) != hash(nb):
            ctx.fail("alias-split:normal-form", f"spellings {a!r} and {b!r} of one type differ in normal form or hash", case)


def run(ctx: Ctx):
    real = Real()
    type_alias_probes(ctx)
    permuted_args_probe(ctx, real)
    drv = None
    if ctx.driver_ok:
        try:
            drv = Driver("drv_c15")
        except InfraError:
            drv = None
    suite_keys(ctx, real, drv)
    suite_groups(ctx, real, drv, n_random=ctx.budget(3000, 60000))
    suite_malformed(ctx, real, drv, n=ctx.budget(200, 3000))
    suite_retort(ctx, real, n=ctx.budget(350, 5000))
    # new suites last: the random stream of the suites above is unchanged
    suite_generic_helpers(ctx, real, drv, n=ctx.budget(600, 8000))
    suite_generic_fields(ctx, real, n=ctx.budget(260, 3000))
    ctx.extra["exhaustive"] = False
    sigs: dict = {}
    for f in ctx.failures:
        sigs[f["signature"]] = sigs.get(f["signature"], 0) + 1
    ctx.extra["oracle_failure_signatures"] = sigs


def search(ctx: Ctx):
    permuted_args_probe(ctx, Real())
    """Directed search after a broken tie: the disagreeing cases first, then a larger random budget (oracle only)."""
    real = Real()
    for d in ctx.disagreements[:300]:
        c = d["case"].get("case", d["case"]) if isinstance(d["case"], dict) else None
        if isinstance(c, dict) and c.get("suite") == "group":
            eval_group(ctx, real, c)
            if ctx.failures:
                return
    if not ctx.failures:
        for _ in range(6000):
            eval_group(ctx, real, make_group(ctx.rng, ctx.rng.choice([2, 3, 4])))
            if ctx.failures:
                return
    if not ctx.failures:
        suite_retort(ctx, real, n=300)
    if not ctx.failures:
        helpers = Helpers()
        for d in ctx.disagreements[:300]:
            c = d["case"].get("case") if isinstance(d["case"], dict) else None
            if isinstance(c, dict) and c.get("suite") == "generic-helpers":
                eval_helper_group(ctx, real, helpers, c)
        if not ctx.failures:
            suite_generic_helpers(ctx, real, None, n=2000)
    if not ctx.failures:
        suite_generic_fields(ctx, real, n=600)


def replay(ctx: Ctx, case) -> bool:
    import random
    real = Real()
    before = len(ctx.failures)
    if case.get("suite") == "group":
        eval_group(ctx, real, case)
    elif case.get("suite") == "retort":
        eval_retort_group(ctx, real, case, random.Random(0))
    elif case.get("suite") == "generic-field":
        eval_generic_field(ctx, real, case, random.Random(0))
    elif case.get("suite") == "generic-helpers":
        eval_helper_group(ctx, real, Helpers(), case)
    else:
        return False
    return len(ctx.failures) > before
