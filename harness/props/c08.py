"""C08 — models are built by their own constructor; omitted fields get the true default.

Lean side: AdaptixModel/Layout/{CallPlan,Default*}.lean (model), AdaptixModel/Generated/C08Literal.lean
(regenerated on every check from code_tools/utils.py by extract/c08_literal.py),
AdaptixProofs/Props/C08.lean (theorems).

Tie:
  * translator  : get_literal_expr & friends -> mini-Python term, `literalExpr` is its interpreter
  * literal-expr: real get_literal_expr(obj)          vs op `literal_expr`  (text, piece by piece)
  * literal-eval: Python eval of the real text        vs `PyExpr.eval` of the model's expression
  * factory-literal: real get_literal_from_factory(f) vs op `literal_from_factory`
  * default-clause: clause emitted by _get_default_clause_expr (read off the generated source) vs op `default_clause`
  * call-plan   : (args, kwargs) an instrumented constructor receives through Retort.load on a custom
                  InputShape, every kind layout x subset of optionals                    vs op `call_plan`
  * py-binding  : CPython's binding of that call to a function with the shape's signature vs `bindArgs`
  * kind-shapes : call received by the real constructor of dataclass / class / NamedTuple / attrs /
                  pydantic models (shape taken from adaptix's own introspection)          vs op `call_plan`
  * load-structure: outcome class + constructor call count under failing fields, 3 trail modes vs op `load_model`
Direct oracle (real code only, independent of Lean): eval of a rendered literal is type-exactly the
default; every parameter receives its own field's value or is left to the constructor; the constructor
is called exactly once per successful load and never on a failed one; __post_init__ ran; an omitted
field holds a value type-exactly equal to what the model itself produces; two loads share no mutable default.
"""

import builtins
import enum
import inspect
import itertools
import math
import re
from decimal import Decimal
from fractions import Fraction

from extract.c08_literal import canonical_builtin_name, extract_c08_literal
from harness.core import Ctx, Driver, InfraError

ID = "C08"
CLAIM = {
    "technique": "Lean 4 proof over a translated (get_literal_expr) + hand-written (constructor call, Python call "
                 "binding) model; translator + model/code correspondence",
    "text": (
        "Proved in Lean: (1) for every input shape accepted by InputShape._validate (any number of parameters, any "
        "POS_ONLY/POS_OR_KW/KW_ONLY layout), every skipped set accepted by _validate_params, every subset of optional "
        "fields present and all values, the argument list emitted by the model of _gen_constructor_call is bound by "
        "the model of Python's call binding without TypeError and every parameter receives exactly its own field's "
        "loaded value / default clause, or nothing when skipped or packed-and-absent (plan_binds_own_fields); the "
        "constructor is invoked once on success and never when a field fails (constructor_once, failed_field_no_call). "
        "(2) get_literal_expr and get_literal_from_factory are TRANSLATED from code_tools/utils.py on every check into "
        "a mini-Python term and `literalExpr` is the interpreter of that term; for every value of the grammar (any "
        "nesting), any fuel and any sorted() returning a permutation, a returned text renders an expression whose "
        "value is equal to and of exactly the same type as the default, recursively (default_true); objects outside "
        "the literal grammar (Decimal, Fraction, complex, enum members ...) are never inlined whatever they compare "
        "equal to (opaque_never_inlined) and are passed by reference (literal_none_falls_back); factory literals "
        "equal the factory's result (factory_literal_true); non-captured defaults are fresh per load and a captured "
        "factory is called once per load (factory_fresh, factory_called_once_per_load)."
    ),
    "note": (
        "Trusted: Lean 4.33 kernel (axioms audited). The call-plan model and Python's binding algorithm are "
        "hand-written and tied by correspondence (exhaustive over kind layouts of <= 4 parameters plus sampled 3-6, "
        "CPython's own binding of the same call, and the six real model kinds via adaptix's introspection). For "
        "defaults the translator's reading of the AST is trusted, Python's repr of int/str/bytes/bytearray/finite "
        "float and Python's parser are not modelled (texts are symbolic; the harness substitutes the real repr and "
        "evals the real text on every case). Side effects inside the user's constructor are the user's. "
        "Green only with fixes/C08-skipped-param-keywords.patch applied to /repo (DESIGN section 5 item 3)."
    ),
    "design_ref": "DESIGN.md §4 C08",
}
PROPS_FILE = "AdaptixProofs/Props/C08.lean"
LEAN_TARGETS = ["AdaptixProofs.Props.C08", "drv_c08"]
EXTRACT = [extract_c08_literal]
RULE = (
    "defaults: a zoo of ~120 fixed values (0/1/True/False/None, Decimal/Fraction/complex/IntEnum/IntFlag look-alikes, "
    "nan/inf/-0.0, (1,), nested containers, slices, ranges, bytes, bytearray, sets, builtins) plus random nested values "
    "of depth <= 4; call plans: every kind layout of <= 4 parameters (quick; <= 5 thorough) x required/default/packed "
    "x skipped/absent/present per optional parameter, plus random layouts of 4-6 parameters; a case is non-trivial when "
    "a literal is rendered for a container or look-alike, or when at least one optional parameter is left out of the call"
)
ASSUMPTIONS = [
    "parameters of a shape bind pairwise different fields (true of every introspector; `_field_id_to_param` keeps the "
    "last parameter otherwise)",
    "extra keyword items (ExtraKwargs) do not collide with parameter names (that collision is an extra-data routing "
    "matter of C03/C04: Python raises TypeError 'multiple values')",
    "a set/dict value holds pairwise unequal keys; Python's sorted() returns a permutation of its argument",
    "eval(repr(x)) is x for exact int/str/bytes/bytearray/finite float; generated modules do not shadow builtins",
    "factory objects and defaults do not override __eq__/__hash__ to impersonate a builtin class or constant other than "
    "through numeric equality (modelled: Decimal/Fraction/complex/IntEnum == 0/1 ...); int defaults have < 4300 digits",
]
TRUSTED = [
    "extract/c08_literal.py: syntax-directed AST -> mini-Python translation of code_tools/utils.py (refuses anything "
    "outside its subset); table contents read after import",
    "CPython's call binding as modelled by bindArgs (validated on every call-plan case against a real function with "
    "the same signature)",
    "Python's parser/evaluator on the rendered literal as modelled by PyExpr.render/eval (validated on every rendered "
    "case by eval of the real text)",
]


# ---------------------------------------------------------------------------
# value universe <-> JSON
# ---------------------------------------------------------------------------

class Color(enum.IntEnum):
    ZERO = 0
    ONE = 1
    TWO = 2


class Perm(enum.IntFlag):
    NONE = 0
    R = 1
    W = 2


class Plain(enum.Enum):
    A = 1
    B = "b"


class MyInt(int):
    pass


class MyStr(str):
    pass


class MyList(list):
    pass


class MyTuple(tuple):
    pass


class MyFloat(float):
    pass


class Unhashable:
    __hash__ = None


class Opaque:
    def __init__(self, tag):
        self.tag = tag

    def __repr__(self):
        return f"Opaque({self.tag!r})"


def _user_function():
    return 1


_BUILTIN_IDS = {}
for _n in dir(builtins):
    if _n.isidentifier() and not _n.startswith("_"):
        _BUILTIN_IDS.setdefault(id(getattr(builtins, _n)), getattr(builtins, _n))


class Registry:
    """identity -> small id for objects outside the literal grammar"""

    def __init__(self):
        self.objs = []

    def ident(self, obj) -> int:
        for i, o in enumerate(self.objs):
            if o is obj:
                return i
        self.objs.append(obj)
        return len(self.objs) - 1


def _eq_int(obj):
    """the integer an object compares and hashes equal to, if any (what a dict lookup with int/bool keys sees)"""
    cands = []
    try:
        k = int(obj)
        cands.append(k)
    except Exception:  # noqa: BLE001
        pass
    cands += [0, 1, -1, 2]
    for k in cands:
        try:
            if obj == k and hash(obj) == hash(k):
                return k
        except Exception:  # noqa: BLE001
            continue
    return None


def _hashable(obj) -> bool:
    try:
        hash(obj)
    except TypeError:
        return False
    return True


def sorted_or_iter(s):
    """the oracle for Python's sorted() on the elements of a set (not adaptix code)"""
    try:
        return sorted(s)
    except Exception:  # noqa: BLE001  (TypeError for unorderable elements, decimal.InvalidOperation for Decimal vs nan …)
        return list(s)


def enc(obj, reg: Registry):
    t = type(obj)
    if obj is None:
        return {"t": "none"}
    if t is bool:
        return {"t": "bool", "v": obj}
    if t is int:
        return {"t": "int", "v": obj}
    if t is float:
        if math.isnan(obj):
            return {"t": "float", "k": "nan"}
        if math.isinf(obj):
            return {"t": "float", "k": "inf" if obj > 0 else "-inf"}
        return {"t": "float", "k": "fin", "hex": obj.hex()}
    if t is str:
        return {"t": "str", "v": obj}
    if t is bytes:
        return {"t": "bytes", "v": list(obj)}
    if t is bytearray:
        return {"t": "bytearray", "v": list(obj)}
    if t is list:
        return {"t": "list", "xs": [enc(x, reg) for x in obj]}
    if t is tuple:
        return {"t": "tuple", "xs": [enc(x, reg) for x in obj]}
    if t is set:
        return {"t": "set", "xs": [enc(x, reg) for x in sorted_or_iter(obj)]}
    if t is frozenset:
        return {"t": "frozenset", "xs": [enc(x, reg) for x in sorted_or_iter(obj)]}
    if t is dict:
        return {"t": "dict", "kvs": [[enc(k, reg), enc(v, reg)] for k, v in obj.items()]}
    if t is slice:
        return {"t": "slice", "a": enc(obj.start, reg), "b": enc(obj.stop, reg), "c": enc(obj.step, reg)}
    if t is range:
        return {"t": "range", "a": obj.start, "b": obj.stop, "c": obj.step}
    if id(obj) in _BUILTIN_IDS and _BUILTIN_IDS[id(obj)] is obj:
        return {"t": "builtin", "n": canonical_builtin_name(obj)}
    if isinstance(obj, type):
        return {"t": "cls", "n": obj.__name__}
    return {"t": "opaque", "cls": t.__name__, "id": reg.ident(obj), "eq": _eq_int(obj), "h": _hashable(obj)}


def dec_atom(j):
    t = j["t"]
    if t == "int":
        return j["v"]
    if t == "str":
        return j["v"]
    if t == "bytes":
        return bytes(j["v"])
    if t == "bytearray":
        return bytearray(j["v"])
    if t == "float":
        return {"nan": math.nan, "inf": math.inf, "-inf": -math.inf}.get(j["k"]) if j["k"] != "fin" \
            else float.fromhex(j["hex"])
    raise InfraError(f"repr placeholder of a non-atom: {j}")


def pieces_to_text(pieces) -> str:
    out = []
    for p in pieces:
        if "s" in p:
            out.append(p["s"])
        elif "repr" in p:
            out.append(repr(dec_atom(p["repr"])))
        else:
            out.append("<junk>")
    return "".join(out)


def canon_val(j):
    """order-insensitive canonical form of an encoded value (sets as sorted lists of canonical strings)"""
    import json
    t = j["t"]
    if t in ("set", "frozenset"):
        return {"t": t, "xs": sorted(json.dumps(canon_val(x), sort_keys=True) for x in j["xs"])}
    if t in ("list", "tuple"):
        return {"t": t, "xs": [canon_val(x) for x in j["xs"]]}
    if t == "dict":
        return {"t": t, "kvs": [[canon_val(k), canon_val(v)] for k, v in j["kvs"]]}
    if t == "slice":
        return {"t": t, "a": canon_val(j["a"]), "b": canon_val(j["b"]), "c": canon_val(j["c"])}
    return j


def py_same(a, b) -> bool:
    """equal AND of exactly the same type, recursively (the property's notion, computed in Python)"""
    if type(a) is not type(b):
        return False
    t = type(a)
    if t is float:
        if math.isnan(a) or math.isnan(b):
            return a is b
        return a == b and math.copysign(1.0, a) == math.copysign(1.0, b)
    if t in (list, tuple):
        return len(a) == len(b) and all(py_same(x, y) for x, y in zip(a, b))
    if t in (set, frozenset):
        if len(a) != len(b):
            return False
        rest = list(b)
        for x in a:
            for i, y in enumerate(rest):
                if py_same(x, y):
                    del rest[i]
                    break
            else:
                return False
        return True
    if t is dict:
        return len(a) == len(b) and all(py_same(k1, k2) and py_same(v1, v2)
                                        for (k1, v1), (k2, v2) in zip(a.items(), b.items()))
    if t is slice:
        return py_same(a.start, b.start) and py_same(a.stop, b.stop) and py_same(a.step, b.step)
    if t is range:
        return (a.start, a.stop, a.step) == (b.start, b.stop, b.step)
    if t in (int, str, bytes, bytearray, bool, type(None)):
        return a == b
    if a is b:
        return True
    try:
        if bool(a == b):
            return True
    except Exception:  # noqa: BLE001
        return False
    # identity-compared objects of the same exact type and state (a model kind may hand out a copy of its default)
    return t.__eq__ is object.__eq__ and getattr(a, "__dict__", None) == getattr(b, "__dict__", None) \
        and not isinstance(a, type) and not callable(a)


def value_kind(obj) -> str:
    t = type(obj)
    if t in (list, tuple, set, frozenset, dict, slice, range):
        return f"container-{t.__name__}"
    if t in (int, str, bytes, bytearray, float, bool, type(None)):
        return f"atom-{t.__name__}"
    if id(obj) in _BUILTIN_IDS:
        return "builtin-object"
    return "opaque-lookalike" if _eq_int(obj) is not None else "opaque"


NAN = math.nan


def fixed_zoo():
    """the default-value zoo of DESIGN §4/C08"""
    z = [
        0, 1, -1, 2, 10 ** 30, -(10 ** 25), True, False, None, Ellipsis, NotImplemented,
        0.0, -0.0, 1.0, 1.5, -2.25, 1e300, 5e-324, NAN, math.inf, -math.inf,
        "", "a", "it's", 'q"q', "\\n\n\t", "üñí", "\x00\x7f", "a" * 50,
        b"", b"ab", b"\x00\xff'\"", bytearray(), bytearray(b"xy\x00"),
        Decimal("1"), Decimal("0"), Decimal("1.0"), Decimal("2"), Decimal("NaN"), Fraction(0), Fraction(1), Fraction(1, 2),
        1 + 0j, 0j, 2j, Color.ZERO, Color.ONE, Color.TWO, Perm.NONE, Perm.R, Perm.R | Perm.W, Plain.A, Plain.B,
        MyInt(0), MyInt(1), MyInt(7), MyStr("s"), MyFloat(1.0), MyFloat(0.0), MyList([1]), MyTuple((1,)),
        Unhashable(), Opaque("x"), _user_function, Color, Decimal, type(None), object(),
        print, len, list, dict, int, str, type, object, sorted, repr, ValueError, OSError, IOError, EnvironmentError,
        isinstance, range, slice, set, frozenset, bool, float, bytes, bytearray, tuple, Exception, map, filter,
        [], [1], [1, 2], [True, 1, 1.0], [None, [0, [False]]], [NAN], [Decimal("1")], [[Color.ONE]],
        (), (1,), (True,), (None,), ((1,),), (1, 2), (1, (2, (3,))), (NAN,), (Decimal("1"),), (Color.ONE, 1), ([],), ((), ()),
        {Decimal("1"), NAN}, frozenset({Decimal("2"), NAN, 1}), [{Decimal("0"), NAN}],   # sorted() raises InvalidOperation
        set(), {1}, {1, 2, 3}, {"b", "a"}, {1, "a"}, {(1,), (2, 3)}, {frozenset({1})}, {NAN}, {Decimal("1")}, {True}, {0.0},
        frozenset(), frozenset({1}), frozenset({2, 1}), frozenset({"x", 1}), frozenset({Color.ONE}), frozenset({frozenset()}),
        {}, {"a": 1}, {1: "a", 2: [1]}, {True: False}, {(1,): {2: (3,)}}, {"k": Decimal("1")}, {Color.ONE: 1}, {"n": NAN},
        {None: None, 0: 0.0, "": b""},
        slice(None), slice(1), slice(1, 2), slice(1, 2, 3), slice(None, None, -1), slice((1,), [2], {3}), slice(True, 1.0, None),
        slice(Decimal("1"), None), slice("a", b"b"),
        range(0), range(3), range(1, 5), range(5, 1, -2), range(0, 10, 3), range(-3, 3),
        [(1,), {"a": (True,)}, {2, 1}, frozenset({(0,)}), slice(0, (1,)), range(2)],
        {"deep": [{"er": ({"est": [1, (2,), {3}]},)}]},
    ]
    return z


def rand_value(rng, depth: int):
    r = rng.random()
    if depth <= 0 or r < 0.35:
        c = rng.randrange(16)
        if c == 0:
            return rng.choice([0, 1, -1, 2, 255, 10 ** 20, -(10 ** 15)])
        if c == 1:
            return rng.choice([True, False, None])
        if c == 2:
            return rng.choice([0.0, -0.0, 1.0, 0.1, -7.5, 1e100, NAN, math.inf, -math.inf])
        if c == 3:
            return "".join(rng.choice("ab'\"\\\n é") for _ in range(rng.randrange(4)))
        if c == 4:
            return bytes(rng.randrange(256) for _ in range(rng.randrange(4)))
        if c == 5:
            return bytearray(rng.randrange(256) for _ in range(rng.randrange(3)))
        if c == 6:
            return rng.choice([Decimal("1"), Decimal("0"), Fraction(1), Fraction(0), 1 + 0j, 0j, Color.ONE, Color.ZERO,
                               Perm.R, Perm.NONE, MyInt(1), MyInt(0), MyFloat(1.0)])
        if c == 7:
            return rng.choice([print, len, list, int, Ellipsis, NotImplemented, OSError, dict, set])
        if c == 8:
            return rng.choice([Plain.A, Opaque("r"), _user_function, Decimal("2.5"), Fraction(1, 3), Color])
        if c == 9:
            return range(rng.randrange(-3, 4), rng.randrange(-3, 8), rng.choice([1, 2, -1, 3]))
        return rng.randrange(-5, 50)
    k = rng.randrange(7)
    n = rng.choice([0, 1, 1, 2, 3])
    if k == 0:
        return [rand_value(rng, depth - 1) for _ in range(n)]
    if k == 1:
        return tuple(rand_value(rng, depth - 1) for _ in range(n))
    if k in (2, 3):
        out = set()
        for _ in range(n):
            v = rand_value(rng, depth - 1)
            if _hashable(v) and not any(v == o for o in out):
                out.add(v)
        return out if k == 2 else frozenset(out)
    if k == 4:
        d = {}
        for _ in range(n):
            key = rand_value(rng, depth - 1)
            if _hashable(key) and not any(key == o for o in d):
                d[key] = rand_value(rng, depth - 1)
        return d
    if k == 5:
        return slice(rand_value(rng, depth - 1), rand_value(rng, depth - 1), rand_value(rng, 0))
    return [rand_value(rng, depth - 1), (rand_value(rng, depth - 1),)]


# ---------------------------------------------------------------------------
# suite: literal-expr / literal-eval
# ---------------------------------------------------------------------------

def real_literal(fn, obj):
    try:
        r = fn(obj)
    except Exception as e:  # noqa: BLE001
        return {"r": "raised", "cls": type(e).__name__}
    if r is None:
        return {"r": "none"}
    if type(r) is not str:
        return {"r": "other", "repr": repr(r)}
    return {"r": "text", "text": r}


def model_literal(rep):
    if "ok" not in rep:
        return {"r": "driver-error", "msg": rep.get("err")}
    m = rep["ok"]
    if m["r"] == "text":
        return {"r": "text", "text": pieces_to_text(m["pieces"])}
    if m["r"] == "none":
        return {"r": "none"}
    if m["r"] == "raised":
        return {"r": "raised", "cls": m["cls"]}
    return {"r": "stuck", "msg": m.get("msg")}


def oracle_literal(ctx: Ctx, obj, real, case, where="get_literal_expr"):
    """direct oracle: the rendered text evaluates to something type-exactly equal to the object"""
    if real["r"] == "raised":
        ctx.fail(f"default:{where}-raises", f"{where}({obj!r}) raised {real['cls']}", case)
        return None
    if real["r"] != "text":
        return None
    try:
        back = eval(real["text"], {})  # noqa: S307
    except Exception as e:  # noqa: BLE001
        ctx.fail("default:literal-does-not-evaluate", f"{where}({obj!r}) = {real['text']!r} does not evaluate: "
                 f"{type(e).__name__}", case)
        return None
    if not py_same(back, obj):
        try:
            eq = bool(back == obj)
        except Exception:  # noqa: BLE001
            eq = False
        sig = "default:look-alike-literal" if eq or type(back) is not type(obj) else "default:literal-other-value"
        ctx.fail(sig, f"{where}({obj!r}) = {real['text']!r} evaluates to {back!r} of type {type(back).__name__}, "
                 f"not the default of type {type(obj).__name__}", case)
    return back


def suite_literals(ctx: Ctx, drv, values, suite_tag="zoo"):
    from adaptix._internal.code_tools.utils import get_literal_expr
    reg = Registry()
    encs = [enc(v, reg) for v in values]
    replies = drv.batch([{"op": "literal_expr", "v": e} for e in encs]) if drv else [None] * len(values)
    n = d = n2 = d2 = 0
    for obj, e, rep in zip(values, encs, replies):
        case = {"suite": "literal-expr", "v": e, "py": repr(obj)[:200]}
        real = real_literal(get_literal_expr, obj)
        back = oracle_literal(ctx, obj, real, case)
        nontrivial = real["r"] == "text" and value_kind(obj).startswith(("container", "builtin")) \
            or value_kind(obj) == "opaque-lookalike"
        ctx.note_case(case, nontrivial=nontrivial, kind=f"literal-{value_kind(obj)}-{real['r']}")
        ctx.sample({"suite": "literal-expr", "py": repr(obj)[:120], "real": real}, every=37)
        if rep is None:
            continue
        model = model_literal(rep)
        n += 1
        if model != real:
            d += 1
            ctx.disagree("literal-expr", case, real, model)
            continue
        if real["r"] == "text":
            m = rep["ok"]
            n2 += 1
            spec_text = pieces_to_text(m["spec_text"]) if m.get("spec_text") is not None else None
            real_eval = canon_val(enc(back, reg)) if back is not None or real["text"] == "None" else None
            model_eval = canon_val(m["spec_eval"]) if m.get("spec_eval") is not None else None
            if spec_text != real["text"] or real_eval != model_eval:
                d2 += 1
                ctx.disagree("literal-eval", case, {"text": real["text"], "eval": real_eval},
                             {"text": spec_text, "eval": model_eval})
    if drv:
        ctx.suite("literal-expr", n, d)
        ctx.suite("literal-eval", n2, d2)


# ---------------------------------------------------------------------------
# suite: factory-literal
# ---------------------------------------------------------------------------

def factory_zoo():
    import collections
    import functools
    return [list, dict, tuple, str, bytes, type(None), set, frozenset, int, bool, float, bytearray, object,
            collections.OrderedDict, collections.deque, Decimal, Fraction, lambda: [], _user_function,
            functools.partial(list), Unhashable(), Opaque, Color, MyList, dict.fromkeys, list.copy]


def suite_factories(ctx: Ctx, drv):
    from adaptix._internal.code_tools.utils import get_literal_from_factory
    reg = Registry()
    facs = factory_zoo()
    encs = [enc(f, reg) for f in facs]
    replies = drv.batch([{"op": "literal_from_factory", "f": e} for e in encs]) if drv else [None] * len(facs)
    n = d = 0
    for f, e, rep in zip(facs, encs, replies):
        case = {"suite": "factory-literal", "f": e, "py": repr(f)[:120]}
        real = real_literal(get_literal_from_factory, f)
        ctx.note_case(case, nontrivial=real["r"] == "text", kind=f"factory-{real['r']}")
        if real["r"] == "raised":
            ctx.fail("default:get_literal_from_factory-raises", f"get_literal_from_factory({f!r}) raised {real['cls']}", case)
        if real["r"] == "text":
            try:
                back = eval(real["text"], {})  # noqa: S307
                want = f()
                if not py_same(back, want):
                    ctx.fail("default:factory-literal-differs", f"factory {f!r} is replaced by the literal {real['text']!r} "
                             f"which evaluates to {back!r}, the factory returns {want!r}", case)
            except Exception as ex:  # noqa: BLE001
                ctx.fail("default:factory-literal-differs", f"factory literal {real['text']!r} of {f!r}: {type(ex).__name__}", case)
        if rep is not None:
            n += 1
            model = model_literal(rep)
            if model != real:
                d += 1
                ctx.disagree("factory-literal", case, real, model)
    if drv:
        ctx.suite("factory-literal", n, d)


# ---------------------------------------------------------------------------
# suites: call-plan / py-binding on custom shapes (instrumented constructor defined here)
# ---------------------------------------------------------------------------

KINDS = ["POS_ONLY", "POS_OR_KW", "KW_ONLY"]
# how a parameter's field is declared:  required | optional with DefaultValue | optional with DefaultFactory
#   | optional without a passable default (NoDefault, e.g. TypedDict NotRequired) | attrs Factory(takes_self=True)
FIELD_OPTS = ["req", "value", "factory", "nodefault", "withself"]
_D = object()   # "not passed": the constructor's own default applied


class Recorder:
    def __init__(self):
        self.calls = []


def build_ctor(spec, has_kwargs: bool, rec: Recorder):
    """A constructor with exactly the shape's signature.  `rec.calls` gets (args, kwargs) as passed and CPython's
    own binding of them (or the TypeError)."""
    parts, seen_slash, seen_star = [], False, False
    names = [p["name"] for p in spec]
    for idx, p in enumerate(spec):
        if p["kind"] != "POS_ONLY" and not seen_slash and idx > 0 and spec[idx - 1]["kind"] == "POS_ONLY":
            parts.append("/")
            seen_slash = True
        if p["kind"] == "KW_ONLY" and not seen_star:
            parts.append("*")
            seen_star = True
        parts.append(p["name"] if p["opt"] == "req" else f"{p['name']}=_D")
    if spec and spec[-1]["kind"] == "POS_ONLY":
        parts.append("/")
    if has_kwargs:
        parts.append("**kw")
    body = "{" + ", ".join(f"{n!r}: {n}" for n in names) + (", '**': kw" if has_kwargs else "") + "}"
    src = f"def bound({', '.join(parts)}):\n    return {body}\n"
    ns = {"_D": _D}
    try:
        exec(src, ns)  # noqa: S102
    except SyntaxError:
        return None
    bound = ns["bound"]

    def constructor(*args, **kwargs):
        entry = {"args": list(args), "kwargs": dict(kwargs)}
        rec.calls.append(entry)
        try:
            entry["bound"] = bound(*args, **kwargs)
        except TypeError as e:
            entry["type_error"] = str(e)
            raise
        return entry

    return constructor


def shape_json(spec, has_kwargs):
    dflt = {"req": "none", "value": "value", "factory": "factory", "nodefault": "none", "withself": "factory_with_self"}
    return {
        "fields": [{"id": p["id"], "required": p["opt"] == "req", "dflt": dflt[p["opt"]]} for p in spec],
        "params": [{"field": p["id"], "name": p["name"], "kind": p["kind"]} for p in spec],
        "kwargs": has_kwargs,
    }


class ShapeLab:
    """real side of the custom-shape suites"""

    def __init__(self):
        from types import MappingProxyType

        from adaptix import DebugTrail, ExtraKwargs, Retort, bound
        from adaptix._internal.model_tools.definitions import (
            DefaultFactory,
            DefaultFactoryWithSelf,
            DefaultValue,
            InputField,
            InputShape,
            NoDefault,
            Param,
            ParamKind,
            ParamKwargs,
        )
        from adaptix._internal.morphing.model.crown_definitions import (
            ExtraCollect,
            ExtraSkip,
            InpDictCrown,
            InpFieldCrown,
            InputNameLayout,
            InputNameLayoutRequest,
        )
        from adaptix._internal.morphing.request_cls import LoaderRequest
        from adaptix._internal.provider.shape_provider import InputShapeRequest
        from adaptix._internal.provider.value_provider import ValueProvider
        from adaptix.load_error import LoadError, ValueLoadError
        self.__dict__.update(locals())

    def make_shape(self, spec, has_kwargs, constructor):
        s = self

        def default_of(idx, p):
            if p["opt"] == "value":
                return s.DefaultValue(1000 + idx)
            if p["opt"] == "factory":
                return s.DefaultFactory(lambda idx=idx: 2000 + idx)
            if p["opt"] == "withself":
                return s.DefaultFactoryWithSelf(lambda obj, idx=idx: 3000 + idx)
            return s.NoDefault()

        return s.InputShape(
            fields=tuple(
                s.InputField(type=int, id=p["id"], default=default_of(i, p), is_required=p["opt"] == "req",
                             metadata=s.MappingProxyType({}), original=None)
                for i, p in enumerate(spec)),
            params=tuple(s.Param(field_id=p["id"], name=p["name"], kind=getattr(s.ParamKind, p["kind"])) for p in spec),
            kwargs=s.ParamKwargs(int) if has_kwargs else None,
            constructor=constructor,
            overriden_types=frozenset(p["id"] for p in spec),
        )

    def make_loader(self, shape, spec, skipped, extra_kwargs, trail="DISABLE", field_loader=None):
        s = self
        crown = s.InpDictCrown({p["id"]: s.InpFieldCrown(p["id"]) for p in spec if p["id"] not in skipped},
                               extra_policy=s.ExtraCollect() if extra_kwargs else s.ExtraSkip())
        layout = s.InputNameLayout(crown=crown, extra_move=s.ExtraKwargs() if extra_kwargs else None)

        class Target:
            pass

        retort = s.Retort(recipe=[
            s.ValueProvider(s.InputShapeRequest, shape),
            s.ValueProvider(s.InputNameLayoutRequest, layout),
            s.bound(int, s.ValueProvider(s.LoaderRequest, field_loader or (lambda x: x))),
        ]).replace(debug_trail=getattr(s.DebugTrail, trail))
        return retort.get_loader(Target)


def dflt_marker(idx, p):
    return {"value": 1000 + idx, "factory": 2000 + idx}.get(p["opt"])


def expected_params(spec, skipped, present):
    """the property: what every parameter must receive (None = left to the constructor)"""
    out = {}
    for idx, p in enumerate(spec):
        if p["id"] in skipped:
            out[p["name"]] = None
        elif p["id"] in present:
            out[p["name"]] = 100 + idx
        else:
            out[p["name"]] = dflt_marker(idx, p)
    return out


def gen_specs_exhaustive(n, opts):
    for kinds in itertools.product(KINDS, repeat=n):
        for fopts in itertools.product(opts, repeat=n):
            yield [{"id": f"f{i}", "name": f"p{i}", "kind": k, "opt": o} for i, (k, o) in enumerate(zip(kinds, fopts))]


def rand_spec(rng, n):
    # mostly valid: kinds sorted, positional-only required, required before optional among positional
    ks = sorted((rng.choice(KINDS) for _ in range(n)), key=KINDS.index)
    spec, seen_opt = [], False
    for i, k in enumerate(ks):
        if k == "POS_ONLY":
            o = "req"
        elif k == "POS_OR_KW":
            o = rng.choice(FIELD_OPTS[1:]) if seen_opt or rng.random() < 0.6 else "req"
        else:
            o = rng.choice(FIELD_OPTS)
        if o != "req" and k != "KW_ONLY":
            seen_opt = True
        spec.append({"id": f"f{i}", "name": rng.choice([f"p{i}", f"f{i}", f"_{i}x"]), "kind": k, "opt": o})
    if rng.random() < 0.15:   # a malformed one now and then
        rng.shuffle(spec)
    return spec


def run_plan_cases(ctx: Ctx, drv, lab: ShapeLab, specs, rng, max_skip_sets, with_kwargs_every):
    """For every spec: is it a valid InputShape? then for skipped sets x presence subsets: load through the real
    generated loader with an instrumented constructor, compare with the model, evaluate the oracle."""
    requests, metas = [], []
    for si, spec in enumerate(specs):
        has_kwargs = with_kwargs_every and si % with_kwargs_every == 0
        rec = Recorder()
        ctor = build_ctor(spec, has_kwargs, rec)
        sj = shape_json(spec, has_kwargs)
        try:
            shape = lab.make_shape(spec, has_kwargs, ctor or (lambda *a, **k: None))
            real_wf = True
        except ValueError:
            shape, real_wf = None, False
        base_cfg = {"skipped": [], "use_default": True, "extra_move": "kwargs" if has_kwargs else "none"}
        if not real_wf or ctor is None:
            requests.append({"op": "call_plan", "fix": True, "shape": sj, "cfg": base_cfg,
                             "inputs": {"loaded": [], "dflt": [], "extra": []}})
            metas.append({"kind": "wf", "spec": spec, "kwargs": has_kwargs, "real_wf": real_wf and ctor is not None})
            continue
        optional = [p["id"] for p in spec if p["opt"] != "req"]
        skip_sets = [set(c) for r in range(len(optional) + 1) for c in itertools.combinations(optional, r)]
        if len(skip_sets) > max_skip_sets:
            skip_sets = [set()] + rng.sample(skip_sets[1:], max_skip_sets - 1)
        if rng.random() < 0.05 and any(p["opt"] == "req" for p in spec):   # an invalid skip of a required field
            skip_sets.append({next(p["id"] for p in spec if p["opt"] == "req")})
        for skipped in skip_sets:
            cfg = dict(base_cfg, skipped=sorted(skipped))
            try:
                loader = lab.make_loader(shape, spec, skipped, has_kwargs)
                real_cfg_ok = True
            except ValueError:
                loader, real_cfg_ok = None, False
            if not real_cfg_ok:
                requests.append({"op": "call_plan", "fix": True, "shape": sj, "cfg": cfg,
                                 "inputs": {"loaded": [], "dflt": [], "extra": []}})
                metas.append({"kind": "wfcfg", "spec": spec, "kwargs": has_kwargs, "skipped": sorted(skipped)})
                continue
            free = [i for i in optional if i not in skipped]
            subsets = [set(c) for r in range(len(free) + 1) for c in itertools.combinations(free, r)]
            if len(subsets) > 8:
                subsets = [set(), set(free)] + rng.sample(subsets[1:-1], 6)
            for pres in subsets:
                present = pres | {p["id"] for p in spec if p["opt"] == "req"}
                data = {p["id"]: 100 + i for i, p in enumerate(spec) if p["id"] in present}
                extra = [["zz", 7], ["yy", 8]] if has_kwargs else []
                data.update({k: v for k, v in extra})
                rec.calls.clear()
                try:
                    loader(data)
                    real_exc = None
                except Exception as e:  # noqa: BLE001
                    real_exc = type(e).__name__
                inputs = {"loaded": [[p["id"], 100 + i] for i, p in enumerate(spec) if p["id"] in present],
                          "dflt": [[p["id"], dflt_marker(i, p)] for i, p in enumerate(spec) if dflt_marker(i, p) is not None],
                          "extra": extra}
                requests.append({"op": "call_plan", "fix": True, "shape": sj, "cfg": cfg, "inputs": inputs})
                metas.append({"kind": "load", "spec": spec, "kwargs": has_kwargs, "skipped": sorted(skipped),
                              "present": sorted(present), "calls": [dict(c) for c in rec.calls], "exc": real_exc})
    replies = drv.batch(requests) if drv else [None] * len(requests)
    n_plan = d_plan = n_bind = d_bind = n_wf = d_wf = 0
    for req, meta, rep in zip(requests, metas, replies):
        spec = meta["spec"]
        m = rep.get("ok") if rep else None
        if rep is not None and m is None:
            ctx.disagree("call-plan", {"suite": "call-plan", "req": req}, "driver error", rep)
            d_plan += 1
            n_plan += 1
            continue
        if meta["kind"] == "wf":
            ctx.note_case({"suite": "wf", "spec": spec}, nontrivial=False, kind="shape-invalid" if not meta["real_wf"] else "shape-valid")
            if m is not None:
                n_wf += 1
                if m["wf_shape"] != meta["real_wf"]:
                    d_wf += 1
                    ctx.disagree("shape-validate", {"suite": "shape-validate", "spec": spec}, meta["real_wf"], m["wf_shape"])
            continue
        if meta["kind"] == "wfcfg":
            ctx.note_case({"suite": "wfcfg", "spec": spec, "skipped": meta["skipped"]}, nontrivial=False, kind="cfg-invalid")
            if m is not None:
                n_wf += 1
                if m["wf_cfg"] or not m["wf_shape"]:
                    d_wf += 1
                    ctx.disagree("shape-validate", {"suite": "shape-validate", "spec": spec, "skipped": meta["skipped"]},
                                 "skipped required field rejected", m)
            continue
        # ---- a real load -------------------------------------------------------
        case = {"suite": "call-plan", "spec": spec, "kwargs": meta["kwargs"], "skipped": meta["skipped"],
                "present": meta["present"]}
        left_out = [p for p in spec if p["id"] in meta["skipped"]
                    or (p["id"] not in meta["present"] and p["opt"] in ("nodefault", "withself"))]
        layout = "".join({"POS_ONLY": "P", "POS_OR_KW": "A", "KW_ONLY": "K"}[p["kind"]] for p in spec)
        ctx.note_case(case, nontrivial=bool(left_out), kind=f"plan-{layout}-{'leftout' if left_out else 'full'}")
        ctx.sample({"suite": "call-plan", "spec": [(p["kind"], p["opt"]) for p in spec], "skipped": meta["skipped"],
                    "present": meta["present"], "calls": [{k: c[k] for k in ("args", "kwargs")} for c in meta["calls"]]}, every=409)
        calls = meta["calls"]
        want = expected_params(spec, set(meta["skipped"]), set(meta["present"]))
        # direct oracle
        if len(calls) != 1:
            ctx.fail("call:constructor-call-count", f"constructor invoked {len(calls)} times in one load "
                     f"(layout {layout}, skipped {meta['skipped']}, present {meta['present']})", case)
        else:
            c = calls[0]
            if "type_error" in c:
                packed_before = any(p["opt"] in ("nodefault", "withself") and p["kind"] != "KW_ONLY" for p in spec)
                sig = "call:packed-param-positional-shift" if packed_before else "call:type-error"
                ctx.fail(sig, f"constructor call raises TypeError: {c['type_error']} — layout "
                         f"{[(p['name'], p['kind'], p['opt']) for p in spec]}, skipped {meta['skipped']}, present "
                         f"{meta['present']}, called with args={c['args']} kwargs={c['kwargs']}", case)
            else:
                got = {k: (None if v is _D else v) for k, v in c["bound"].items() if k != "**"}
                if got != want:
                    packed_before = any(p["opt"] in ("nodefault", "withself") and p["kind"] != "KW_ONLY" for p in spec)
                    sig = "call:packed-param-positional-shift" if packed_before else "call:parameter-receives-wrong-value"
                    ctx.fail(sig, f"parameters received {got}, own fields give {want} — layout "
                             f"{[(p['name'], p['kind'], p['opt']) for p in spec]}, skipped {meta['skipped']}, present "
                             f"{meta['present']}, called with args={c['args']} kwargs={c['kwargs']}", case)
                elif meta["kwargs"] and c["bound"].get("**") != {"zz": 7, "yy": 8}:
                    ctx.fail("call:extra-kwargs", f"**kwargs received {c['bound'].get('**')}", case)
        if m is None:
            continue
        # correspondence: emitted call
        n_plan += 1
        real_call = {"args": calls[0]["args"], "kwargs": calls[0]["kwargs"]} if len(calls) == 1 else {"calls": len(calls)}
        if "ok" in m["plan"]:
            args, kwargs = [], {}
            dup = False
            for a in m["plan"]["ok"]:
                if "pos" in a:
                    args.append(a["pos"])
                elif "kw" in a:
                    dup = dup or a["kw"] in kwargs
                    kwargs[a["kw"]] = a["v"]
                else:
                    for k, v in a["ss"]:
                        dup = dup or k in kwargs
                        kwargs[k] = v
            model_call = {"args": args, "kwargs": kwargs} if not dup else {"calls": 0}
        else:
            model_call = {"plan": m["plan"]}
        if real_call != model_call or not m["wf_shape"] or not m["wf_cfg"]:
            d_plan += 1
            ctx.disagree("call-plan", case, real_call, {"call": model_call, "wf": [m["wf_shape"], m["wf_cfg"]]})
            continue
        # correspondence: CPython's binding of the same call vs bindArgs
        if len(calls) == 1:
            n_bind += 1
            c = calls[0]
            if "type_error" in c:
                real_bind = {"type_error": True}
            else:
                real_bind = {"bound": {k: v for k, v in c["bound"].items() if k != "**" and v is not _D},
                             "kwargs": c["bound"].get("**", {})}
            mb = m["bind"]
            if mb is None:
                model_bind = None
            elif "type_error" in mb:
                model_bind = {"type_error": True}
            else:
                model_bind = {"bound": dict(mb["bound"]), "kwargs": dict(mb["kwargs"])}
            if real_bind != model_bind:
                d_bind += 1
                ctx.disagree("py-binding", case, real_bind, mb)
    if drv:
        ctx.suite("call-plan", n_plan, d_plan)
        ctx.suite("py-binding", n_bind, d_bind)
        ctx.suite("shape-validate", n_wf, d_wf)


# ---------------------------------------------------------------------------
# suite: kind-shapes — the six real model kinds, shapes from adaptix's own introspection
# ---------------------------------------------------------------------------

class RecMeta(type):
    """records how the class itself is called"""

    def __call__(cls, *args, **kwargs):
        log = cls.__dict__.get("_rec_log")
        if log is not None and not cls.__dict__.get("_rec_pause"):
            log.append({"args": list(args), "kwargs": dict(kwargs)})
        return super().__call__(*args, **kwargs)


def _factory_for(idx):
    def factory():
        return 2000 + idx
    return factory


def _data_factory_for(idx):
    def factory(data):
        return 4000 + idx + 0 * len(data)
    return factory


def build_kind_model(kind: str, fdescs):
    """fdescs: [{name, mode: req|value|factory|withself, kw_only: bool, pos_only: bool}] -> (cls, log, introspect)"""
    import dataclasses
    log = []
    ns = {"_rec_log": log, "__annotations__": {}}
    if kind == "dataclass":
        from adaptix._internal.model_tools.introspection.dataclass import get_dataclass_shape as introspect
        for i, f in enumerate(fdescs):
            ns["__annotations__"][f["name"]] = int
            kw = {"kw_only": True} if f["kw_only"] else {}
            if f["mode"] == "value":
                ns[f["name"]] = dataclasses.field(default=1000 + i, **kw)
            elif f["mode"] == "factory":
                ns[f["name"]] = dataclasses.field(default_factory=_factory_for(i), **kw)
            elif kw:
                ns[f["name"]] = dataclasses.field(**kw)

        def __post_init__(self):
            object.__setattr__(self, "post_ran", True)
        ns["__post_init__"] = __post_init__
        cls = dataclasses.dataclass(RecMeta("DC", (), ns))
    elif kind == "class":
        from adaptix._internal.model_tools.introspection.class_init import get_class_init_shape as introspect
        parts, slash_done, star_done = ["self"], False, False
        for i, f in enumerate(fdescs):
            if not f["pos_only"] and not slash_done and i > 0 and fdescs[i - 1]["pos_only"]:
                parts.append("/")
                slash_done = True
            if f["kw_only"] and not star_done:
                parts.append("*")
                star_done = True
            d = {"req": "", "value": f"={1000 + i}", "factory": f"={1000 + i}", "withself": f"={1000 + i}"}[f["mode"]]
            parts.append(f"{f['name']}: int{d}")
        if fdescs and fdescs[-1]["pos_only"]:
            parts.append("/")
        body = "".join(f"    self.{f['name']} = {f['name']}\n" for f in fdescs) + "    self.post_ran = True\n"
        src = f"def __init__({', '.join(parts)}):\n{body}"
        g = {}
        exec(src, g)  # noqa: S102
        ns.pop("__annotations__")
        ns["__init__"] = g["__init__"]
        cls = RecMeta("PlainModel", (), ns)
    elif kind == "namedtuple":
        from typing import NamedTuple

        from adaptix._internal.model_tools.introspection.named_tuple import get_named_tuple_shape as introspect
        fields = [(f["name"], int) for f in fdescs]
        cls = NamedTuple("NT", fields)
        n_def = 0
        defaults = []
        for i, f in enumerate(fdescs):
            if f["mode"] != "req":
                defaults.append(1000 + i)
                n_def += 1
        cls = NamedTuple("NT", fields)
        cls.__new__.__defaults__ = tuple(defaults)
        cls._field_defaults = {f["name"]: 1000 + i for i, f in enumerate(fdescs) if f["mode"] != "req"}
        orig_new = cls.__new__

        def __new__(klass, *args, **kwargs):
            if not getattr(klass, "_rec_pause", False):
                log.append({"args": list(args), "kwargs": dict(kwargs)})
            return orig_new(klass, *args, **kwargs)
        cls.__new__ = __new__
    elif kind == "typeddict":
        from typing import NotRequired, TypedDict

        from adaptix._internal.model_tools.introspection.typed_dict import get_typed_dict_shape as introspect
        cls = TypedDict("TD", {f["name"]: (int if f["mode"] == "req" else NotRequired[int]) for f in fdescs})
        log = None
    elif kind == "attrs":
        import attrs

        from adaptix._internal.model_tools.introspection.attrs import get_attrs_shape as introspect
        for i, f in enumerate(fdescs):
            ns["__annotations__"][f["name"]] = int
            kw = {"kw_only": True} if f["kw_only"] else {}
            if f.get("alias"):
                kw["alias"] = f["alias"]
            if f["mode"] == "value":
                ns[f["name"]] = attrs.field(default=1000 + i, **kw)
            elif f["mode"] == "factory":
                ns[f["name"]] = attrs.field(factory=_factory_for(i), **kw)
            elif f["mode"] == "withself":
                ns[f["name"]] = attrs.field(default=attrs.Factory(lambda self, i=i: 3000 + i, takes_self=True), **kw)
            elif kw:
                ns[f["name"]] = attrs.field(**kw)

        def __attrs_post_init__(self):
            object.__setattr__(self, "post_ran", True)
        ns["__attrs_post_init__"] = __attrs_post_init__
        cls = attrs.define(slots=False)(RecMeta("AT", (), ns))
    elif kind == "pydantic":
        from pydantic import BaseModel, Field

        from adaptix._internal.model_tools.introspection.pydantic import get_pydantic_shape as introspect
        pns = {"__annotations__": {}, "__module__": __name__}
        for i, f in enumerate(fdescs):
            pns["__annotations__"][f["name"]] = int
            if f["mode"] == "value":
                pns[f["name"]] = 1000 + i
            elif f["mode"] == "factory":
                pns[f["name"]] = Field(default_factory=_factory_for(i))
            elif f["mode"] == "datafactory":   # pydantic >= 2.10: the factory receives the data validated so far
                pns[f["name"]] = Field(default_factory=_data_factory_for(i))

        def __init__(self, **data):
            if not type(self).__dict__.get("_rec_pause"):
                log.append({"args": [], "kwargs": dict(data)})
            BaseModel.__init__(self, **data)

        def model_post_init(self, ctx_):
            object.__setattr__(self, "__dict__", {**self.__dict__, "post_ran": True})
        pns["__init__"] = __init__
        pns["model_post_init"] = model_post_init
        cls = type(BaseModel)("PM", (BaseModel,), pns)
    else:
        raise InfraError(kind)
    return cls, log, introspect


def input_shape_json(shape):
    from adaptix._internal.model_tools.definitions import DefaultFactory, DefaultFactoryWithSelf, DefaultValue
    def dk(d):
        if isinstance(d, DefaultValue):
            return "value"
        if isinstance(d, DefaultFactory):
            return "factory"
        if isinstance(d, DefaultFactoryWithSelf):
            return "factory_with_self"
        return "none"
    return {
        "fields": [{"id": f.id, "required": bool(f.is_required), "dflt": dk(f.default)} for f in shape.fields],
        "params": [{"field": p.field_id, "name": p.name, "kind": p.kind.name} for p in shape.params],
        "kwargs": shape.kwargs is not None,
    }


def rand_fdescs(rng, kind):
    n = rng.randint(1, 4)
    out, seen_opt = [], False
    for i in range(n):
        name = f"f{i}"
        mode = rng.choice(["req", "value", "factory"])
        kw_only = False
        pos_only = False
        alias = None
        if kind == "attrs":
            mode = rng.choice(["req", "value", "factory", "withself", "withself"])
            if rng.random() < 0.25:
                name = f"_f{i}"
            if rng.random() < 0.15:
                alias = f"al{i}"
            kw_only = rng.random() < 0.25
        elif kind == "dataclass":
            kw_only = rng.random() < 0.3
        elif kind == "class":
            kw_only = rng.random() < 0.3 or (out and out[-1]["kw_only"])
            pos_only = (not kw_only) and (not out or out[-1]["pos_only"]) and rng.random() < 0.4
            mode = rng.choice(["req", "value"])
        elif kind == "namedtuple":
            mode = rng.choice(["req", "value"])
        elif kind == "typeddict":
            mode = rng.choice(["req", "value"])   # value = NotRequired
        elif kind == "pydantic":
            mode = rng.choice(["req", "value", "factory", "datafactory"])
        if not kw_only and kind != "typeddict" and kind != "pydantic":
            if seen_opt and mode == "req":
                mode = "value"    # Python: no required positional after an optional one
            if mode != "req":
                seen_opt = True
            if pos_only and mode != "req" and kind == "class":
                pass
        out.append({"name": name, "mode": mode, "kw_only": bool(kw_only), "pos_only": bool(pos_only), "alias": alias})
    if kind == "class":   # kinds must be sorted: pos_only*, normal*, kw_only*
        out.sort(key=lambda f: (0 if f["pos_only"] else 2 if f["kw_only"] else 1))
        seen_opt = False
        for f in out:
            if not f["kw_only"]:
                if seen_opt and f["mode"] == "req":
                    f["mode"] = "value"
                if f["mode"] != "req":
                    seen_opt = True
    return out


def suite_kinds(ctx: Ctx, drv, n_models: int, forced=None):
    from adaptix import Retort, name_mapping
    kinds = ["dataclass", "class", "namedtuple", "typeddict", "attrs", "pydantic"]
    requests, metas = [], []
    for mi in range(n_models if forced is None else len(forced)):
        if forced is None:
            kind = kinds[mi % len(kinds)]
            fdescs = rand_fdescs(ctx.rng, kind)
            forced_skip = None
        else:
            kind, fdescs, forced_skip = forced[mi]
        try:
            cls, log, introspect = build_kind_model(kind, fdescs)
        except Exception as e:  # noqa: BLE001
            ctx.dist[f"kind-model-not-buildable-{kind}-{type(e).__name__}"] += 1
            continue
        try:
            shape = introspect(cls).input
        except Exception as e:  # noqa: BLE001
            ctx.fail("kind:introspection-raises", f"{kind} model {fdescs}: introspection raises {type(e).__name__}: {e}",
                     {"suite": "kind-shapes", "kind": kind, "fdescs": fdescs, "skip": []})
            continue
        sj = input_shape_json(shape)
        optional_ids = [f.id for f in shape.fields if not f.is_required]
        # field id -> input key (default name mapping: key == field id)
        skip = []
        if forced_skip is not None:
            skip = list(forced_skip)
        elif optional_ids and ctx.rng.random() < 0.3:
            skip = [ctx.rng.choice(optional_ids)]
        retort = Retort(recipe=[name_mapping(cls, skip=skip)] if skip else [])
        try:
            loader = retort.get_loader(cls)
        except Exception as e:  # noqa: BLE001
            ctx.fail("kind:loader-not-created", f"{kind} model {fdescs}: {type(e).__name__}: {e}",
                     {"suite": "kind-shapes", "kind": kind, "fdescs": fdescs, "skip": skip})
            continue
        free = [i for i in optional_ids if i not in skip]
        subsets = [set(c) for r in range(len(free) + 1) for c in itertools.combinations(free, r)]
        for pres in subsets:
            present = [f.id for f in shape.fields if f.is_required or f.id in pres]
            idx = {f.id: i for i, f in enumerate(shape.fields)}
            data = {fid: 100 + idx[fid] for fid in present}
            if log is not None:
                log.clear()
            try:
                obj = loader(dict(data))
                exc = None
            except Exception as e:  # noqa: BLE001
                obj, exc = None, f"{type(e).__name__}: {e}"
            calls = [dict(c) for c in log] if log is not None else None
            # reference: the model built directly from the present fields only
            pname = {p.field_id: p.name for p in shape.params}
            setattr(cls, "_rec_pause", True) if kind != "typeddict" else None
            try:
                pos_only = [p for p in shape.params if p.kind.name == "POS_ONLY"]
                ref = cls(*[data[p.field_id] for p in pos_only],
                          **{pname[fid]: v for fid, v in data.items() if fid not in {p.field_id for p in pos_only}})
            except Exception as e:  # noqa: BLE001
                ref = None
                ctx.dist[f"kind-ref-not-constructible-{kind}-{type(e).__name__}"] += 1
            finally:
                if kind != "typeddict":
                    try:
                        delattr(cls, "_rec_pause")
                    except AttributeError:
                        pass
            case = {"suite": "kind-shapes", "kind": kind, "fdescs": fdescs, "skip": skip, "present": present}
            ctx.note_case(case, nontrivial=len(present) < len(shape.fields), kind=f"kind-{kind}")
            ctx.sample({"suite": "kind-shapes", "kind": kind, "fields": [(f["name"], f["mode"], f["kw_only"]) for f in fdescs],
                        "skip": skip, "present": present, "calls": calls}, every=131)
            has_withself = any(f["mode"] == "withself" and not f["kw_only"] for f in fdescs)
            has_datafactory = any(f["mode"] == "datafactory" for f in fdescs)
            # ---- direct oracle ----
            if exc is not None:
                sig = "call:packed-param-positional-shift" if has_withself and "multiple values" in exc else \
                    "default:pydantic-factory-takes-validated-data" if has_datafactory and exc.startswith("TypeError") else \
                    "kind:load-raises"
                ctx.fail(sig, f"{kind} model {[(f['name'], f['mode'], f['kw_only']) for f in fdescs]} skip {skip}: loading "
                         f"{data} raises {exc}", case)
            elif ref is not None:
                if calls is not None and len(calls) != 1:
                    ctx.fail("call:constructor-call-count", f"{kind} constructor invoked {len(calls)} times", case)
                get = (lambda o, n: o[n]) if kind == "typeddict" else getattr
                bad = []
                if kind == "typeddict":
                    if type(obj) is not dict or obj != ref:
                        bad.append(("<dict>", obj, ref))
                else:
                    for f in shape.fields:
                        a, b = get(obj, f.id), get(ref, f.id)
                        if not py_same(a, b):
                            bad.append((f.id, a, b))
                    if kind != "namedtuple" and not getattr(obj, "post_ran", False):
                        ctx.fail("call:post-init-did-not-run", f"{kind}: post-init hook did not run", case)
                if bad:
                    sig = "call:packed-param-positional-shift" if has_withself else "kind:field-differs-from-own-constructor"
                    ctx.fail(sig, f"{kind} model {[(f['name'], f['mode'], f['kw_only']) for f in fdescs]} skip {skip} loaded "
                             f"from {data}: fields differ from what the model itself produces: "
                             f"{[(n, repr(a), repr(b)) for n, a, b in bad]}", case)
            if calls is None or exc is not None and not calls:
                continue
            requests.append({"op": "call_plan", "fix": True, "shape": sj,
                             "cfg": {"skipped": skip, "use_default": True, "extra_move": "none"},
                             "inputs": {"loaded": [[fid, 100 + idx[fid]] for fid in present],
                                        "dflt": [[f.id, (1000 if sj["fields"][idx[f.id]]["dflt"] == "value" else 2000) + _desc_index(fdescs, f.id)]
                                                 for f in shape.fields if sj["fields"][idx[f.id]]["dflt"] in ("value", "factory")],
                                        "extra": []}})
            metas.append((case, calls))
    replies = drv.batch(requests) if drv else []
    n = d = 0
    for (case, calls), rep in zip(metas, replies):
        n += 1
        m = rep.get("ok")
        real_call = {"args": calls[0]["args"], "kwargs": calls[0]["kwargs"]} if len(calls) == 1 else {"calls": len(calls)}
        model_call = None
        if m and "ok" in m["plan"]:
            args, kwargs = [], {}
            for a in m["plan"]["ok"]:
                if "pos" in a:
                    args.append(a["pos"])
                elif "kw" in a:
                    kwargs[a["kw"]] = a["v"]
                else:
                    kwargs.update({k: v for k, v in a["ss"]})
            model_call = {"args": args, "kwargs": kwargs}
        if real_call != model_call or not (m and m["wf_shape"] and m["wf_cfg"]):
            d += 1
            ctx.disagree("kind-shapes", case, real_call, m)
    if drv:
        ctx.suite("kind-shapes", n, d)


def _desc_index(fdescs, field_id):
    for i, f in enumerate(fdescs):
        if f["name"] == field_id:
            return i
    raise InfraError(f"field {field_id} not in descriptors")


# ---------------------------------------------------------------------------
# suite: e2e-defaults / default-clause — Retort.load with the field omitted
# ---------------------------------------------------------------------------

_MUTABLE = (list, dict, set, bytearray, Opaque, MyList)


def build_default_model(kind: str, mode: str, d):
    """a model with a required field r and an optional field x whose default is d (mode value) or d() (mode factory)"""
    import dataclasses
    from typing import Any
    counter = {"init": 0, "post": 0}
    if kind == "dataclass":
        @dataclasses.dataclass
        class M:
            r: int
            x: Any = dataclasses.field(default=d) if mode == "value" else dataclasses.field(default_factory=d)

            def __post_init__(self):
                counter["init"] += 1
                counter["post"] += 1
        return M, counter
    if kind == "class":
        class M:   # noqa: F811
            def __init__(self, r: int, x: Any = d):
                counter["init"] += 1
                counter["post"] += 1
                self.r, self.x = r, x
        return M, counter
    if kind == "namedtuple":
        import collections
        M = collections.namedtuple("M", ["r", "x"], defaults=[d])   # noqa: F811
        return M, None
    if kind == "attrs":
        import attrs

        @attrs.define
        class M:   # noqa: F811
            r: int
            x: Any = attrs.field(default=d) if mode == "value" else attrs.field(factory=d)

            def __attrs_post_init__(self):
                counter["init"] += 1
                counter["post"] += 1
        return M, counter
    if kind == "pydantic":
        from pydantic import BaseModel, ConfigDict, Field

        class M(BaseModel):   # noqa: F811
            model_config = ConfigDict(arbitrary_types_allowed=True)
            r: int
            x: Any = d if mode == "value" else Field(default_factory=d)

            def model_post_init(self, ctx_):
                counter["init"] += 1
                counter["post"] += 1
        return M, counter
    raise InfraError(kind)


def _first_mutable(v, depth=0):
    """the first builtin mutable container inside a default value (itself, or an element of a tuple)"""
    if type(v) in (list, dict, set, bytearray):
        return v
    if type(v) is tuple and depth < 3:
        for e in v:
            t = _first_mutable(e, depth + 1)
            if t is not None:
                return t
    return None


def _poke(target):
    """modify in place; -> undo"""
    marker = "__poked__"
    if type(target) is list:
        target.append(marker)
        return target.pop
    if type(target) is dict:
        target[marker] = 1
        return lambda: target.pop(marker, None)
    if type(target) is set:
        target.add(marker)
        return lambda: target.discard(marker)
    target.append(7)
    return target.pop


def suite_e2e_defaults(ctx: Ctx, drv, defaults, kinds_per_value: int, only_kind=None):
    from adaptix import Retort
    from adaptix._internal.morphing.model.basic_gen import CodeGenAccumulator
    reg = Registry()
    all_kinds = ["dataclass", "class", "namedtuple", "attrs", "pydantic"]
    requests, metas = [], []
    for di, (mode, d) in enumerate(defaults):
        kinds = all_kinds if kinds_per_value >= len(all_kinds) else \
            [all_kinds[(di + j) % len(all_kinds)] for j in range(kinds_per_value)]
        if only_kind:
            kinds = [only_kind]
        for kind in kinds:
            if mode == "factory" and kind in ("class", "namedtuple"):
                continue
            case = {"suite": "e2e-defaults", "kind": kind, "mode": mode, "d": enc(d, reg), "py": repr(d)[:160]}
            try:
                M, counter = build_default_model(kind, mode, d)
                ref = M(r=1)
            except Exception as e:  # noqa: BLE001  (e.g. dataclasses refuse mutable defaults)
                ctx.dist[f"e2e-model-refused-{kind}-{type(e).__name__}"] += 1
                continue
            acc = CodeGenAccumulator()
            retort = Retort(recipe=[acc])
            try:
                loader = retort.get_loader(M)
            except Exception as e:  # noqa: BLE001
                ctx.fail("default:loader-not-created", f"{kind} model with default {d!r} ({mode}): loader creation raises "
                         f"{type(e).__name__}: {e}", case)
                ctx.note_case(case, nontrivial=False, kind=f"e2e-{kind}-{mode}-nocreate")
                continue
            if counter:
                counter["init"] = counter["post"] = 0
            try:
                o1 = loader({"r": 1})
                n_calls = counter["init"] if counter else None
                o2 = loader({"r": 1})
            except Exception as e:  # noqa: BLE001
                ctx.fail("default:load-with-omitted-field-raises", f"{kind} model with default {d!r} ({mode}): loading "
                         f"without the field raises {type(e).__name__}: {e}", case)
                ctx.note_case(case, nontrivial=False, kind=f"e2e-{kind}-{mode}-raises")
                continue
            x1, x2, xr = o1.x, o2.x, ref.x
            kindv = value_kind(xr)
            ctx.note_case(case, nontrivial=kindv.startswith(("container", "opaque")), kind=f"e2e-{kind}-{mode}")
            ctx.sample({"suite": "e2e-defaults", "kind": kind, "mode": mode, "default": repr(d)[:80], "loaded": repr(x1)[:80]},
                       every=173)
            # ---- direct oracle ----
            if n_calls is not None and n_calls != 1:
                ctx.fail("call:constructor-call-count", f"{kind}: constructor/post-init ran {n_calls} times in one load", case)
            if not py_same(x1, xr) or not py_same(x2, xr):
                try:
                    eq = bool(x1 == xr)
                except Exception:  # noqa: BLE001
                    eq = False
                sig = "default:look-alike-literal" if eq or type(x1) is not type(xr) else "default:omitted-field-other-value"
                ctx.fail(sig, f"{kind} model, field omitted: holds {x1!r} ({type(x1).__name__}); the model itself produces "
                         f"{xr!r} ({type(xr).__name__}) from its declared default {d!r} ({mode})", case)
            elif mode == "factory" and isinstance(x1, _MUTABLE) and x1 is x2:
                ctx.fail("default:factory-result-shared", f"{kind}: two loads share the object produced by the default "
                         f"factory {d!r}", case)
            # ---- the input is any mapping: one whose __getitem__ never raises KeyError (defaultdict, Counter, a dict subclass
            # with __missing__) still OMITS the key, and loading does not add keys to it
            import collections

            class _Missing(dict):
                def __missing__(self, key):
                    return "<from __missing__>"
            for mk_input in (lambda: collections.defaultdict(lambda: "<from default_factory>", {"r": 1}),
                             lambda: collections.Counter({"r": 1}), lambda: _Missing(r=1),
                             lambda: collections.ChainMap({"r": 1}), lambda: collections.OrderedDict(r=1)):
                inp = mk_input()
                tname = type(inp).__name__
                try:
                    o4 = loader(inp)
                except Exception as e:  # noqa: BLE001
                    ctx.dist[f"e2e-input-{tname}-refused-{type(e).__name__}"] += 1
                    continue
                ctx.note_case(dict(case, input=tname), nontrivial=True, kind=f"e2e-input-{tname}")
                if not py_same(o4.x, xr):
                    ctx.fail("default:omitted-field-other-value:mapping-input", f"{kind} model, field omitted in a {tname} input: "
                             f"holds {o4.x!r}; the model itself produces {xr!r} from its declared default ({mode})",
                             dict(case, input=tname))
                    break
                if set(inp.keys()) != {"r"}:
                    ctx.fail("call:input-mutated", f"{kind} model: loading added keys to the {tname} input: {sorted(map(str, inp.keys()))}",
                             dict(case, input=tname))
                    break
            if True:
                # history: load, modify the loaded object's defaulted container in place, load again with the field omitted
                target = _first_mutable(x1)
                if target is not None and _first_mutable(xr) is not target and _first_mutable(d) is not target:
                    undo = _poke(target)
                    try:
                        o3 = loader({"r": 1})
                        ctx.note_case(dict(case, history="load-mutate-load"), nontrivial=True, kind=f"e2e-{kind}-{mode}-mutate")
                        if not py_same(o3.x, xr):
                            ctx.fail("default:shared-between-loads", f"{kind} model, field omitted, after an earlier loaded "
                                     f"object was modified in place: holds {o3.x!r}; the model itself produces {xr!r} from its "
                                     f"declared default ({mode})", dict(case, history="load-mutate-load"))
                    except Exception as e:  # noqa: BLE001
                        ctx.fail("default:load-with-omitted-field-raises", f"{kind}: second load raises {type(e).__name__}", case)
                    finally:
                        undo()
            # ---- what the generated code does with the default (for the correspondence) ----
            src = acc.list[-1][1].source if acc.list else ""
            clause = None
            for m_ in re.finditer(r"^\s*f_x = (.+)$", src, re.M):
                if "loader_x(" not in m_.group(1) and m_.group(1) not in ("value", "data['x']"):
                    clause = m_.group(1)
            nsline = re.search(r"^dfl_x = (.+)$", src, re.M)
            requests.append({"op": "default_clause", "kind": mode, "v": enc(d, reg)})
            metas.append(("clause", case, clause, None))
            if nsline:
                requests.append({"op": "ns_constant", "v": enc(d, reg)})
                metas.append(("ns", case, nsline.group(1), None))
    replies = drv.batch(requests) if drv else []
    n = d_ = n2 = d2 = 0
    for (what, case, real, _), rep in zip(metas, replies):
        m = rep.get("ok")
        if what == "clause":
            n += 1
            if m is None or m.get("clause") is None:
                model = None
            elif m["clause"] == "inline":
                model = pieces_to_text(m["pieces"])
            else:
                model = {"captured": "dfl_x", "call_captured": "dfl_x()"}[m["clause"]]
            if model != real:
                d_ += 1
                ctx.disagree("default-clause", case, real, model)
        else:
            n2 += 1
            if m is None or m.get("binding") is None:
                model = None
            elif m["binding"] == "literal":
                model = pieces_to_text(m["pieces"])
            else:
                model = "g_dfl_x"
            if model != real:
                d2 += 1
                ctx.disagree("ns-constant", case, real, model)
    if drv:
        ctx.suite("default-clause", n, d_)
        ctx.suite("ns-constant", n2, d2)


def default_cases(rng, n_random):
    import collections
    import functools
    out = [("value", v) for v in fixed_zoo()]
    out += [("value", rand_value(rng, 3)) for _ in range(n_random)]

    def make_counting(result_factory):
        def counted():
            counted.calls += 1
            return result_factory()
        counted.calls = 0
        return counted

    facs = [list, dict, tuple, str, bytes, set, frozenset, int, bool, float, bytearray, collections.OrderedDict,
            collections.deque, lambda: [1, [2]], lambda: {"a": []}, lambda: Decimal("1"), lambda: Opaque("f"),
            lambda: Color.ONE, lambda: NAN, functools.partial(list, (1, 2)), lambda: (1,), Opaque.__new__.__self__,
            make_counting(list), make_counting(lambda: MyList([1]))]
    out += [("factory", f) for f in facs]
    return out


# ---------------------------------------------------------------------------
# suite: load-structure — outcome class and number of constructor invocations
# ---------------------------------------------------------------------------

def suite_load_structure(ctx: Ctx, drv, lab: ShapeLab, n_cases: int, forced=None):
    from adaptix.load_error import LoadError
    rng = ctx.rng
    requests, metas = [], []
    for ci in range(n_cases if forced is None else len(forced)):
        fc = forced[ci] if forced is not None else None
        spec = fc["spec"] if fc else rand_spec(rng, rng.randint(1, 5))
        for p in spec:   # unique readable names
            p["name"] = "p" + p["id"][1:]
        rec = Recorder()
        ctor_raises = fc["ctor_raises"] if fc else rng.random() < 0.15
        inner = build_ctor(spec, False, rec)
        if inner is None:
            continue

        def ctor(*a, _inner=inner, _raises=ctor_raises, **k):
            r = _inner(*a, **k)
            if _raises:
                raise RuntimeError("user constructor failed")
            return r
        try:
            shape = lab.make_shape(spec, False, ctor)
        except ValueError:
            continue
        optional = [p["id"] for p in spec if p["opt"] != "req"]
        skipped = set(fc["skipped"]) if fc else set(x for x in optional if rng.random() < 0.2)
        trail = fc["trail"] if fc else rng.choice(["DISABLE", "FIRST", "ALL"])

        def field_loader(x):
            if x == -1:
                raise lab.ValueLoadError("bad", x)
            return x
        try:
            loader = lab.make_loader(shape, spec, skipped, False, trail=trail, field_loader=field_loader)
        except ValueError:
            continue
        for _ in range(4 if fc is None else 1):
            states, data = [], {}
            for i, p in enumerate(spec):
                if p["id"] in skipped:
                    continue
                if fc is not None:
                    st = next(s_ for s_ in fc["states"] if s_[0] == p["id"])
                    r = {"failed": 0.0, "absent": 0.3, "loaded": 0.9}[st[1]]
                else:
                    r = rng.random()
                if r < 0.2:
                    states.append([p["id"], "failed", i])
                    data[p["id"]] = -1
                elif r < 0.45:
                    states.append([p["id"], "absent"])
                else:
                    states.append([p["id"], "loaded", 100 + i])
                    data[p["id"]] = 100 + i
            rec.calls.clear()
            try:
                loader(data)
                real = "ok"
            except LoadError:
                real = "load_error"
            except Exception as e:  # noqa: BLE001
                real = "constructor_raised" if rec.calls else f"escaped-{type(e).__name__}"
            calls = len(rec.calls)
            case = {"suite": "load-structure", "spec": spec, "skipped": sorted(skipped), "trail": trail, "states": states,
                    "ctor_raises": ctor_raises}
            n_failed = sum(1 for s_ in states if s_[1] == "failed")
            ctx.note_case(case, nontrivial=n_failed > 0 or real != "ok", kind=f"structure-{trail}-{real}")
            if (real == "ok" and calls != 1) or (real == "load_error" and calls != 0) or calls > 1:
                ctx.fail("call:constructor-call-count", f"load outcome {real} with {calls} constructor invocations "
                         f"(trail {trail}, field states {states})", case)
            requests.append({"op": "load_model", "fix": True, "shape": shape_json(spec, False), "trail": trail,
                             "cfg": {"skipped": sorted(skipped), "use_default": True, "extra_move": "none"},
                             "dflt": [[p["id"], dflt_marker(i, p)] for i, p in enumerate(spec) if dflt_marker(i, p) is not None],
                             "extra": [], "fields": states, "ctor_raises": ctor_raises})
            metas.append((case, {"outcome": real, "calls": calls}))
    replies = drv.batch(requests) if drv else []
    n = d = 0
    for (case, real), rep in zip(metas, replies):
        n += 1
        m = rep.get("ok")
        model = {"outcome": m["outcome"]["r"], "calls": m["calls"]} if m else rep
        if model != real:
            d += 1
            ctx.disagree("load-structure", case, real, model)
    if drv:
        ctx.suite("load-structure", n, d)


# ---------------------------------------------------------------------------
# decoding of recorded values (replay)
# ---------------------------------------------------------------------------

_OPAQUE_MAKERS = {
    "Decimal": lambda eq: Decimal(eq if eq is not None else "2.5"),
    "Fraction": lambda eq: Fraction(eq) if eq is not None else Fraction(1, 3),
    "complex": lambda eq: complex(eq if eq is not None else 2j),
    "Color": lambda eq: Color(eq if eq is not None else 2),
    "Perm": lambda eq: Perm(eq if eq is not None else 3),
    "Plain": lambda eq: Plain.A,
    "MyInt": lambda eq: MyInt(eq if eq is not None else 7),
    "MyFloat": lambda eq: MyFloat(eq if eq is not None else 2.5),
    "MyStr": lambda eq: MyStr("s"),
    "MyList": lambda eq: MyList([1]),
    "MyTuple": lambda eq: MyTuple((1,)),
    "Unhashable": lambda eq: Unhashable(),
    "function": lambda eq: _user_function,
    "object": lambda eq: object(),
}
_CLS_BY_NAME = {"NoneType": type(None), "Decimal": Decimal, "Fraction": Fraction, "Color": Color, "Opaque": Opaque,
                "MyList": MyList, "OrderedDict": __import__("collections").OrderedDict, "deque": __import__("collections").deque}


def dec(j):
    t = j["t"]
    if t == "none":
        return None
    if t == "bool":
        return j["v"]
    if t in ("int", "str", "bytes", "bytearray", "float"):
        return dec_atom(j)
    if t == "list":
        return [dec(x) for x in j["xs"]]
    if t == "tuple":
        return tuple(dec(x) for x in j["xs"])
    if t == "set":
        return {dec(x) for x in j["xs"]}
    if t == "frozenset":
        return frozenset(dec(x) for x in j["xs"])
    if t == "dict":
        return {dec(k): dec(v) for k, v in j["kvs"]}
    if t == "slice":
        return slice(dec(j["a"]), dec(j["b"]), dec(j["c"]))
    if t == "range":
        return range(j["a"], j["b"], j["c"])
    if t == "builtin":
        return getattr(builtins, j["n"])
    if t == "cls":
        return _CLS_BY_NAME.get(j["n"], Opaque)
    mk = _OPAQUE_MAKERS.get(j["cls"])
    return mk(j.get("eq")) if mk else Opaque(j["cls"])


# ---------------------------------------------------------------------------
# entry points
# ---------------------------------------------------------------------------

PLAN_OPTS = ["req", "value", "nodefault"]


def same_shape_classes_suite(ctx: Ctx, n: int):
    """"the constructor is called": several DIFFERENT model classes of identical name and structure in ONE retort (classes made by a
    factory function, functional NamedTuple / TypedDict, a re-defined class) whose defaults are look-alikes (1 / True / 1.0 /
    Decimal('1') / an IntEnum member): every load builds an instance of the REQUESTED class through its own constructor and an
    omitted field holds that class's own default"""
    import collections
    import decimal
    import typing

    from adaptix import Retort

    class Lvl(enum.IntEnum):
        ONE = 1
    lookalikes = [1, True, 1.0, decimal.Decimal("1"), Lvl.ONE, 0, False, "", None, (1, 2), (1.0, 2.0), (True, 2)]
    rng = ctx.rng

    def make(kind, dflt, registry):
        if kind == "namedtuple":
            return collections.namedtuple("Same", ["r", "x"], defaults=[dflt])
        if kind == "typing-namedtuple":
            return typing.NamedTuple("Same", [("r", int), ("x", typing.Any)])
        if kind == "class":
            class Same:
                def __init__(self, r: int, x: typing.Any = dflt):
                    registry.append(self)
                    self.r, self.x = r, x
            return Same
        if kind == "typeddict":
            return typing.TypedDict("Same", {"r": int, "x": typing.NotRequired[typing.Any]})
        import attrs
        return attrs.make_class("Same", {"r": attrs.field(type=int), "x": attrs.field(type=typing.Any, default=dflt)})
    for i in range(n):
        kind = rng.choice(["namedtuple", "class", "attrs", "typeddict", "typing-namedtuple"])
        k = rng.randint(2, 3)
        dflts = rng.sample(lookalikes, k)
        retort = Retort()
        regs = [[] for _ in range(k)]
        classes = [make(kind, d, regs[j]) for j, d in enumerate(dflts)]
        order = list(range(k)) + [rng.randrange(k) for _ in range(2)]
        case = {"suite": "same-shape-classes", "kind": kind, "defaults": [repr(d) for d in dflts], "order": order}
        ctx.note_case(case, nontrivial=True, kind=f"same-shape-classes:{kind}")
        for step, j in enumerate(order):
            cls = classes[j]
            before = len(regs[j])
            try:
                obj = retort.load({"r": 1}, cls)
            except Exception as e:  # noqa: BLE001
                ctx.dist[f"same-shape-classes:{kind}:raises-{type(e).__name__}"] += 1
                break
            if kind == "typeddict":
                if "x" in obj:
                    ctx.fail("call:foreign-constructor", f"TypedDict twin #{j}: omitted key appears in {obj!r}", case)
                    break
                continue
            if type(obj) is not cls:
                ctx.fail("call:foreign-constructor", f"step {step}: load(_, class #{j} of {k} same-named {kind} models) returns an instance "
                         f"of another class (order {order})", case)
                break
            if kind in ("namedtuple", "class", "attrs") and not py_same(obj.x, dflts[j]):
                ctx.fail("default:omitted-field-other-value:same-shape-class", f"step {step}: omitted field of class #{j} holds {obj.x!r} "
                         f"({type(obj.x).__name__}); its declared default is {dflts[j]!r} ({type(dflts[j]).__name__}); other same-named "
                         f"classes in the retort declare {[repr(d) for d in dflts]}", case)
                break
            if kind == "class" and len(regs[j]) != before + 1:
                ctx.fail("call:foreign-constructor", f"step {step}: the constructor of class #{j} ran {len(regs[j]) - before} times", case)
                break


def run(ctx: Ctx):
    same_shape_classes_suite(ctx, ctx.budget(120, 2000))
    drv = None
    if ctx.driver_ok:
        try:
            drv = Driver("drv_c08")
        except InfraError:
            drv = None
    lab = ShapeLab()
    rng = ctx.rng
    thorough = ctx.tier == "thorough"
    # defaults
    suite_literals(ctx, drv, fixed_zoo())
    suite_literals(ctx, drv, [rand_value(rng, rng.choice([1, 2, 3, 4])) for _ in range(ctx.budget(4000, 60000))])
    suite_factories(ctx, drv)
    suite_e2e_defaults(ctx, drv, default_cases(rng, 0), 5)          # the whole zoo on every model kind
    suite_e2e_defaults(ctx, drv, [("value", rand_value(rng, 3)) for _ in range(ctx.budget(150, 4000))], ctx.budget(3, 5))
    # constructor call (the public model kinds first, so that a reported failing input is a public-API one)
    suite_kinds(ctx, drv, ctx.budget(420, 8000))
    max_n = 5 if thorough else 4
    for n in range(1, max_n + 1):
        run_plan_cases(ctx, drv, lab, list(gen_specs_exhaustive(n, PLAN_OPTS)), rng, max_skip_sets=8 if n <= 4 else 3,
                       with_kwargs_every=3)
    run_plan_cases(ctx, drv, lab, list(gen_specs_exhaustive(2, FIELD_OPTS)), rng, max_skip_sets=4, with_kwargs_every=2)
    run_plan_cases(ctx, drv, lab, [rand_spec(rng, rng.randint(3, 6)) for _ in range(ctx.budget(500, 8000))], rng,
                   max_skip_sets=3, with_kwargs_every=4)
    suite_load_structure(ctx, drv, lab, ctx.budget(300, 5000))
    ctx.extra["exhaustive"] = False
    ctx.extra["exhaustive_part"] = (f"call-plan / py-binding / shape-validate: every kind layout of <= {max_n} parameters x "
                                    f"{{required, default value, no passable default}} x skipped sets x presence subsets")


def search(ctx: Ctx):
    """a tie broke and the oracle has not failed yet: the disagreeing cases first, then a larger budget, oracle only"""
    for dgr in ctx.disagreements[:300]:
        try:
            replay(ctx, dgr["case"])
        except Exception:  # noqa: BLE001
            continue
        if ctx.failures:
            return
    lab = ShapeLab()
    rng = ctx.rng
    suite_literals(ctx, None, fixed_zoo() + [rand_value(rng, rng.choice([2, 3, 4, 5])) for _ in range(30000)])
    suite_factories(ctx, None)
    if ctx.failures:
        return
    suite_e2e_defaults(ctx, None, default_cases(rng, 1500), 5)
    if ctx.failures:
        return
    run_plan_cases(ctx, None, lab, list(gen_specs_exhaustive(3, FIELD_OPTS)), rng, max_skip_sets=8, with_kwargs_every=3)
    run_plan_cases(ctx, None, lab, [rand_spec(rng, rng.randint(3, 7)) for _ in range(3000)], rng, max_skip_sets=4,
                   with_kwargs_every=4)
    suite_kinds(ctx, None, 3000)
    suite_load_structure(ctx, None, lab, 1500)


def replay(ctx: Ctx, case) -> bool:
    before = len(ctx.failures)
    suite = case.get("suite")
    if suite in ("literal-expr", "literal-eval"):
        suite_literals(ctx, None, [dec(case["v"])])
    elif suite == "factory-literal":
        suite_factories(ctx, None)
    elif suite in ("call-plan", "py-binding", "shape-validate"):
        if "present" in case:
            lab = ShapeLab()
            run_plan_cases(ctx, None, lab, [case["spec"]], ctx.rng, max_skip_sets=64,
                           with_kwargs_every=1 if case.get("kwargs") else 0)
    elif suite == "kind-shapes":
        suite_kinds(ctx, None, 1, forced=[(case["kind"], case["fdescs"], case.get("skip", []))])
    elif suite in ("e2e-defaults", "default-clause", "ns-constant"):
        suite_e2e_defaults(ctx, None, [(case["mode"], dec(case["d"]))], 5, only_kind=case["kind"])
    elif suite == "load-structure":
        suite_load_structure(ctx, None, ShapeLab(), 1, forced=[case])
    else:
        return False
    return len(ctx.failures) > before
