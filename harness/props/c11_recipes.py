"""C11 — state inside the objects of a recipe (real code only).

A retort is immutable and its answers depend only on how it was constructed.  The providers of the recipe are
ordinary Python objects that are *shared* by the retort and by every retort made from it with replace() / extend():
anything a provider (or the predicate guarding it) remembers from one request to the next is call history that
survives `_calculate_derived`.  This suite therefore runs histories over retorts whose recipes are built from
**every public provider factory** (adaptix, adaptix.conversion, adaptix.integrations.pydantic) in all its argument
forms - in particular 0, 1, 2 and 3 predicates where a factory takes `*preds`, several types in one pattern
(`P[A, B]`), combined patterns (`|`, `&`, `^`, `~`), field-name strings and field patterns - and compares every
facade call with the same call on a never-used retort built from the same recipe *specification* (hence from
fresh provider objects).

A case is JSON: {"suite": "recipe-state", "world": "morph" | "conv", "cfg": {...}, "history": [...]}; every
provider is named by a specification (`{"f": factory, "preds": [...], ...}`) that `World.provider` turns into a
new object each time it is called.
"""

import re
import warnings
from collections import defaultdict
from dataclasses import dataclass, field
from datetime import date, datetime, timezone
from enum import Enum, Flag, IntEnum
from typing import Callable, DefaultDict, Dict, List, Optional

from harness.core import Ctx, canon

# ---------------------------------------------------------------------------
# the pool of types (module level: stable names in replays)
# ---------------------------------------------------------------------------


class Color(Enum):
    RED = 1
    GREEN = 2


class Size(Enum):          # same values as Color, other names
    SMALL = 1
    BIG = 2


class Mood(Enum):          # names of Color / Size, str values
    RED = "red"
    BIG = "big"


class Level(IntEnum):
    LOW = 1
    HIGH = 2


class Perm(Flag):
    R = 1
    W = 2
    X = 4


class Opt(Flag):
    A = 1
    B = 2


@dataclass
class Item:
    color: Color
    size: Size
    n: int = 0

    @property
    def double_n(self):
        return self.n * 2


@dataclass
class Box:
    item: Item
    perm: Perm
    colors: List[Color]
    level_: Level = Level.LOW


@dataclass
class Ev:
    at: datetime
    on: date
    counts: DefaultDict[str, int] = field(default_factory=lambda: defaultdict(int))


class Weird:               # nothing produces a loader or a dumper for it
    __slots__ = ()


@dataclass
class Src:
    a: int
    b: int


@dataclass
class Src2:
    a: int
    b: int
    c: int = 7


@dataclass
class Dst:
    a: int
    b: int
    c: Optional[int] = None


@dataclass
class Dst2:
    a: int
    d: Optional[str] = None
    e: Optional[int] = None


@dataclass
class DstWrap:
    inner: Dst
    e: Optional[int] = None


@dataclass
class SrcWrap:
    inner: Src


def _pydantic_models():
    from pydantic import BaseModel

    class PydA(BaseModel):
        x: int

    class PydB(BaseModel):
        x: int
        y: str = "d"

    return PydA, PydB


UTC = timezone.utc
_ADDR = re.compile(r" at 0x[0-9a-fA-F]+")

FUNCS = {
    "f0": lambda v: ("user", 0, v), "f1": lambda v: ("user", 1, v), "f2": lambda v: ("user", 2, v),
    "pos": lambda v: isinstance(v, int) and v >= 0, "truthy": bool,
    "mk_item": lambda color, n=5: Item(color, Size.BIG, n),
    "seven": lambda: 7, "lst": list,
    "inc": lambda x: x + 1, "neg": lambda x: -x, "tostr": str,
    "sum_ab": lambda src: src.a + src.b,
}


class World:
    """Types, data and provider factories of one flavour of retort ("morph": Retort, "conv": ConversionRetort)."""

    ENUMS = ["Color", "Size", "Mood", "Level"]
    FLAGS = ["Perm", "Opt"]
    MODELS = ["Item", "Box", "Ev"]
    PYD = ["PydA", "PydB"]
    TIME = ["datetime", "date"]
    PLAIN = ["int", "str", "ListInt"]
    FAILING = ["Callable", "Weird", "ListWeird"]

    def __init__(self):
        import adaptix
        from adaptix import conversion
        from adaptix.integrations.pydantic import native_pydantic
        self.ax, self.cv, self.native_pydantic = adaptix, conversion, native_pydantic
        self.PydA, self.PydB = _pydantic_models()
        self.T = {
            "Color": Color, "Size": Size, "Mood": Mood, "Level": Level, "Perm": Perm, "Opt": Opt,
            "Item": Item, "Box": Box, "Ev": Ev, "PydA": self.PydA, "PydB": self.PydB,
            "datetime": datetime, "date": date, "DDict": DefaultDict[str, int],
            "int": int, "str": str, "ListInt": List[int], "ListColor": List[Color], "OptSize": Optional[Size],
            "DictStrMood": Dict[str, Mood], "ListPerm": List[Perm],
            "Callable": Callable[[int], int], "Weird": Weird, "ListWeird": List[Weird],
            "Src": Src, "Src2": Src2, "Dst": Dst, "Dst2": Dst2, "SrcWrap": SrcWrap, "DstWrap": DstWrap,
        }
        item1 = {"color": 1, "size": 2, "n": 1}
        item2 = {"color": "RED", "size": "BIG", "n": 2}
        self.load_data = {
            "Color": [1, "RED", 2, "GREEN", "red", "1", None, ["RED"], True, "2"], "Size": [1, "BIG", "big", 2, "SMALL", "1", True],
            "Mood": ["red", "RED", "big", 1], "Level": [1, "LOW", "low", 2, "1", True],
            "Perm": [1, 3, ["R"], ["R", "W"], "R", 8, ["r"], ["R", "R"]], "Opt": [1, ["A"], ["A", "B"], 3, "B"],
            "Item": [item1, item2, {"color": "RED", "size": 2}, {"Color": 1, "Size": 1, "N": 2}, [1, 2, 3],
                     {"color": 1, "size": 1, "n": -1, "extra": 1}, {"color": 2, "n": 4}],
            "Box": [{"item": item1, "perm": 3, "colors": [1, 2], "level_": 1},
                    {"item": item2, "perm": ["R"], "colors": ["RED"], "level": "LOW"},
                    {"item": item1, "perm": 1, "colors": []}],
            "Ev": [{"at": "2020-01-01T00:00:00+00:00", "on": "2020-01-02", "counts": {"a": 1}},
                   {"at": 0, "on": 0, "counts": {}}, {"at": "01/02/20 03:04", "on": "2020-01-02"}],
            "datetime": ["2020-01-01T00:00:00+00:00", 0, 1577836800.5, "01/02/20 03:04"],
            "date": ["2020-01-02", 0, 86400], "DDict": [{"a": 1}, {}, []],
            "PydA": [{"x": 1}, {"x": "1"}, {"x": "a"}], "PydB": [{"x": 1}, {"x": "2", "y": "z"}, {"x": 1, "y": 3}],
            "int": [1, "1", True, -2], "str": ["a", 1], "ListInt": [[1, 2], ["1"], 3],
            "ListColor": [[1, 2], ["RED"], [], ["RED", 2]], "OptSize": [None, 1, "BIG"],
            "DictStrMood": [{"k": "red"}, {"k": "RED"}], "ListPerm": [[1, 2], [["R"], ["W", "X"]]],
            "Callable": [1], "Weird": [1], "ListWeird": [[1]],
        }
        item = lambda: Item(Color.RED, Size.BIG, 3)  # noqa: E731
        dd = lambda: defaultdict(int, {"a": 1})  # noqa: E731
        self.dump_vals = {
            "Color": {"Color.RED": lambda: Color.RED, "Color.GREEN": lambda: Color.GREEN, "Size.BIG": lambda: Size.BIG},
            "Size": {"Size.BIG": lambda: Size.BIG, "Size.SMALL": lambda: Size.SMALL},
            "Mood": {"Mood.RED": lambda: Mood.RED, "Mood.BIG": lambda: Mood.BIG},
            "Level": {"Level.HIGH": lambda: Level.HIGH, "1": lambda: 1},
            "Perm": {"R|W": lambda: Perm.R | Perm.W, "X": lambda: Perm.X, "0": lambda: Perm(0), "RWX": lambda: Perm(7)},
            "Opt": {"A": lambda: Opt.A, "A|B": lambda: Opt.A | Opt.B},
            "Item": {"item": item, "item0": lambda: Item(Color.GREEN, Size.SMALL)},
            "Box": {"box": lambda: Box(item(), Perm.R | Perm.X, [Color.GREEN, Color.RED], Level.HIGH),
                    "box0": lambda: Box(Item(Color.GREEN, Size.SMALL), Perm(0), [])},
            "Ev": {"ev": lambda: Ev(datetime(2020, 1, 1, tzinfo=UTC), date(2020, 1, 2), dd())},
            "datetime": {"dt": lambda: datetime(2020, 1, 1, 3, 4, tzinfo=UTC), "naive": lambda: datetime(2020, 1, 1, 3, 4)},
            "date": {"d": lambda: date(2020, 1, 2)}, "DDict": {"dd": dd},
            "PydA": {"a": lambda: self.PydA(x=1)}, "PydB": {"b": lambda: self.PydB(x=2, y="z")},
            "int": {"1": lambda: 1, "a": lambda: "a"}, "str": {"a": lambda: "a"}, "ListInt": {"l": lambda: [1, 2]},
            "ListColor": {"l": lambda: [Color.RED, Color.GREEN], "e": list}, "OptSize": {"none": lambda: None, "big": lambda: Size.BIG},
            "DictStrMood": {"d": lambda: {"k": Mood.RED}}, "ListPerm": {"l": lambda: [Perm.R, Perm.W | Perm.X]},
            "Callable": {"1": lambda: 1}, "Weird": {"1": lambda: 1}, "ListWeird": {"l": lambda: [1]},
        }
        self.conv_vals = {
            "Src": {"s": lambda: Src(1, 2)}, "Src2": {"s2": lambda: Src2(1, 2, 3)}, "SrcWrap": {"sw": lambda: SrcWrap(Src(4, 5))},
        }
        self.conv_pairs = [("Src", "Dst"), ("Src", "Dst2"), ("Src2", "Dst"), ("Src2", "Dst2"), ("SrcWrap", "DstWrap"),
                           ("Src", "Src2"), ("Src", "Src")]
        self.fields = {"Item": ["color", "size", "n"], "Box": ["item", "perm", "colors", "level_"],
                       "Ev": ["at", "on", "counts"], "Dst": ["a", "b", "c"], "Dst2": ["a", "d", "e"], "Src": ["a", "b"],
                       "Src2": ["a", "b", "c"], "DstWrap": ["inner", "e"], "SrcWrap": ["inner"]}

    # -- predicates ---------------------------------------------------------------------------------------------
    def lsc(self, spec):
        return self.ax.create_loc_stack_checker(self.pred(spec))

    def pred(self, spec):
        P = self.ax.P
        k = spec[0]
        if k == "t":
            return self.T[spec[1]]
        if k == "s":
            return spec[1]
        if k == "P":
            return P[self.T[spec[1]]]
        if k == "Pt":
            return P[tuple(self.T[n] for n in spec[1])]
        if k == "Pf":
            return getattr(P[self.T[spec[1]]], spec[2])
        if k == "Pa":
            return getattr(P, spec[1])
        if k == "or":
            return self.lsc(spec[1]) | self.lsc(spec[2])
        if k == "and":
            return self.lsc(spec[1]) & self.lsc(spec[2])
        if k == "xor":
            return self.lsc(spec[1]) ^ self.lsc(spec[2])
        if k == "not":
            return ~self.lsc(spec[1])
        if k == "any":
            return P.ANY
        raise KeyError(k)

    def types_of_pred(self, spec, acc):
        k = spec[0]
        if k in ("t", "P"):
            acc.append(spec[1])
        elif k == "Pt":
            acc.extend(spec[1])
        elif k == "Pf":
            acc.append(spec[1])
        elif k in ("or", "and", "xor", "not"):
            for s in spec[1:]:
                self.types_of_pred(s, acc)
        return acc

    # -- providers ------------------------------------------------------------------------------------------------
    def provider(self, s):
        """a NEW provider object for the specification"""
        ax, cv = self.ax, self.cv
        f = s["f"]
        preds = [self.pred(p) for p in s.get("preds", [])]
        chain = {None: None, "FIRST": ax.Chain.FIRST, "LAST": ax.Chain.LAST}[s.get("chain")]
        style = None if s.get("style") is None else ax.NameStyle[s["style"]]
        if f == "loader":
            return ax.loader(preds[0], FUNCS[s["fn"]], chain)
        if f == "dumper":
            return ax.dumper(preds[0], FUNCS[s["fn"]], chain)
        if f == "as_is_loader":
            return ax.as_is_loader(preds[0])
        if f == "as_is_dumper":
            return ax.as_is_dumper(preds[0])
        if f == "validator":
            return ax.validator(preds[0], FUNCS[s["fn"]], s.get("error"), chain or ax.Chain.LAST)
        if f == "constructor":
            return ax.constructor(preds[0], FUNCS[s["fn"]])
        if f == "with_property":
            return ax.with_property(preds[0], s["prop"], *([self.T[s["tp"]]] if s.get("tp") else []))
        if f == "enum_by_name":
            return ax.enum_by_name(*preds, name_style=style, map=s.get("map"))
        if f == "enum_by_exact_value":
            return ax.enum_by_exact_value(*preds)
        if f == "enum_by_value":
            return ax.enum_by_value(*preds, tp=self.T[s["tp"]])
        if f == "flag_by_exact_value":
            return ax.flag_by_exact_value(*preds)
        if f == "flag_by_member_names":
            return ax.flag_by_member_names(*preds, allow_single_value=s.get("single", False), allow_duplicates=s.get("dups", True),
                                           allow_compound=s.get("compound", True), name_style=style, map=s.get("map"))
        if f == "default_dict":
            return ax.default_dict(preds[0], FUNCS[s["fn"]])
        if f == "datetime_by_timestamp":
            return ax.datetime_by_timestamp(*preds, tz=UTC if s.get("tz", True) else None)
        if f == "datetime_by_format":
            return ax.datetime_by_format(*preds, fmt=s["fmt"])
        if f == "date_by_timestamp":
            return ax.date_by_timestamp(*preds)
        if f == "bound":
            return ax.bound(preds[0], self.provider(s["inner"]))
        if f == "native_pydantic":
            return self.native_pydantic(*preds, **s.get("kw", {}))
        if f == "name_mapping":
            kw = {}
            for key in ("skip", "only", "omit_default"):
                if key in s:
                    v = s[key]
                    kw[key] = v if isinstance(v, bool) else [self.pred(p) for p in v] if s.get(key + "_list", True) else self.pred(v[0])
            if "map" in s:
                m = s["map"]
                kw["map"] = m if isinstance(m, dict) else [(self.pred(p), v) for p, v in m]
            for key in ("as_list", "trim_trailing_underscore"):
                if key in s:
                    kw[key] = s[key]
            if "style" in s:
                kw["name_style"] = style
            if "extra_in" in s:
                kw["extra_in"] = {"skip": ax.ExtraSkip(), "forbid": ax.ExtraForbid()}[s["extra_in"]]
            if "chain" in s:
                kw["chain"] = chain
            return ax.name_mapping(*preds, **kw)
        # conversion
        if f == "link":
            return cv.link(preds[0], preds[1], **({"coercer": FUNCS[s["fn"]]} if s.get("fn") else {}))
        if f == "link_constant":
            return cv.link_constant(preds[0], **({"factory": FUNCS[s["factory"]]} if s.get("factory") else {"value": s.get("value")}))
        if f == "link_function":
            return cv.link_function(FUNCS[s["fn"]], preds[0])
        if f == "coercer":
            return cv.coercer(preds[0], preds[1], FUNCS[s["fn"]])
        if f == "allow_unlinked_optional":
            return cv.allow_unlinked_optional(*preds)
        if f == "forbid_unlinked_optional":
            return cv.forbid_unlinked_optional(*preds)
        raise KeyError(f)

    def recipe(self, specs):
        return [self.provider(s) for s in specs]

    # -- retorts ----------------------------------------------------------------------------------------------------
    def make(self, world, cfg):
        if world == "conv":
            return self.cv.ConversionRetort(recipe=self.recipe(cfg["recipe"]))
        return self.ax.Retort(strict_coercion=cfg["strict"], debug_trail=self.ax.DebugTrail[cfg["trail"]],
                              recipe=self.recipe(cfg["recipe"]))

    @staticmethod
    def outcome(fn):
        def tree(e):
            return [type(e).__name__, [tree(x) for x in getattr(e, "exceptions", ())]]
        try:
            return ["ok", _ADDR.sub("", repr(fn()))]
        except RecursionError:
            return ["err", ["RecursionError", []]]
        except Exception as e:  # noqa: BLE001  the kind of failure is part of the outcome
            return ["err", tree(e)]

    def call(self, retort, c, keep=None):
        T, k = self.T, c["k"]
        if k == "get_loader":
            def go():
                fn = retort.get_loader(T[c["t"]])
                if keep is not None:
                    keep.append(("load", c["t"], fn))
            return self.outcome(go)
        if k == "get_dumper":
            def go():
                fn = retort.get_dumper(T[c["t"]])
                if keep is not None:
                    keep.append(("dump", c["t"], fn))
            return self.outcome(go)
        if k == "load":
            return self.outcome(lambda: retort.load(c["v"], T[c["t"]]))
        if k == "dump":
            return self.outcome(lambda: retort.dump(self.dump_vals[c["t"]][c["v"]](), T[c["t"]]))
        if k == "get_converter":
            return self.outcome(lambda: (retort.get_converter(T[c["s"]], T[c["d"]]), None)[1])
        if k == "convert_via_get":
            return self.outcome(lambda: retort.get_converter(T[c["s"]], T[c["d"]])(self.conv_vals[c["s"]][c["v"]]()))
        if k == "convert":
            return self.outcome(lambda: retort.convert(self.conv_vals[c["s"]][c["v"]](), T[c["d"]]))
        raise KeyError(k)


# ---------------------------------------------------------------------------
# generators
# ---------------------------------------------------------------------------

class Gen:
    """Specifications of predicates, providers, recipes and histories from one PRNG."""

    MORPH_FACTORIES = ["loader", "dumper", "as_is_loader", "as_is_dumper", "validator", "constructor", "with_property",
                       "enum_by_name", "enum_by_exact_value", "enum_by_value", "flag_by_exact_value", "flag_by_member_names",
                       "default_dict", "datetime_by_timestamp", "datetime_by_format", "date_by_timestamp", "bound",
                       "native_pydantic", "name_mapping"]
    CONV_FACTORIES = ["link", "link_constant", "link_function", "coercer", "allow_unlinked_optional", "forbid_unlinked_optional"]
    VARIADIC = {"enum_by_name": 0, "enum_by_exact_value": 0, "enum_by_value": 1, "flag_by_exact_value": 0,
                "flag_by_member_names": 0, "native_pydantic": 0, "allow_unlinked_optional": 0, "forbid_unlinked_optional": 0}
    # where the types a factory is about occur as fields
    FIELD_SITES = {"Color": [("Item", "color")], "Size": [("Item", "size")], "Level": [("Box", "level_")],
                   "Perm": [("Box", "perm")], "datetime": [("Ev", "at")], "date": [("Ev", "on")], "DDict": [("Ev", "counts")],
                   "Item": [("Box", "item")], "int": [("Item", "n")]}

    def __init__(self, world: World, rng):
        self.w, self.rng = world, rng
        self.n_discriminating = 0      # (type, direction) sweeps of clone histories with a probe that tells the two configurations apart

    # -- predicates ---------------------------------------------------------------------------------------------------
    def simple_pred(self, fam, decoys):
        """one predicate about a type of the family (or, seldom, a decoy), in one of the spellings of the predicate system"""
        rng = self.rng
        t = rng.choice(fam) if rng.random() < 0.85 else rng.choice(decoys)
        r = rng.random()
        sites = self.FIELD_SITES.get(t, [])
        if r < 0.45 or (not sites and r < 0.7):
            return ["t", t]
        if r < 0.6:
            return ["P", t]
        if sites and r < 0.75:
            return ["s", rng.choice(sites)[1]]
        if sites and r < 0.9:
            m, f = rng.choice(sites)
            return ["Pf", m, f]
        if sites:
            return ["Pa", rng.choice(sites)[1]]
        return ["P", t]

    def pred(self, fam, decoys, multi=0.35):
        """a predicate; with probability `multi` one that names several types / combines several predicates"""
        rng = self.rng
        if rng.random() >= multi:
            return self.simple_pred(fam, decoys)
        r = rng.random()
        if r < 0.35:
            k = rng.choice([2, 2, 3])
            return ["Pt", [rng.choice(fam + decoys[:1]) if i else rng.choice(fam) for i in range(k)]]
        if r < 0.65:
            return ["or", self.simple_pred(fam, decoys), self.simple_pred(fam, decoys)]
        if r < 0.8:
            return ["and", self.simple_pred(fam, decoys), ["not", self.simple_pred(fam, decoys)]]
        if r < 0.9:
            return ["xor", self.simple_pred(fam, decoys), self.simple_pred(fam, decoys)]
        return ["not", self.simple_pred(decoys, fam)]

    def preds(self, factory, fam, decoys, k=None):
        """the `*preds` of a variadic factory: 0 (where allowed), 1, 2 or 3 predicates"""
        rng = self.rng
        lo = self.VARIADIC[factory]
        if k is None:
            k = rng.choice([0, 1, 2, 2, 3, 3])
        k = max(k, lo)
        return [self.pred(fam, decoys, multi=0.2) for _ in range(k)]

    # -- providers ------------------------------------------------------------------------------------------------------
    def provider(self, f, k=None):
        rng, W = self.rng, World
        generic = W.ENUMS + W.FLAGS + ["int", "str", "Item"]
        if f in ("loader", "dumper"):
            fam = rng.choice([W.ENUMS, W.FLAGS, ["int", "str"], ["Item", "Box"], W.TIME])
            return {"f": f, "preds": [self.pred(fam, generic, multi=0.5)], "fn": rng.choice(["f0", "f1", "f2"]),
                    "chain": rng.choice([None, None, "FIRST", "LAST"])}
        if f in ("as_is_loader", "as_is_dumper"):
            return {"f": f, "preds": [self.pred(rng.choice([W.ENUMS, W.FLAGS, W.TIME]), generic, multi=0.5)]}
        if f == "validator":
            return {"f": f, "preds": [self.pred(["int", "Level"], W.ENUMS, multi=0.4)], "fn": rng.choice(["pos", "truthy"]),
                    "error": rng.choice([None, "bad"]), "chain": rng.choice(["FIRST", "LAST"])}
        if f == "constructor":
            return {"f": f, "preds": [self.pred(["Item"], ["Box"], multi=0.3)], "fn": "mk_item"}
        if f == "with_property":
            return {"f": f, "preds": [self.pred(["Item"], ["Box"], multi=0.3)], "prop": "double_n", "tp": rng.choice([None, "int", "str"])}
        if f == "enum_by_name":
            return {"f": f, "preds": self.preds(f, W.ENUMS, ["int", "Perm"], k), "style": rng.choice([None, None, "LOWER", "PASCAL"]),
                    "map": rng.choice([None, None, {"RED": "r", "BIG": "b"}])}
        if f == "enum_by_exact_value":
            return {"f": f, "preds": self.preds(f, W.ENUMS, ["int", "Perm"], k)}
        if f == "enum_by_value":
            return {"f": f, "preds": self.preds(f, W.ENUMS, ["int", "Perm"], k), "tp": rng.choice(["int", "str", "Level"])}
        if f == "flag_by_exact_value":
            return {"f": f, "preds": self.preds(f, W.FLAGS, ["int", "Color"], k)}
        if f == "flag_by_member_names":
            return {"f": f, "preds": self.preds(f, W.FLAGS, ["int", "Color"], k), "single": rng.random() < 0.5,
                    "dups": rng.random() < 0.5, "compound": rng.random() < 0.5, "style": rng.choice([None, "LOWER"]),
                    "map": rng.choice([None, {"R": "read"}])}
        if f == "default_dict":
            return {"f": f, "preds": [self.pred(["DDict"], ["Ev"], multi=0.2)], "fn": rng.choice(["seven", "lst"])}
        if f == "datetime_by_timestamp":
            return {"f": f, "preds": [] if rng.random() < 0.3 else [self.pred(["datetime"], ["date", "int"], multi=0.3)], "tz": rng.random() < 0.7}
        if f == "datetime_by_format":
            return {"f": f, "preds": [] if rng.random() < 0.3 else [self.pred(["datetime"], ["date", "int"], multi=0.3)],
                    "fmt": rng.choice(["%d/%m/%y %H:%M", "%Y"])}
        if f == "date_by_timestamp":
            return {"f": f, "preds": [] if rng.random() < 0.3 else [self.pred(["date"], ["datetime", "int"], multi=0.3)]}
        if f == "bound":
            inner = self.provider(rng.choice(["enum_by_name", "enum_by_exact_value", "flag_by_member_names", "flag_by_exact_value",
                                              "native_pydantic", "datetime_by_timestamp"]), k=rng.choice([0, 0, 2]))
            fam = {"enum": W.ENUMS, "flag": W.FLAGS, "nati": W.PYD, "date": W.TIME}[inner["f"][:4]]
            return {"f": f, "preds": [self.pred(fam, generic, multi=0.6)], "inner": inner}
        if f == "native_pydantic":
            kw = rng.choice([{}, {}, {"strict": True}, {"mode": "json"}, {"exclude_defaults": True}])
            return {"f": f, "preds": self.preds(f, W.PYD, ["Item", "int"], k), "kw": kw}
        if f == "name_mapping":
            s = {"f": f, "preds": [] if rng.random() < 0.3 else [self.pred(["Item", "Box"], ["Ev"], multi=0.4)]}
            field_fam = ["n", "size", "color", "perm", "level_", "colors"]
            fp = lambda: rng.choice([["s", rng.choice(field_fam)], ["t", rng.choice(["int", "Size", "Perm"])],  # noqa: E731
                                     ["Pf", "Item", rng.choice(["n", "size"])], ["Pf", "Box", rng.choice(["perm", "level_"])]])
            for key in ("skip", "only", "omit_default"):
                if rng.random() < (0.35 if key != "only" else 0.15):
                    if key == "omit_default" and rng.random() < 0.3:
                        s[key] = rng.random() < 0.5
                    else:
                        n = rng.choice([1, 2, 2, 3])
                        s[key] = [fp() for _ in range(n)]
                        # a lone predicate may be passed bare - unless it is an Enum class, which is itself iterable
                        s[key + "_list"] = n > 1 or rng.random() < 0.5 or s[key][0] in (["t", "Size"], ["t", "Perm"])
            r = rng.random()
            if r < 0.2:
                s["map"] = {"n": "count", "color": "colour"}
            elif r < 0.4:
                s["map"] = [[fp(), rng.choice(["x", "y"])] for _ in range(rng.choice([1, 2]))]
            if rng.random() < 0.2:
                s["as_list"] = True
            if rng.random() < 0.3:
                s["trim_trailing_underscore"] = rng.random() < 0.5
            if rng.random() < 0.3:
                s["style"] = rng.choice(["UPPER", "PASCAL", "CAMEL"])
            if rng.random() < 0.3:
                s["extra_in"] = rng.choice(["skip", "forbid"])
            if rng.random() < 0.2:
                s["chain"] = rng.choice([None, "FIRST", "LAST"])
            return s
        # conversion
        dst_field = lambda: rng.choice([["Pf", "Dst", rng.choice(["a", "b", "c"])], ["Pf", "Dst2", rng.choice(["d", "e", "a"])],  # noqa: E731
                                        ["s", rng.choice(["c", "d", "e", "b"])], ["Pf", "DstWrap", "e"], ["t", "Dst"], ["t", "Dst2"],
                                        ["Pa", rng.choice(["c", "e"])]])
        src_field = lambda: rng.choice([["Pf", "Src", rng.choice(["a", "b"])], ["Pf", "Src2", rng.choice(["a", "c"])],  # noqa: E731
                                        ["s", rng.choice(["a", "b", "c"])]])
        if f == "link":
            return {"f": f, "preds": [src_field(), dst_field()], "fn": rng.choice([None, "inc", "tostr"])}
        if f == "link_constant":
            return {"f": f, "preds": [dst_field()], **rng.choice([{"value": 5}, {"value": None}, {"factory": "seven"}])}
        if f == "link_function":
            return {"f": f, "preds": [dst_field()], "fn": "sum_ab"}
        if f == "coercer":
            return {"f": f, "preds": [rng.choice([["t", "int"], ["Pf", "Src", "a"], ["s", "b"]]),
                                      rng.choice([["t", "int"], ["t", "str"], ["Pf", "Dst", "b"], ["P", "int"]])],
                    "fn": rng.choice(["inc", "neg", "tostr"])}
        if f in ("allow_unlinked_optional", "forbid_unlinked_optional"):
            k = rng.choice([0, 1, 2, 2, 3, 3]) if k is None else k
            return {"f": f, "preds": [dst_field() for _ in range(k)]}
        raise KeyError(f)

    # -- which calls are worth making for a recipe ---------------------------------------------------------------------------
    def relevant_types(self, recipe):
        """types named by the predicates, their family, the models containing them, two plain types and a failing one"""
        W, rng = World, self.rng
        named: list = []

        def walk(s):
            for p in s.get("preds", []):
                self.w.types_of_pred(p, named)
            if "inner" in s:
                walk(s["inner"])
        for s in recipe:
            walk(s)
            f = s["f"] if s["f"] != "bound" else s["inner"]["f"]
            named += {"enum": W.ENUMS, "flag": W.FLAGS, "nati": W.PYD, "date": W.TIME, "defa": ["DDict", "Ev"],
                      "name": ["Item", "Box"], "with": ["Item"], "cons": ["Item", "Box"], "vali": ["int", "Item"]}.get(f[:4], [])
        named = [t for t in dict.fromkeys(named) if t in self.w.load_data]
        extra = []
        if set(named) & set(W.ENUMS):
            extra += ["Item", "ListColor", "OptSize", "DictStrMood"]
        if set(named) & set(W.FLAGS):
            extra += ["Box", "ListPerm"]
        if set(named) & set(W.TIME):
            extra += ["Ev"]
        plain = rng.sample(W.PLAIN, 2) + [rng.choice(W.FAILING)]
        return list(dict.fromkeys(named + extra + plain))

    def morph_call(self, t, kind=None):
        rng, w = self.rng, self.w
        kind = kind or rng.choice(["get_loader", "load", "load", "get_dumper", "dump", "dump"])
        if kind == "load":
            return {"k": "load", "t": t, "v": rng.choice(w.load_data[t])}
        if kind == "dump":
            return {"k": "dump", "t": t, "v": rng.choice(list(w.dump_vals[t]))}
        return {"k": kind, "t": t}

    def sweep(self, types, i, per=2, cheap_only_extra=False):
        """`per` loads and dumps of every type (`cheap_only_extra`: a single one for the models, whose loaders are
        generated code)"""
        ops = []
        w, rng = self.w, self.rng
        for t in types:
            n = 1 if cheap_only_extra and t in World.MODELS + World.PYD else per
            data = w.load_data[t]
            for v in (data if len(data) <= n else rng.sample(data, n)):
                ops.append({"op": "call", "i": i, "c": {"k": "load", "t": t, "v": v}})
            labels = list(w.dump_vals[t])
            for v in (labels if len(labels) <= n else rng.sample(labels, n)):
                ops.append({"op": "call", "i": i, "c": {"k": "dump", "t": t, "v": v}})
        return ops

    def sweep_between(self, types, cfg_a, cfg_b, i, per=2):
        """Like `sweep`, but prefers the calls that never-used retorts of the two configurations answer differently: only
        those can show that the configuration of one retort leaked into the other through an object they share.  The two
        scratch retorts serve the selection only; the oracle's reference stays a never-used retort per call."""
        w, rng = self.w, self.rng
        ra, rb = w.make("morph", cfg_a), w.make("morph", cfg_b)
        ops = []
        for t in types:
            n = 1 if t in World.MODELS + World.PYD else per
            for kind, values in (("load", list(w.load_data[t])), ("dump", list(w.dump_vals[t]))):
                rng.shuffle(values)
                differ = [v for v in values if w.call(ra, {"k": kind, "t": t, "v": v}) != w.call(rb, {"k": kind, "t": t, "v": v})]
                self.n_discriminating += bool(differ)
                for v in (differ + [v for v in values if v not in differ])[:n]:
                    ops.append({"op": "call", "i": i, "c": {"k": kind, "t": t, "v": v}})
        return ops

    def conv_call(self):
        rng, w = self.rng, self.w
        s, d = rng.choice(w.conv_pairs)
        k = rng.choice(["get_converter", "convert_via_get", "convert_via_get", "convert"])
        if k == "get_converter":
            return {"k": k, "s": s, "d": d}
        return {"k": k, "s": s, "d": d, "v": rng.choice(list(w.conv_vals[s]))}

    # -- cases ---------------------------------------------------------------------------------------------------------------
    def cfg(self, recipe):
        rng = self.rng
        return {"strict": rng.random() < 0.7, "trail": rng.choice(["ALL", "ALL", "FIRST", "DISABLE"]), "recipe": recipe}

    def random_case(self, max_len=10):
        rng = self.rng
        if rng.random() < 0.2:
            return self.random_conv_case(max_len)
        n = rng.choice([1, 1, 2, 2, 3])
        recipe = [self.provider(rng.choice(self.MORPH_FACTORIES)) for _ in range(n)]
        types = self.relevant_types(recipe)
        hist, n_ret = [], 1
        for _ in range(rng.randint(1, max_len)):
            r = rng.random()
            i = rng.randrange(n_ret)
            if r < 0.78:
                t = rng.choice(types) if rng.random() < 0.9 else rng.choice(list(self.w.load_data))
                hist.append({"op": "call", "i": i, "c": self.morph_call(t)})
            elif r < 0.9:
                hist.append({"op": "replace", "i": i, "strict": rng.choice([None, True, False]),
                             "trail": rng.choice([None, None, "ALL", "FIRST", "DISABLE"])})
                n_ret += 1
            else:
                hist.append({"op": "extend", "i": i, "recipe": [self.provider(rng.choice(self.MORPH_FACTORIES))]})
                n_ret += 1
        order = list(range(n_ret))
        rng.shuffle(order)
        for i in order:
            hist += self.sweep(rng.sample(types, min(len(types), 4)), i, per=1)
        return {"suite": "recipe-state", "world": "morph", "cfg": self.cfg(recipe), "history": hist, "gen": "random"}

    def random_conv_case(self, max_len=10):
        rng = self.rng
        recipe = [self.provider(rng.choice(self.CONV_FACTORIES)) for _ in range(rng.choice([1, 2, 2, 3]))]
        hist, n_ret = [], 1
        for _ in range(rng.randint(2, max_len)):
            r = rng.random()
            i = rng.randrange(n_ret)
            if r < 0.8:
                hist.append({"op": "call", "i": i, "c": self.conv_call()})
            elif r < 0.9:
                hist.append({"op": "replace", "i": i})
                n_ret += 1
            else:
                hist.append({"op": "extend", "i": i, "recipe": [self.provider(rng.choice(self.CONV_FACTORIES))]})
                n_ret += 1
        for i in range(n_ret):
            for s, d in self.w.conv_pairs:
                hist.append({"op": "call", "i": i, "c": {"k": "convert_via_get", "s": s, "d": d, "v": list(self.w.conv_vals[s])[0]}})
        return {"suite": "recipe-state", "world": "conv", "cfg": {"recipe": recipe}, "history": hist, "gen": "random-conv"}

    # -- the systematic part -------------------------------------------------------------------------------------------------------
    def name_mapping_form(self, key, k):
        """name_mapping whose `key` parameter (skip / only / omit_default / map) carries k predicates - k == 1: the bare
        predicate, not a list - about consecutive fields of the model (so the predicates are consulted in field order)"""
        rng = self.rng
        model = rng.choice(["Item", "Box"])
        fields = self.w.fields[model]
        start = rng.randrange(len(fields)) if rng.random() < 0.5 else 0
        names = (fields[start:] + fields[:start])[:k]
        preds = [["s", n] if rng.random() < 0.6 else ["Pf", model, n] for n in names]
        s = {"f": "name_mapping", "preds": rng.choice([[], [["t", model]], [["Pt", ["Item", "Box"]]]])}
        if key == "map":
            s["map"] = [[p, f"x{j}"] for j, p in enumerate(preds)]
        else:
            s[key] = preds
            s[key + "_list"] = k > 1
        return s

    def forms(self):
        """(label, specification): every factory x every number of predicates it accepts; for name_mapping every
        parameter that takes predicates x 1..3 predicates"""
        for f in self.MORPH_FACTORIES + self.CONV_FACTORIES:
            for k in ([0, 1, 2, 3] if f in self.VARIADIC else [None]):
                spec = self.provider(f, k=k)
                yield f"{f}:{len(spec['preds'])}", spec
        for key in ("skip", "only", "omit_default", "map"):
            for k in (1, 2, 3):
                yield f"name_mapping.{key}:{k}", self.name_mapping_form(key, k)

    # -- one type, configured at ONE of its locations only -----------------------------------------------------------------
    def location_forms(self):
        """(label, inner type, enclosing type, specification): a provider scoped to the location `Enclosing.field`, so the
        SAME type is morphed differently at that location and everywhere else (bare, inside other containers).  Whatever
        the retort memoises per type, per shape or per layout must keep the two apart."""
        rng = self.rng

        def loc(model, fld, inner):
            return rng.choice([["Pf", model, fld], ["Pf", model, fld], ["s", fld], ["Pa", fld],
                               ["and", ["t", inner], ["Pf", model, fld]]])
        nm = lambda **kw: {"f": "name_mapping", "preds": [loc("Box", "item", "Item")], **kw}  # noqa: E731
        for label, kw in (("omit_default", {"omit_default": True}),
                          ("omit_default-pred", {"omit_default": [["s", "n"]], "omit_default_list": rng.random() < 0.5}),
                          ("skip", {"skip": [["s", "n"]], "skip_list": True}),
                          ("only", {"only": [["s", "color"], ["s", "size"]], "only_list": True}),
                          ("map", {"map": {"n": "count", "color": "colour"}}),
                          ("style", {"style": rng.choice(["UPPER", "PASCAL"])}),
                          ("as_list", {"as_list": True}),
                          ("extra_in", {"extra_in": "forbid"})):
            yield f"name_mapping.{label}", "Item", "Box", nm(**kw)
        yield "enum_by_name", "Color", "Item", {"f": "enum_by_name", "preds": [loc("Item", "color", "Color")], "style": None, "map": None}
        yield "enum_by_name", "Size", "Item", {"f": "enum_by_name", "preds": [loc("Item", "size", "Size")], "style": "LOWER", "map": None}
        yield "enum_by_value", "Level", "Box", {"f": "enum_by_value", "preds": [loc("Box", "level_", "Level")], "tp": "str"}
        yield "flag_by_member_names", "Perm", "Box", {"f": "flag_by_member_names", "preds": [loc("Box", "perm", "Perm")]}
        yield "loader", "int", "Item", {"f": "loader", "preds": [loc("Item", "n", "int")], "fn": "f0", "chain": None}
        yield "dumper", "int", "Item", {"f": "dumper", "preds": [loc("Item", "n", "int")], "fn": "f2", "chain": None}
        yield "datetime_by_timestamp", "datetime", "Ev", {"f": "datetime_by_timestamp", "preds": [loc("Ev", "at", "datetime")], "tz": True}
        yield "date_by_timestamp", "date", "Ev", {"f": "date_by_timestamp", "preds": [loc("Ev", "on", "date")]}
        yield "default_dict", "DDict", "Ev", {"f": "default_dict", "preds": [loc("Ev", "counts", "DDict")], "fn": "seven"}

    def location_cases(self):
        """For every form of `location_forms` the histories: everything about the inner type, then everything about the
        enclosing type; the other way round; and a get_loader / get_dumper of one of them before both.  A model enclosing
        the enclosing type (Box for Item.color) is swept too.  Every call is compared with a never-used retort."""
        rng = self.rng
        for label, inner, outer, spec in self.location_forms():
            cfg = {"strict": rng.random() < 0.75, "trail": "ALL", "recipe": [spec]}
            outers = [outer] + (["Box"] if outer == "Item" else [])
            for order in ("inner-first", "outer-first", "getter-first"):
                if order == "inner-first":
                    types, head = [inner] + outers, []
                elif order == "outer-first":
                    types, head = outers[::-1] + [inner], []
                else:
                    types = rng.sample([inner] + outers, len(outers) + 1)
                    head = [{"op": "call", "i": 0, "c": {"k": rng.choice(["get_loader", "get_dumper"]), "t": t}}
                            for t in rng.sample([inner, outer], 2)]
                yield {"suite": "recipe-state", "world": "morph", "cfg": cfg, "history": head + self.sweep(types, 0, per=99),
                       "gen": f"location:{label}:{order}"}

    LEAF_CHANGERS = [
        {"f": "loader", "preds": [["t", "int"]], "fn": "f0", "chain": None}, {"f": "loader", "preds": [["t", "str"]], "fn": "f1", "chain": None},
        {"f": "dumper", "preds": [["t", "int"]], "fn": "f2", "chain": None}, {"f": "enum_by_name", "preds": [], "style": None, "map": None},
        {"f": "flag_by_member_names", "preds": []}, {"f": "name_mapping", "preds": [], "as_list": True},
        {"f": "datetime_by_timestamp", "preds": [], "tz": True},
    ]

    def directed_cases(self, per_form=1):
        """Systematic part.  For every form (see `forms`) three histories:
          * one earlier request for a plain or a failing type, then a sweep over all relevant types;
          * a replace() clone with the opposite strict_coercion (or another debug_trail): a sweep on the CLONE first, then
            the very same calls on the original;
          * an extend() clone whose extra provider changes a leaf (int / str / all enums / all flags / all models /
            datetime): the sweep on the clone first, then the same calls on the original.
        A sweep starts at a random offset, so over the run every relevant type is the first / a later probe."""
        rng = self.rng
        for _ in range(per_form):
            for label, spec in self.forms():
                if spec["f"] in self.CONV_FACTORIES:
                    for clone in (None, "replace", "extend"):
                        hist = [{"op": "call", "i": 0, "c": self.conv_call()}]
                        if clone:
                            hist.append({"op": clone, "i": 0, **({"recipe": [self.provider(rng.choice(self.CONV_FACTORIES))]}
                                                                 if clone == "extend" else {})})
                        for i in ((1, 0) if clone else (0,)):
                            for s, d in self.w.conv_pairs:
                                hist.append({"op": "call", "i": i, "c": {"k": "convert_via_get", "s": s, "d": d,
                                                                         "v": list(self.w.conv_vals[s])[0]}})
                        yield {"suite": "recipe-state", "world": "conv", "cfg": {"recipe": [spec]}, "history": hist,
                               "gen": f"directed:{label}"}
                    continue
                types = self.relevant_types([spec])
                own = [t for t in types if t not in World.PLAIN + World.FAILING] or types
                for clone in (None, "replace", "extend"):
                    cfg = {"strict": rng.random() < 0.75, "trail": "ALL", "recipe": [spec]}
                    start = rng.randrange(len(types))
                    order = types[start:] + types[:start]
                    if clone is None:
                        first = self.morph_call(rng.choice([t for t in types if t in World.PLAIN + World.FAILING]),
                                                kind=rng.choice(["get_loader", "load", "get_dumper"]))
                        hist = [{"op": "call", "i": 0, "c": first}] + self.sweep(order[:7], 0, per=1)
                    else:
                        if clone == "replace":
                            change = {"strict": not cfg["strict"], "trail": None} if rng.random() < 0.7 else \
                                {"strict": None, "trail": rng.choice(["FIRST", "DISABLE"])}
                            hist = [{"op": "replace", "i": 0, **change}]
                            cfg_clone = {"strict": cfg["strict"] if change["strict"] is None else change["strict"],
                                         "trail": change["trail"] or cfg["trail"], "recipe": cfg["recipe"]}
                        else:
                            ext = [rng.choice(self.LEAF_CHANGERS)]
                            hist = [{"op": "extend", "i": 0, "recipe": ext}]
                            cfg_clone = {**cfg, "recipe": ext + cfg["recipe"]}
                        start = rng.randrange(len(own))
                        on_clone = self.sweep_between((own[start:] + own[:start])[:4], cfg, cfg_clone, 1, per=2)
                        hist += on_clone + [{**op, "i": 0} for op in on_clone]
                    yield {"suite": "recipe-state", "world": "morph", "cfg": cfg, "history": hist, "gen": f"directed:{label}"}


# ---------------------------------------------------------------------------
# the oracle
# ---------------------------------------------------------------------------

def family_of(t):
    W = World
    for name, fam in (("enum", W.ENUMS), ("flag", W.FLAGS), ("model", W.MODELS), ("pydantic", W.PYD), ("time", W.TIME),
                      ("failing", W.FAILING)):
        if t in fam:
            return name
    return "other"


def n_multi(recipe):
    """providers of the recipe whose predicate is made of several predicates / names several types"""
    def multi_pred(p):
        return p[0] in ("Pt", "or", "and", "xor")
    n = 0
    for s in recipe:
        ps = s.get("preds", [])
        if len(ps) >= 2 or any(multi_pred(p) for p in ps) or any(isinstance(s.get(k), list) and len(s[k]) >= 2 for k in ("skip", "only", "omit_default")):
            n += 1
        if "inner" in s:
            n += n_multi([s["inner"]])
    return n


def brief(op):
    if op["op"] != "call":
        return f"{op['op']}({op['i']})"
    c = op["c"]
    return f"#{op['i']}.{c['k']}({c['t'] if 't' in c else c['s'] + '->' + c['d']})"


class Runner:
    def __init__(self, world: World):
        self.w = world
        self.fresh_memo: dict = {}

    def fresh(self, world, cfg, c):
        """the call on a never-used retort constructed from the same specification (fresh provider objects)"""
        key = canon([world, cfg, c])
        if key not in self.fresh_memo:
            self.fresh_memo[key] = self.w.call(self.w.make(world, cfg), c)
        return self.fresh_memo[key]

    def run(self, case):
        w, world = self.w, case["world"]
        cfgs = [case["cfg"]]
        retorts = [w.make(world, case["cfg"])]
        rows, kept = [], []
        for op in case["history"]:
            i = op["i"]
            if i >= len(retorts):
                rows.append(None)
                continue
            if op["op"] == "call":
                keep: list = []
                got = w.call(retorts[i], op["c"], keep)
                kept += [(cfgs[i], *k) for k in keep]
                rows.append((got, self.fresh(world, cfgs[i], op["c"]), cfgs[i]))
            elif op["op"] == "replace":
                rows.append(None)
                if world == "conv":
                    retorts.append(retorts[i].replace())
                    cfgs.append(cfgs[i])
                else:
                    kw = {}
                    if op.get("strict") is not None:
                        kw["strict_coercion"] = op["strict"]
                    if op.get("trail") is not None:
                        kw["debug_trail"] = w.ax.DebugTrail[op["trail"]]
                    retorts.append(retorts[i].replace(**kw))
                    cfgs.append({"strict": cfgs[i]["strict"] if op.get("strict") is None else op["strict"],
                                 "trail": cfgs[i]["trail"] if op.get("trail") is None else op["trail"], "recipe": cfgs[i]["recipe"]})
            else:
                rows.append(None)
                retorts.append(retorts[i].extend(recipe=w.recipe(op["recipe"])))
                cfgs.append({**cfgs[i], "recipe": op["recipe"] + cfgs[i]["recipe"]})
        late = []
        for cfg, kind, t, fn in kept[:6]:
            if kind == "load":
                for v in w.load_data[t][:4]:
                    late.append((kind, t, v, w.outcome(lambda: fn(v)), self.fresh(world, cfg, {"k": "load", "t": t, "v": v})))
            else:
                for label in list(w.dump_vals[t])[:3]:
                    late.append((kind, t, label, w.outcome(lambda: fn(w.dump_vals[t][label]())),
                                 self.fresh(world, cfg, {"k": "dump", "t": t, "v": label})))
        return rows, late

    def check(self, ctx: Ctx, case, count=True) -> bool:
        rows, late = self.run(case)
        failed = False
        for idx, (op, row) in enumerate(zip(case["history"], rows)):
            if row is None:
                continue
            got, want, cfg = row
            if got != want:
                c = op["c"]
                ctx.fail(f"recipe-state:{c['k']}:{family_of(c['t']) if 't' in c else 'conversion'}",
                         f"retort #{op['i']} built from {cfg}: call #{idx} {c} returns {got} after the history "
                         f"{[brief(o) for o in case['history'][:idx]]}; a never-used retort built the same way "
                         f"(fresh provider objects) returns {want}",
                         {**case, "history": case["history"][: idx + 1]})
                failed = True
                break
        if not failed:
            for kind, t, v, got, want in late:
                if got != want:
                    ctx.fail(f"recipe-state:obtained-{kind}er-changed:{family_of(t)}",
                             f"a {kind}er for {t} obtained during the history returns {got} for {v!r} at its end; a fresh retort {want}", case)
                    failed = True
                    break
        if count:
            recipe = case["cfg"]["recipe"]
            multi = n_multi(recipe + [s for op in case["history"] if op["op"] == "extend" for s in op["recipe"]])
            clones = sum(op["op"] != "call" for op in case["history"])
            ctx.note_case(case, nontrivial=multi > 0 or clones > 0, kind=f"recipe-state:{case.get('gen', 'case').split(':')[0]}")
            ctx.dist["recipe-state:cases-with-multi-predicate-provider"] += multi > 0
            ctx.dist["recipe-state:cases-with-clone"] += clones > 0
            ctx.dist["recipe-state:calls"] += sum(r is not None for r in rows)
            for s in recipe:
                n = len(s.get("preds", []))
                ctx.dist[f"recipe-state:factory:{s['f']}:{'0' if n == 0 else '1' if n == 1 else '2+'}-preds"] += 1
                for key in ("skip", "only", "omit_default", "map"):
                    if isinstance(s.get(key), list):
                        ctx.dist[f"recipe-state:factory:name_mapping.{key}:{'1' if len(s[key]) == 1 else '2+'}-preds"] += 1
            for row in rows:
                if row is not None:
                    ctx.dist["recipe-state:outcome-" + ("ok" if row[0][0] == "ok" else row[0][1][0])] += 1
        return failed


_WORLD = None


def get_world() -> World:
    global _WORLD
    if _WORLD is None:
        _WORLD = World()
    return _WORLD


def recipe_state_suite(ctx: Ctx, n_random: int, per_form: int = 1, stop_on_failure: bool = False):
    w = get_world()
    gen, runner = Gen(w, ctx.rng), Runner(w)
    with warnings.catch_warnings():
        warnings.simplefilter("ignore")      # pydantic's serializer warns about ill-typed values; they are probes here
        for case in gen.directed_cases(per_form):
            if runner.check(ctx, case) and stop_on_failure:
                return
        for _ in range(per_form):
            for case in gen.location_cases():
                if runner.check(ctx, case) and stop_on_failure:
                    return
        for _ in range(n_random):
            if runner.check(ctx, gen.random_case()) and stop_on_failure:
                return
    ctx.dist["recipe-state:clone-sweeps-with-a-configuration-discriminating-probe"] += gen.n_discriminating
    # the whole distribution of this suite (the evidence file keeps only the 100 most frequent counters of a run)
    ctx.extra["recipe_state"] = {k[len("recipe-state:"):]: v for k, v in sorted(ctx.dist.items()) if k.startswith("recipe-state:")}


def replay(ctx: Ctx, case) -> bool:
    with warnings.catch_warnings():
        warnings.simplefilter("ignore")
        return Runner(get_world()).check(ctx, case, count=False)
