"""C01 — round trip: load(dump(x, T), T) == x for every supported type and configuration.

Lean: Props/C01.lean (roundtrip, dump_total, roundtrip_json over the morphing model, all three debug_trail modes and both
coercion modes, recursive models; scalar codec laws as explicit hypotheses).
Tie: correspondences `dump` (well-typed values) and `load` (on the dumped data and corruptions of them) of the morphing model.
Direct oracle (real code only): load(dump(x)) is type-exactly equal to x, also through json.dumps/json.loads when the dumped
keys are strings; overlapping unions are excused exactly when another case accepts the dumped datum.
"""
import enum
import json
from typing import Literal

from extract import scalars
from harness import morph
from harness.core import Ctx
from harness.props import c01_codecs, c01_kinds

ID = "C01"
PROPS_FILE = "AdaptixProofs/Props/C01.lean"
EXTRA_PROPS_FILES = ["AdaptixProofs/Props/C01Codecs.lean"]
LEAN_TARGETS = ["AdaptixProofs.Props.C01", "AdaptixProofs.Props.C01Codecs", "drv_morph"]
EXTRACT = [scalars.emit]
CLAIM = {
    "technique": "Lean 4 proof (fuel induction: load inverts dump on every well-typed value, per type constructor, all modes) + "
                 "model/code correspondence for dump and load",
    "text": (
        "Props/C01.lean proves over the morphing model, for all worlds satisfying the scalar codec laws, all types with "
        "non-overlapping unions and hashable set-element/dict-key types, all well-typed values (incl. recursive models), all "
        "fuels, the three debug_trail modes and both coercion modes: if dump succeeds, load of the result succeeds and returns "
        "a value that is equal and of exactly the same types (`Val.same`); well-typed values always dump; the same through the "
        "JSON travel map for types without Any. The model is tied to the code by the dump and load correspondences; the direct "
        "oracle composes the real dumper and loader on generated values in all six modes."
    ),
    "note": (
        "Scalar codec laws (parse(format x) = x for Decimal, datetime, UUID, ...) are hypotheses of the theorem, sampled by the "
        "oracle on every run; for the bytes-like scalars the law is proved (Props/C01Codecs.lean: base64 model of the loader's "
        "guards and of binascii, decode(encode bs) = bs for every byte string, the exact set of accepted texts, and the world WB "
        "that instantiates the round-trip theorems with no codec hypothesis), tied by the b64-* correspondences. Float arithmetic is not modelled: timedelta through total_seconds() is exact only "
        "below 2**52 microseconds (Python's documented precision), checked by the oracle up to 100 years plus an explicit sweep "
        "of microsecond fractions. name_mapping: the model covers the default flat layout; renamed/nested/list layouts are "
        "round-tripped by the oracle here and proved at crown level in C03. Enum/Flag members are C18."
    ),
    "design_ref": "DESIGN.md §4 C01",
}
RULE = ("generated types (depth<=3/4) x well-typed values x 3 debug_trail x 2 coercion x (direct | via JSON); plus name_mapping "
        "variants on generated models; non-trivial = the type nests containers, a union or a model")
ASSUMPTIONS = ["stdlib codec laws parse(format(x)) == x (sampled each run)", "|timedelta| < 2**52 microseconds",
               "union cases non-overlapping (overlap excused only when another case demonstrably accepts the dumped datum)"]
TRUSTED = []


def type_exact_equal(a, b) -> bool:
    try:
        return morph.canon_val(morph.enc(a)) == morph.canon_val(morph.enc(b))
    except morph.Unencodable:
        return a == b and type(a) is type(b)


def overlap_excuse(eng, spec, x, dumped, mode, strict) -> bool:
    """union overlap: some union node below accepts the dumped form of a value in a case other than the value's own.
    Decided on the real loaders: the type contains a union and the mismatch disappears when each union is replaced by the
    case the value belongs to — approximated by: the dumped datum of the top-level/any nested union value is accepted by
    more than one case."""
    def walk(sp, value, datum):
        if sp.kind == "union":
            accepting = 0
            for c in sp.children:
                out = eng.real.load(mode, strict, c.hint, datum)
                if out["r"] == "ok":
                    accepting += 1
            if accepting > 1:
                return True
        return False

    # collect (union spec, sub-datum) pairs by walking spec and dumped datum in parallel where the structure is evident
    found = []

    def descend(sp, datum, depth=0):
        if depth > 8:
            return
        if sp.kind == "union":
            found.append((sp, datum))
            for c in sp.children:
                descend(c, datum, depth + 1)
        elif sp.kind.startswith("iter") and isinstance(datum, (list, tuple)):
            for el in datum:
                for c in sp.children:
                    descend(c, el, depth + 1)
        elif sp.kind == "tuple" and isinstance(datum, (list, tuple)) and len(datum) == len(sp.children):
            for c, el in zip(sp.children, datum):
                descend(c, el, depth + 1)
        elif sp.kind == "dict" and isinstance(datum, dict):
            for k, v in datum.items():
                descend(sp.children[0], k, depth + 1)
                descend(sp.children[1], v, depth + 1)
        elif sp.kind == "model" and isinstance(datum, dict) and hasattr(sp, "field_specs"):
            for fname, fs, _ in sp.field_specs:
                if fname in datum:
                    descend(fs, datum[fname], depth + 1)
    descend(spec, dumped)
    return any(walk(sp, None, d) for sp, d in found)


def roundtrip(ctx: Ctx, eng: morph.Engine, spec: morph.Spec, x, retort_key, via_json: bool):
    m, s = retort_key
    dm = eng.real.dumper(m, s, spec.hint)
    ld = eng.real.loader(m, s, spec.hint)
    case = {"hint": repr(spec.hint)[:300], "ty": spec.ty, "value": morph.enc(x), "mode": m, "strict": s, "json": via_json}
    try:
        d = dm(x)
    except Exception as e:  # noqa: BLE001
        if morph.spec_dump_ambiguous(spec):
            ctx.dist["excused:union-dump-by-class-ambiguous"] += 1
            return
        ctx.fail(f"dump-fails:{spec.kind.split(':')[0]}", f"dump raised {type(e).__name__} for a well-typed value of "
                 f"{repr(spec.hint)[:120]}", case)
        return
    if via_json:
        try:
            d = json.loads(json.dumps(d))
        except (TypeError, ValueError):
            ctx.dist["json:not-serialisable"] += 1
            return
    try:
        x2 = ld(d)
    except Exception as e:  # noqa: BLE001
        if morph.spec_dump_ambiguous(spec) or overlap_excuse(eng, spec, x, d, m, s):
            ctx.dist["excused:union-overlap"] += 1
            return
        ctx.fail(f"load-of-dump-fails:{spec.kind.split(':')[0]}" + (":json" if via_json else ""),
                 f"load(dump(x)) raised {type(e).__name__} for {repr(spec.hint)[:120]} [{m}, strict={s}, json={via_json}]", case)
        return
    if not type_exact_equal(x2, x):
        if morph.spec_dump_ambiguous(spec) or overlap_excuse(eng, spec, x, d, m, s):
            ctx.dist["excused:union-overlap"] += 1
            return
        ctx.fail(f"roundtrip:{spec.kind.split(':')[0]}" + (":json" if via_json else ""),
                 f"load(dump(x)) != x for {repr(spec.hint)[:120]} [{m}, strict={s}, json={via_json}]: {x!r:.80} -> {x2!r:.80}", case)


class Color(enum.Enum):
    RED = "r"
    BLUE = "b"


def enum_roundtrips(ctx: Ctx, eng: morph.Engine, n: int):
    """generated Enum classes under the default provider (exact value): member values of every kind the language allows -
    numbers, strs, None, tuples, and UNHASHABLE values (lists, dicts, sets, tuples holding a list) - bare and inside
    Optional / list / dict / a model field; every member must survive load(dump(x))"""
    import dataclasses
    from typing import Optional
    rng = ctx.rng
    hashable_vals = [0, 1, 2, -1, 10 ** 20, "a", "b", "", "1", 1.5, -0.5, None, (1, 2), (), ("a", (1,)), b"x", frozenset({1}),
                     2 + 0j, "é"]
    unhashable_vals = [[], [1, 2], [0, 10], {"k": 1}, {}, {1, 2}, ([1],), ("a", {"b": 2}), [[1], [2]], bytearray(b"ab")]
    for i in range(n):
        k = rng.randint(1, 5)
        shape = rng.choice(["hashable", "hashable", "mixed", "unhashable"])
        pool = {"hashable": hashable_vals, "mixed": hashable_vals + unhashable_vals * 2, "unhashable": unhashable_vals}[shape]
        vals = []
        for v in rng.sample(pool, min(k, len(pool))):
            if not any(_same_enum_value(v, w) for w in vals):
                vals.append(v)
        base = rng.choice(["Enum", "Enum", "Enum", "int", "str"])
        try:
            if base == "int":
                E = enum.IntEnum(f"GE{i}", {f"M{j}": j * 3 - 2 for j in range(k)})
            elif base == "str":
                E = enum.Enum(f"GE{i}", {f"M{j}": f"v{j}" for j in range(k)}, type=str)
            else:
                E = enum.Enum(f"GE{i}", {f"M{j}": v for j, v in enumerate(vals)})
        except Exception:  # noqa: BLE001
            continue
        E.__module__ = __name__
        wrapper = rng.choice(["bare", "bare", "optional", "list", "dict", "field"])
        if wrapper == "optional" and any(m.value is None for m in E):
            wrapper = "list"     # Optional[E] with a None-valued member: the two union cases overlap on None (documented limit)
        if wrapper == "field":
            M = dataclasses.make_dataclass(f"GEM{i}", [("e", E), ("n", int, dataclasses.field(default=0))])
            M.__module__ = __name__
        for member in E:
            hint, x = {"bare": (E, member), "optional": (Optional[E], member), "list": (list[E], [member, member]),
                       "dict": (dict[str, E], {"k": member})}.get(wrapper) or (M, M(e=member))
            sp = morph.Spec(hint=hint, ty=["enum-probe"], gen=None, kind="enum")
            unh = False
            try:
                hash(member.value)
            except TypeError:
                unh = True
            ctx.note_case({"enum": [repr(m.value)[:30] for m in E], "x": repr(x)[:60], "w": wrapper}, nontrivial=True,
                          kind=f"roundtrip:enum:{base}:{'unhashable-value' if unh else 'hashable-value'}")
            for key in morph.CONFIGS:
                roundtrip(ctx, eng, sp, x, key, via_json=False)


def self_models(ctx: Ctx, eng: morph.Engine, n: int):
    """models recursive through `typing.Self` (Optional[Self], list[Self], dict[str, Self]) used as the top-level type AND nested
    inside other models - directly, in a list, Optional or dict field, with the same or a different field structure as the outer
    model - with the Self links really set, to depth 1..3"""
    import dataclasses
    from typing import Optional, Self
    rng = ctx.rng
    for i in range(n):
        link = rng.choice(["optional", "optional", "list", "dict"])
        link_hint = {"optional": Optional[Self], "list": list[Self], "dict": dict[str, Self]}[link]
        empty = {"optional": None, "list": [], "dict": {}}[link]
        same_structure = rng.random() < 0.4
        inner_fields = [("name", str), ("link", link_hint, dataclasses.field(default=None) if link == "optional"
                         else dataclasses.field(default_factory=type(empty)))]
        Inner = dataclasses.make_dataclass(f"SelfInner{i}", inner_fields)
        Inner.__module__ = __name__
        holder = rng.choice(["direct", "list", "optional", "dict"])
        held_hint = {"direct": Inner, "list": list[Inner], "optional": Optional[Inner], "dict": dict[str, Inner]}[holder]
        if same_structure and holder in ("direct", "optional"):
            outer_fields = [("name", str), ("link", held_hint)]
        else:
            outer_fields = [("title", str), ("held", held_hint), ("n", int, dataclasses.field(default=0))]
        Outer = dataclasses.make_dataclass(f"SelfOuter{i}", outer_fields)
        Outer.__module__ = __name__

        def mk_inner(depth):
            if depth == 0:
                return Inner(name="leaf")
            sub = mk_inner(depth - 1)
            return Inner(name=f"d{depth}", link={"optional": sub, "list": [sub, mk_inner(0)], "dict": {"k": sub}}[link])
        depth = rng.choice([0, 1, 2, 3])
        inner = mk_inner(depth)
        held = {"direct": inner, "list": [inner, mk_inner(1)], "optional": inner, "dict": {"a": inner}}[holder]
        outer = Outer(*([f"o{i}", held]))
        for hint, x, where in ((Inner, inner, "top-level"), (Outer, outer, f"nested-{holder}")):
            sp = morph.Spec(hint=hint, ty=["self-model"], gen=None, kind="model")
            ctx.note_case({"self": link, "where": where, "depth": depth, "same": same_structure}, nontrivial=depth > 0,
                          kind=f"roundtrip:self-model:{where}:{'linked' if depth else 'unlinked'}")
            for key in morph.CONFIGS[::2] if ctx.tier == "quick" else morph.CONFIGS:
                roundtrip(ctx, eng, sp, x, key, via_json=True)


def policy_layout_roundtrips(ctx: Ctx, n: int):
    """models behind generated name_mapping options (nested map paths, extra_in = skip / forbid / collect / kwargs with
    extra_out, omit_default) whose values sit at and off their defaults: load(dump(x)) == x in every mode"""
    from adaptix import DebugTrail, Retort

    from harness import layouts
    rng = ctx.rng
    # the recorded finding, deterministically
    import dataclasses

    from adaptix import name_mapping

    @dataclasses.dataclass
    class NX:
        a: int
        b: int
        extra: dict = dataclasses.field(default_factory=dict)
    r0 = Retort(recipe=[name_mapping(NX, map={"b": ("nested", "b")}, extra_in="extra", extra_out="extra")])
    x0 = NX(a=1, b=2, extra={"u": 9})
    ctx.note_case({"probe": "nested-extra"}, nontrivial=True, kind="probe:nested-extra")
    if r0.load(r0.dump(x0), NX) != x0:
        ctx.fail("roundtrip:policy-layout:nested-branch-keys-as-extra", f"load(dump(x)) != x: {x0!r} -> {r0.load(r0.dump(x0), NX)!r}",
                 {"probe": "nested-extra", "suite": "policy-layout"})
    for i in range(n):
        case = layouts.gen_case(rng, i)
        cls = case["cls"]
        nested = any(len(p) > 1 for p in case["paths"].values())
        for m in morph.MODES:
            try:
                retort = Retort(recipe=case["recipe"](), debug_trail=getattr(DebugTrail, m))
                x, d = case["good"](rng, retort)
            except Exception as e:  # noqa: BLE001
                ctx.dist[f"policy-layout:not-built:{type(e).__name__}"] += 1
                break
            desc = dict(case["desc"], suite="policy-layout", mode=m, value=repr(x)[:200], dumped=repr(d)[:200])
            ctx.note_case(desc, nontrivial=True, kind=f"roundtrip:policy-layout:{case['extra_mode']}:{'nested' if nested else 'flat'}:"
                          f"{'omit' if case['omit_default'] else 'keep'}")
            try:
                x2 = retort.load(d, cls)
            except Exception as e:  # noqa: BLE001
                ctx.fail("load-of-dump-fails:policy-layout", f"load(dump(x)) raised {type(e).__name__} for {x!r:.120} dumped as {d!r:.120} "
                         f"[{m}] ({case['desc']})", desc)
                break
            if x2 != x:
                if nested and case["extra_mode"] in ("collect", "kwargs") and _only_empty_branches_added(case, x, x2):
                    ctx.fail("roundtrip:policy-layout:nested-branch-keys-as-extra", f"load(dump(x)) != x: {x!r:.100} -> {x2!r:.140} [{m}]", desc)
                else:
                    ctx.fail("roundtrip:policy-layout", f"load(dump(x)) != x: {x!r:.100} dumped as {d!r:.100} loads as {x2!r:.100} [{m}] "
                             f"({case['desc']})", desc)
                break


def generic_model_roundtrips(ctx: Ctx, eng: morph.Engine):
    """generic dataclass hierarchies: type variables threaded, swapped and partially bound through parents, inherited fields
    re-declared with other container types that still mention a type variable; parametrised and bare; values whose container
    classes tell the declared type apart from the parent's (a list must come back as a list, not as the parent's tuple)"""
    import dataclasses
    from typing import Generic, Optional, Sequence, TypeVar
    T, K, V = TypeVar("T"), TypeVar("K"), TypeVar("V")

    @dataclasses.dataclass
    class Page(Generic[T]):
        items: Sequence[T]
        total: int

    @dataclasses.dataclass
    class ListPage(Page[T], Generic[T]):
        items: list[T]

    @dataclasses.dataclass
    class Box(Generic[T]):
        value: Optional[T]

    @dataclasses.dataclass
    class KeyedBox(Box[int], Generic[K]):
        value: dict[str, K]

    @dataclasses.dataclass
    class Pair(Generic[K, V]):
        first: K
        second: V

    @dataclasses.dataclass
    class Swapped(Pair[V, K], Generic[K, V]):
        pass

    @dataclasses.dataclass
    class Deep(Swapped[int, T], Generic[T]):
        extra: list[T]
    for c in (Page, ListPage, Box, KeyedBox, Pair, Swapped, Deep):
        c.__module__ = __name__
    cases = [
        (ListPage[int], ListPage(items=[1, 2, 3], total=3)), (ListPage[str], ListPage(items=["a"], total=1)),
        (Page[int], Page(items=(1, 2), total=2)), (KeyedBox[int], KeyedBox(value={"k": 1})), (KeyedBox[str], KeyedBox(value={"k": "v"})),
        (Box[str], Box(value=None)), (Box[list[int]], Box(value=[1])), (Pair[int, str], Pair(first=1, second="a")),
        (Swapped[int, str], Swapped(first="a", second=1)), (Deep[str], Deep(first="s", second=1, extra=["x"])),
        (ListPage, ListPage(items=[1, "a"], total=2)), (Swapped, Swapped(first=[1], second={"a": 1})),
    ]
    for hint, x in cases:
        sp = morph.Spec(hint=hint, ty=["generic-model"], gen=None, kind="model")
        ctx.note_case({"generic": repr(hint)}, nontrivial=True, kind="roundtrip:generic-model")
        for key in morph.CONFIGS:
            roundtrip(ctx, eng, sp, x, key, via_json=False)


def _only_empty_branches_added(case, x, x2) -> bool:
    """is the loaded object the original plus known BRANCH keys of the layout holding empty trees in its extra data?
    (the recorded finding; anything else is a different round-trip failure)"""
    import copy
    attr = "extra" if case["extra_mode"] == "collect" else "kwargs"
    branch_keys = {p[0] for p in case["paths"].values() if len(p) > 1}

    def empty_tree(v):
        return isinstance(v, dict) and all(empty_tree(w) for w in v.values())
    try:
        y = copy.deepcopy(x2)
        extra = getattr(y, attr)
        for k in list(extra):
            if k in branch_keys and empty_tree(extra[k]) and k not in getattr(x, attr):
                del extra[k]
        return y == x
    except Exception:  # noqa: BLE001
        return False


def _same_enum_value(a, b) -> bool:
    try:
        return bool(a == b)
    except Exception:  # noqa: BLE001
        return False


def literal_probes():
    """Literal with bytes / enum members (outside the Lean value universe: oracle only)"""
    return [
        (Literal[b"a", "x"], [b"a", "x"]), (Literal[b"a", 1], [b"a", 1]), (Literal[b"a", b"bc", 2, True], [b"a", b"bc", 2, True]),
        (Literal[Color.RED, "x"], [Color.RED, "x"]), (Literal[Color.RED, Color.BLUE, 1], [Color.RED, Color.BLUE, 1]),
        (Literal[Color.RED, b"a", 0], [Color.RED, b"a", 0]),
    ]


def timedelta_sweep(ctx: Ctx, eng: morph.Engine, n: int):
    import datetime
    rng = ctx.rng
    ld = eng.real.loader("DISABLE", True, datetime.timedelta)
    dm = eng.real.dumper("DISABLE", True, datetime.timedelta)
    for i in range(n):
        us = rng.randrange(10 ** 6)
        sec = rng.choice([0, 1, -1, 59, -60, 86399, -86400, 10 ** 6, -10 ** 7, rng.randrange(-10 ** 9, 10 ** 9)])
        td = datetime.timedelta(seconds=sec, microseconds=us)
        ctx.note_case({"td": [sec, us]}, nontrivial=True, kind="timedelta-sweep")
        if ld(dm(td)) != td:
            ctx.fail("roundtrip:scalar:timedelta", f"timedelta {td!r} round-trips to {ld(dm(td))!r}",
                     {"timedelta": [sec, us]})


def name_mapping_roundtrips(ctx: Ctx, n: int):
    """admissible name_mapping settings on generated flat models (oracle only; layouts are modelled in C03)"""
    from dataclasses import field as dfield
    from dataclasses import make_dataclass

    from adaptix import DebugTrail, NameStyle, Retort, name_mapping
    rng = ctx.rng
    for i in range(n):
        nf = rng.randint(1, 4)
        names = rng.sample(["alpha", "beta_gamma", "x", "value_", "some_long_name", "id", "k2"], nf)
        fields, values = [], {}
        for nm in names:
            tp, mk = rng.choice([(int, lambda: rng.randrange(100)), (str, lambda: rng.choice(["a", ""])),
                                 (list[int], lambda: [rng.randrange(5) for _ in range(rng.randrange(3))]),
                                 (dict[str, int], lambda: {"k": rng.randrange(5)})])
            fields.append((nm, tp))
            values[nm] = mk()
        cls = make_dataclass(f"NM{i}", fields)
        kw = {}
        r = rng.random()
        if r < 0.3:
            kw["name_style"] = rng.choice([NameStyle.CAMEL, NameStyle.UPPER, NameStyle.PASCAL, NameStyle.LOWER_KEBAB])
        elif r < 0.6:
            kw["map"] = {names[0]: rng.choice(["renamed", ("nested", "deep", "key"), ("lst", 1)])}
        elif r < 0.8:
            kw["as_list"] = True
        if rng.random() < 0.3:
            kw["trim_trailing_underscore"] = rng.random() < 0.5
        mode = rng.choice(list(DebugTrail))
        retort = Retort(recipe=[name_mapping(cls, **kw)], debug_trail=mode, strict_coercion=rng.random() < 0.5)
        x = cls(**values)
        case = {"name_mapping": {k: repr(v) for k, v in kw.items()}, "fields": [(n, repr(t)) for n, t in fields], "value": repr(values)}
        ctx.note_case(case, nontrivial=True, kind="name-mapping:" + (next(iter(kw)) if kw else "default"))
        try:
            d = retort.dump(x)
            x2 = retort.load(d, cls)
            x3 = retort.load(json.loads(json.dumps(d)), cls)
        except Exception as e:  # noqa: BLE001
            ctx.fail("roundtrip:name-mapping:raises", f"round trip under name_mapping({kw}) raised {type(e).__name__}: {e}"[:300], case)
            continue
        if x2 != x or x3 != x:
            ctx.fail("roundtrip:name-mapping", f"round trip under name_mapping({kw}) changed the value", case)


def optional_models(ctx: Ctx, eng: morph.Engine, n: int):
    """models whose fields are all optional (so the FIRST extracted key is optional) with Optional types, non-None defaults
    and explicit None values; dataclass and TypedDict(total=False); nested in a list and in another model"""
    import dataclasses
    from typing import Optional, TypedDict
    rng = ctx.rng
    for i in range(n):
        nf = rng.randint(1, 3)
        names = rng.sample(["timeout", "retries", "tags", "alpha", "zeta", "b"], nf)
        fields, pool = [], {}
        for nm in names:
            tp, vals = rng.choice([(Optional[int], [None, 0, 30]), (Optional[str], [None, "", "x"]),
                                   (Optional[list[int]], [None, [], [1]])])
            dflt = rng.choice(vals)
            pool[nm] = vals
            if isinstance(dflt, list):
                fields.append((nm, tp, dataclasses.field(default_factory=lambda d=dflt: list(d))))
            else:
                fields.append((nm, tp, dataclasses.field(default=dflt)))
        cls = dataclasses.make_dataclass(f"Opt{i}", fields)
        td = TypedDict(f"OptTD{i}", {nm: tp for nm, tp, _ in fields}, total=False)
        outer = dataclasses.make_dataclass(f"OptOuter{i}", [("inner", cls), ("many", list[cls])])
        for _ in range(3):
            x = cls(**{nm: rng.choice(pool[nm]) for nm in names})
            tdv = {nm: rng.choice(pool[nm]) for nm in names if rng.random() < 0.8}
            for (m, s) in morph.CONFIGS:
                r = eng.real.retorts[(m, s)]
                for hint, v in ((cls, x), (td, tdv), (outer, outer(inner=x, many=[x]))):
                    case = {"probe": "optional-first-field", "fields": [(nm, repr(tp), repr(f.default)) for nm, tp, f in fields],
                            "value": repr(v)[:200], "mode": m, "strict": s, "kind": getattr(hint, "__name__", "?")}
                    ctx.note_case(case, nontrivial=True, kind="roundtrip:optional-model")
                    try:
                        d = r.dump(v, hint)
                        v2 = r.load(d, hint)
                        v3 = r.load(json.loads(json.dumps(d)), hint)
                    except Exception as e:  # noqa: BLE001
                        ctx.fail("roundtrip:model:optional-fields:raises", f"round trip of {v!r:.80} raised {type(e).__name__} [{m}, strict={s}]", case)
                        continue
                    if v2 != v or v3 != v:
                        ctx.fail("roundtrip:model:optional-fields", f"load(dump(x)) != x for a model with optional fields [{m}, strict={s}]: "
                                 f"{v!r:.80} -> {v2!r:.80}", case)


def run(ctx: Ctx):
    eng = morph.Engine(ctx)
    optional_models(ctx, eng, ctx.budget(25, 600))
    specs = eng.gen_specs(ctx.budget(160, 2500), 3 if ctx.tier == "quick" else 4, literal_unions=True, generic_models=True)
    # correspondences of the model the theorem is about
    drecs = eng.dump_records(specs, suite="dump", n_values=2)
    recs = eng.load_records(specs, suite="load", n_valid=2, n_corrupt=1, n_hostile=0)
    # direct oracle
    for spec in specs:
        if eng.real.dump("DISABLE", True, spec.hint, None).get("r") == "no-dumper":
            continue
        for _ in range(2):
            try:
                x = spec.gen(ctx.rng)
            except Exception:  # noqa: BLE001
                continue
            ctx.note_case({"t": spec.ty, "x": morph.enc(x)}, nontrivial=spec.children != [], kind="roundtrip:" + spec.kind.split(":")[0])
            for key in morph.CONFIGS:
                roundtrip(ctx, eng, spec, x, key, via_json=False)
                if spec.json_safe:
                    roundtrip(ctx, eng, spec, x, key, via_json=True)
            if len(ctx.samples) < 5 and spec.children:
                ctx.sample({"hint": repr(spec.hint)[:150], "value": morph.enc(x)})
    for hint, vals in literal_probes():
        sp = morph.Spec(hint=hint, ty=["literal-probe"], gen=None, kind="literal")
        for v in vals:
            ctx.note_case({"literal": repr(hint), "v": repr(v)}, nontrivial=True, kind="roundtrip:literal-bytes-enum")
            for key in morph.CONFIGS:
                roundtrip(ctx, eng, sp, v, key, via_json=False)
    timedelta_sweep(ctx, eng, ctx.budget(3000, 200000))
    name_mapping_roundtrips(ctx, ctx.budget(150, 3000))
    enum_roundtrips(ctx, eng, ctx.budget(60, 1200))
    self_models(ctx, eng, ctx.budget(40, 600))
    policy_layout_roundtrips(ctx, ctx.budget(120, 2000))
    generic_model_roundtrips(ctx, eng)
    c01_kinds.kind_roundtrips(ctx, ctx.budget(90, 2400))
    c01_codecs.suite(ctx, eng.drv, ctx.budget(400, 8000))


def search(ctx: Ctx):
    eng = morph.Engine(ctx)
    eng.drv = None
    optional_models(ctx, eng, 300)
    enum_roundtrips(ctx, eng, 600)
    self_models(ctx, eng, 300)
    policy_layout_roundtrips(ctx, 1000)
    generic_model_roundtrips(ctx, eng)
    c01_kinds.kind_roundtrips(ctx, 1200, stop_on_failure=True)
    c01_codecs.suite(ctx, None, 3000, stop_on_failure=True)
    for spec in eng.gen_specs(2000, 4, literal_unions=True, generic_models=True):
        if eng.real.dump("DISABLE", True, spec.hint, None).get("r") == "no-dumper":
            continue
        for _ in range(3):
            try:
                x = spec.gen(ctx.rng)
            except Exception:  # noqa: BLE001
                continue
            for key in morph.CONFIGS:
                roundtrip(ctx, eng, spec, x, key, via_json=False)


def replay(ctx: Ctx, case) -> bool:
    if case.get("suite") == "kind-roundtrip":
        return c01_kinds.replay(ctx, case)
    if case.get("suite") == "b64":
        return c01_codecs.replay(ctx, case)
    eng = morph.Engine(ctx)
    before = len(ctx.failures)
    if "timedelta" in case:
        import datetime
        td = datetime.timedelta(seconds=case["timedelta"][0], microseconds=case["timedelta"][1])
        r = eng.real.retorts[("DISABLE", True)]
        return r.load(r.dump(td), datetime.timedelta) != td
    if case.get("probe") == "literal-bytes-01":
        for hint, vals in literal_probes():
            sp = morph.Spec(hint=hint, ty=["literal-probe"], gen=None, kind="literal")
            for v in vals:
                for key in morph.CONFIGS:
                    roundtrip(ctx, eng, sp, v, key, via_json=False)
    return len(ctx.failures) > before
