"""C13 helper: logical model classes -> real classes of every model kind, values <-> JSON.

The JSON forms are exactly the ones the Lean driver (lean/AdaptixModel/Ops/C13.lean) decodes.
No `from __future__ import annotations` here: classes are created by exec with real type objects.
"""
import ast
import collections
import collections.abc
import enum
import math
import typing
from decimal import Decimal
from fractions import Fraction

KINDS = ["dataclass", "namedtuple", "typeddict", "attrs", "pydantic"]

# leaf types: index = `n` of {"t":"leaf","n":n}
LEAF_NAMES = ["Any", "int", "str", "bool", "float"]
LEAF_ANY, LEAF_INT, LEAF_STR, LEAF_BOOL, LEAF_FLOAT = range(5)
LEAF_PY = [typing.Any, int, str, bool, float]
# as-is pairs beyond "same type" and "destination Any": bool is a (non-generic) subclass of int
SUBCLASS_PAIRS = [(LEAF_BOOL, LEAF_INT)]

ITER_PY = {
    "list": (typing.List, list), "tuple": (None, tuple), "deque": (typing.Deque, collections.deque),
    "sequence": (typing.Sequence, tuple), "mutable_sequence": (typing.MutableSequence, list),
    "iterable": (typing.Iterable, tuple), "collection": (typing.Collection, tuple),
    "reversible": (typing.Reversible, tuple),
}
FACTORY_KIND = {"list": "list", "tuple": "tuple", "deque": "deque", "sequence": "tuple",
                "mutable_sequence": "list", "iterable": "tuple", "collection": "tuple", "reversible": "tuple"}


def leaf(n):
    return {"t": "leaf", "n": n}


def model_ty(cls_id):
    return {"t": "model", "cls": cls_id, "inst": 0}


# ---- generic classes -------------------------------------------------------------------------------------------------
# A generic class carries "tvars": n (declared `Generic[T0, ..., T(n-1)]` in this order) and "targs": the n actual
# arguments of its one instantiation in the case (closed types). A field whose annotation mentions type variables
# carries "hint": a type term that may contain {"t": "var", "i": k} and references {"t": "model", "cls": c,
# "inst": 0, "args": [hint, ...]} to other generic classes; its "ty" is the hint with the arguments substituted -
# computed HERE, by the harness, never taken from adaptix.

def var(i):
    return {"t": "var", "i": i}


def subst(hint, targs):
    """simultaneous substitution of the actual arguments for the type variables of a hint"""
    t = hint["t"]
    if t == "var":
        return targs[hint["i"]]
    if t in ("opt", "iter"):
        return {**hint, "a": subst(hint["a"], targs)}
    if t == "dict":
        return {**hint, "k": subst(hint["k"], targs), "v": subst(hint["v"], targs)}
    if t == "model" and "args" in hint:
        return {"t": "model", "cls": hint["cls"], "inst": hint.get("inst", 0)}
    return hint


def hint_vars(hint):
    """type variables of a hint in order of first appearance (what `__parameters__` of the annotation is)"""
    out = []

    def walk(h):
        t = h["t"]
        if t == "var":
            if h["i"] not in out:
                out.append(h["i"])
        elif t in ("opt", "iter"):
            walk(h["a"])
        elif t == "dict":
            walk(h["k"])
            walk(h["v"])
        elif t == "model":
            for a in h.get("args", ()):
                walk(a)
    walk(hint)
    return out


def model_refs(hint):
    """(class id, argument hints) of every reference to a generic class inside a hint"""
    t = hint["t"]
    if t in ("opt", "iter"):
        yield from model_refs(hint["a"])
    elif t == "dict":
        yield from model_refs(hint["k"])
        yield from model_refs(hint["v"])
    elif t == "model" and "args" in hint:
        yield hint["cls"], hint["args"]
        for a in hint["args"]:
            yield from model_refs(a)


class App:
    """Result of an uninterpreted user function: compared structurally."""
    __slots__ = ("f", "pos", "kw")

    def __init__(self, f, pos, kw):
        self.f, self.pos, self.kw = f, list(pos), list(kw)

    def __repr__(self):
        return f"App({self.f}, {self.pos}, {self.kw})"


class Color(enum.IntEnum):
    ONE = 1
    ZERO = 0


class MyInt(int):
    pass


NAN = float("nan")
# look-alikes of True/False/0/1 and friends; (tag, repr) identifies each one
SPECIAL_ATOMS = [
    Decimal("1"), Decimal("0"), Fraction(0), Fraction(1), 1 + 0j, 0j, Color.ONE, Color.ZERO, NAN,
    float("inf"), MyInt(1), MyInt(0), Ellipsis, b"1", bytearray(b"1"), frozenset({1}), range(1), slice(0, 1, None),
]


def atom_key(obj):
    return (type(obj).__qualname__, repr(obj))


_SPECIAL_BY_KEY = {atom_key(o): o for o in SPECIAL_ATOMS}
_LITERAL_TAGS = {"int", "str", "bool", "float", "bytes"}


def atom_from(tag, rep):
    if (tag, rep) in _SPECIAL_BY_KEY:
        return _SPECIAL_BY_KEY[(tag, rep)]
    if tag in _LITERAL_TAGS:
        v = ast.literal_eval(rep)
        if type(v).__qualname__ != tag:
            raise ValueError((tag, rep))
        return v
    raise ValueError(f"unknown atom {(tag, rep)}")


class Universe:
    """Real classes for the logical classes of one case."""

    def __init__(self, classes):
        classes = [dict(c) for c in classes]
        by_id = {c["id"]: c for c in classes}
        for c in classes:
            if c.get("tvars"):
                # the harness's own substitution fixes the type of every field declared through type variables
                fields = []
                for f in c["fields"]:
                    if f.get("hint") is not None:
                        f = dict(f)
                        ty = subst(f["hint"], c["targs"])
                        if f.get("ty") not in (None, ty):
                            raise ValueError(f"field {f['id']} of class {c['id']}: type does not match its hint")
                        f["ty"] = ty
                        for cid, args in model_refs(f["hint"]):
                            if [subst(a, c["targs"]) for a in args] != by_id[cid]["targs"]:
                                raise ValueError(f"class {cid} is referenced with arguments other than its own")
                    fields.append(f)
                c["fields"] = fields
            if c["kind"] == "typeddict":     # get_typed_dict_shape sorts the fields by key
                c["fields"] = sorted(c["fields"], key=lambda f: f["id"])
        self.logical = {c["id"]: c for c in classes}
        self.real = {}
        self.by_type = {}
        self.ns = {
            "typing": typing, "Any": typing.Any, "Optional": typing.Optional, "NamedTuple": typing.NamedTuple,
            "TypedDict": typing.TypedDict, "NotRequired": typing.NotRequired, "Generic": typing.Generic,
            "T": typing.TypeVar("T"),
        }
        self.tvars = [typing.TypeVar(f"T{i}") for i in range(4)]
        self.ns.update({f"T{i}": tv for i, tv in enumerate(self.tvars)})
        import dataclasses

        import attrs
        import pydantic
        self.ns.update(dataclasses=dataclasses, attrs=attrs, pydantic=pydantic)
        self.consts = []
        for c in classes:      # classes are listed dependencies first
            self._materialise(c)

    # -- types -------------------------------------------------------------
    def py_type(self, ty, tvar_leaf=None):
        t = ty["t"]
        if t == "leaf":
            return LEAF_PY[ty["n"]]
        if t == "model":
            c = self.logical[ty["cls"]]
            real = self.real[ty["cls"]]
            if c.get("generic") is not None:
                return real[LEAF_PY[c["generic"]]]
            if c.get("tvars"):
                return real[tuple(self.py_type(a) for a in c["targs"])]
            return real
        if t == "opt":
            return typing.Optional[self.py_type(ty["a"])]
        if t == "iter":
            arg = self.py_type(ty["a"])
            if ty["o"] == "tuple":
                return typing.Tuple[arg, ...]
            return ITER_PY[ty["o"]][0][arg]
        if t == "dict":
            return typing.Dict[self.py_type(ty["k"]), self.py_type(ty["v"])]
        raise ValueError(t)

    def py_hint(self, hint):
        """the annotation object of a hint: type variables stay type variables"""
        t = hint["t"]
        if t == "var":
            return self.tvars[hint["i"]]
        if t == "model" and "args" in hint:
            return self.real[hint["cls"]][tuple(self.py_hint(a) for a in hint["args"])]
        if t == "opt":
            return typing.Optional[self.py_hint(hint["a"])]
        if t == "iter":
            arg = self.py_hint(hint["a"])
            if hint["o"] == "tuple":
                return typing.Tuple[arg, ...]
            return ITER_PY[hint["o"]][0][arg]
        if t == "dict":
            return typing.Dict[self.py_hint(hint["k"]), self.py_hint(hint["v"])]
        return self.py_type(hint)

    def _const(self, value):
        self.consts.append(value)
        name = f"_c{len(self.consts) - 1}"
        self.ns[name] = value
        return name

    def _ann(self, c, f):
        """annotation expression of a field; the generic field of a generic class is annotated `T`"""
        if c.get("generic") is not None and f.get("tvar"):
            return "T"
        name = f"_t{len(self.ns)}"
        tp = self.py_hint(f["hint"]) if c.get("tvars") and f.get("hint") is not None else self.py_type(f["ty"])
        if f.get("annotated") is not None:
            # a type hint tag: transparent for the linking rules and for the model (shapes carry the bare type)
            tp = typing.Annotated[tp, f["annotated"]]
        self.ns[name] = tp
        return name

    def _materialise(self, c):
        kind, name = c["kind"], c["name"]
        generic = c.get("generic") is not None
        lines = []
        bases = []
        if kind == "dataclass":
            lines.append("@dataclasses.dataclass")
        elif kind == "attrs":
            lines.append("@attrs.define")
        elif kind == "namedtuple":
            bases.append("NamedTuple")
        elif kind == "typeddict":
            bases.append("TypedDict")
        elif kind == "pydantic":
            bases.append("pydantic.BaseModel")
        if generic:
            bases.append("Generic[T]")
        elif c.get("tvars"):
            bases.append("Generic[" + ", ".join(f"T{i}" for i in range(c["tvars"])) + "]")
        lines.append(f"class {name}({', '.join(bases)}):" if bases else f"class {name}:")
        if kind == "pydantic":
            lines.append("    model_config = pydantic.ConfigDict(arbitrary_types_allowed=True, strict=True)")
        for f in c["fields"]:
            ann = self._ann(c, f)
            has_default = f.get("default") is not None
            dflt = self._const(self.from_json(f["default"])) if has_default else None
            fid = f["id"]
            if kind == "dataclass":
                opts = []
                if has_default:
                    opts.append(f"default={dflt}")
                if f.get("kw_only"):
                    opts.append("kw_only=True")
                rhs = f" = dataclasses.field({', '.join(opts)})" if opts else ""
                lines.append(f"    {fid}: {ann}{rhs}")
            elif kind == "attrs":
                opts = []
                if has_default:
                    opts.append(f"default={dflt}")
                if f.get("kw_only"):
                    opts.append("kw_only=True")
                if f.get("alias"):
                    opts.append(f"alias={f['alias']!r}")
                rhs = f" = attrs.field({', '.join(opts)})" if opts else ""
                lines.append(f"    {fid}: {ann}{rhs}")
            elif kind == "namedtuple":
                lines.append(f"    {fid}: {ann}" + (f" = {dflt}" if has_default else ""))
            elif kind == "typeddict":
                lines.append(f"    {fid}: " + (f"NotRequired[{ann}]" if f.get("not_required") else ann))
            elif kind == "pydantic":
                opts = []
                if has_default:
                    opts.append(f"default={dflt}")
                if f.get("alias"):
                    opts.append(f"alias={f['alias']!r}")
                rhs = f" = pydantic.Field({', '.join(opts)})" if opts else ""
                lines.append(f"    {fid}: {ann}{rhs}")
        # instances Python treats as false: the class defines __bool__ / __len__ (a model like any other)
        if c.get("falsy") == "bool":
            lines.append("    def __bool__(self):\n        return False")
        elif c.get("falsy") == "len":
            lines.append("    def __len__(self):\n        return 0")
        elif not c["fields"]:
            lines.append("    pass")
        src = "\n".join(lines)
        exec(src, self.ns)  # noqa: S102
        real = self.ns[name]
        self.real[c["id"]] = real
        self.by_type[real] = c["id"]

    # -- shapes (what adaptix's introspection yields for each kind) --------------
    def param_name(self, c, f):
        if c["kind"] in ("attrs", "pydantic") and f.get("alias"):
            return f["alias"]
        if c["kind"] == "attrs" and f["id"].startswith("_"):
            return f["id"].lstrip("_")
        return f["id"]

    def in_shape(self, c):
        kind = c["kind"]
        fields, params = [], []
        for f in c["fields"]:
            if kind == "typeddict":
                required, default = not f.get("not_required"), None
            else:
                required, default = f.get("default") is None, f.get("default")
            fields.append({"id": f["id"], **self._shape_ty(c, f), "required": required, "default": default})
            if kind in ("typeddict", "pydantic") or (kind in ("dataclass", "attrs") and f.get("kw_only")):
                pk = "kw_only"
            else:
                pk = "pos_or_kw"
            params.append({"field": f["id"], "name": self.param_name(c, f), "kind": pk})
        if kind in ("dataclass", "attrs"):     # keyword-only parameters are moved behind the others
            params = [p for p in params if p["kind"] != "kw_only"] + [p for p in params if p["kind"] == "kw_only"]
        return {"ty": model_ty(c["id"]), "cls": c["id"], "fields": fields, "params": params, **self._shape_generic(c)}

    def out_shape(self, c):
        kind = c["kind"]
        fields = []
        for i, f in enumerate(c["fields"]):
            if kind == "namedtuple":
                acc = {"a": "index", "i": i}
            elif kind == "typeddict":
                acc = {"a": "item", "k": f["id"]}
            else:
                acc = {"a": "attr", "n": f["id"]}
            fields.append({"id": f["id"], **self._shape_ty(c, f), "acc": acc})
        return {"ty": model_ty(c["id"]), "fields": fields, **self._shape_generic(c)}

    @staticmethod
    def _shape_ty(c, f):
        """a field declared through type variables is handed to the model as its hint: the model resolves it
        itself (AdaptixModel/Conv/Generic.lean), the type the harness computed stays on this side"""
        if c.get("tvars") and f.get("hint") is not None:
            return {"hint": f["hint"]}
        return {"ty": f["ty"]}

    @staticmethod
    def _shape_generic(c):
        return {"tvars": c["tvars"], "targs": c["targs"]} if c.get("tvars") else {}

    def world_json(self):
        return {
            "out": [self.out_shape(c) for c in self.logical.values()],
            "in": [self.in_shape(c) for c in self.logical.values()],
            "any": LEAF_ANY,
            "sub": [[leaf(a), leaf(b)] for a, b in SUBCLASS_PAIRS],
            # the one instantiation of every generic class of the case: [class, arguments, type naming it]
            "insts": [[c["id"], c["targs"], model_ty(c["id"])] for c in self.logical.values() if c.get("tvars")],
        }

    # -- values ------------------------------------------------------------
    def from_json(self, j):
        v = j["v"]
        if v == "atom":
            return atom_from(j["tag"], j["repr"])
        if v == "none":
            return None
        if v == "seq":
            return ITER_PY[j["kind"]][1](self.from_json(x) for x in j["xs"])
        if v == "dict":
            return {self.from_json(k): self.from_json(x) for k, x in j["kvs"]}
        if v == "app":
            return App(j["f"], [self.from_json(x) for x in j["pos"]], [(k, self.from_json(x)) for k, x in j["kw"]])
        if v == "obj":
            c = self.logical[j["cls"]]
            real = self.real[j["cls"]]
            kwargs = {}
            by_id = {f["id"]: f for f in c["fields"]}
            for fid, x in j["fields"]:
                kwargs[self.param_name(c, by_id[fid])] = self.from_json(x)
            return real(**kwargs)
        raise ValueError(v)

    def to_json(self, x):
        """canonical, type-exact rendering of a real value"""
        if x is None:
            return {"v": "none"}
        if isinstance(x, App):
            return {"v": "app", "f": x.f, "pos": [self.to_json(p) for p in x.pos],
                    "kw": [[k, self.to_json(p)] for k, p in x.kw]}
        tp = type(x)
        if tp in self.by_type:
            return self.obj_json(x, self.by_type[tp])
        if tp is list:
            return {"v": "seq", "kind": "list", "xs": [self.to_json(e) for e in x]}
        if tp is tuple:
            return {"v": "seq", "kind": "tuple", "xs": [self.to_json(e) for e in x]}
        if tp is collections.deque:
            return {"v": "seq", "kind": "deque", "xs": [self.to_json(e) for e in x]}
        if tp is dict:
            return {"v": "dict", "kvs": [[self.to_json(k), self.to_json(e)] for k, e in x.items()]}
        if tp is float and math.isnan(x):
            return {"v": "atom", "tag": "float", "repr": "nan"}
        return {"v": "atom", "tag": tp.__qualname__, "repr": repr(x)}

    def obj_json(self, x, cls_id):
        c = self.logical[cls_id]
        fields = []
        for f in c["fields"]:
            if c["kind"] == "typeddict":
                if f["id"] in x:
                    fields.append([f["id"], self.to_json(x[f["id"]])])
            else:
                fields.append([f["id"], self.to_json(getattr(x, f["id"]))])
        return {"v": "obj", "cls": cls_id, "fields": fields}

    def to_json_typed(self, x, ty):
        """like to_json, but a TypedDict instance (a plain dict) is recognised from the expected type"""
        t = ty["t"]
        if t == "model" and self.logical[ty["cls"]]["kind"] == "typeddict" and type(x) is dict:
            c = self.logical[ty["cls"]]
            return {"v": "obj", "cls": ty["cls"],
                    "fields": [[f["id"], self.to_json_typed(x[f["id"]], f["ty"])] for f in c["fields"] if f["id"] in x]}
        if t == "model" and type(x) in self.by_type:
            c = self.logical[self.by_type[type(x)]]
            return {"v": "obj", "cls": c["id"],
                    "fields": [[f["id"], self.to_json_typed(getattr(x, f["id"]), f["ty"])] for f in c["fields"]]}
        if t == "opt" and x is not None:
            return self.to_json_typed(x, ty["a"])
        if t == "iter" and type(x) in (list, tuple, collections.deque):
            kind = {list: "list", tuple: "tuple", collections.deque: "deque"}[type(x)]
            return {"v": "seq", "kind": kind, "xs": [self.to_json_typed(e, ty["a"]) for e in x]}
        if t == "dict" and type(x) is dict:
            return {"v": "dict", "kvs": [[self.to_json_typed(k, ty["k"]), self.to_json_typed(e, ty["v"])]
                                         for k, e in x.items()]}
        return self.to_json(x)
