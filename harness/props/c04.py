"""C04 — invalid input raises LoadError and nothing else.

Lean: Props/C04.lean (scalar_no_escape_table over the TRANSLATED closures, translated_leaf_no_escape,
load_no_escape, builtin_load_no_escape).
Tie: translator extract/scalars.py (Generated/Scalars.lean rewritten on every run) + correspondences
  * translated-closures : Lean evaluation of each translated closure under the observed call-site outcomes
                          vs the real closure, on the hostile corpus (validates the translator)
  * stdlib-catalogue    : every call-site outcome class observed on the hostile corpus is in extract/catalogue.json
  * load                : real Retort.load vs model `load`, hostile-heavy stream, 3 debug_trail x 2 coercion modes
  * crown-containers    : real generated model loader vs `Layout.loadModel` (explicit crowns; every modelled container kind at
                          every dict / list node, 6 modes) - props/c04_crowns.py, which also holds the public-API oracle suite
                          "every container kind of the corpus at every node of every crown shape"
Direct oracle (real code only): no load of any generated/hostile datum, for any builtin-supported type and mode,
ends in anything but a LoadError whose leaves are all LoadErrors.
"""
import json

from extract import hostile, scalars
from harness import morph
from harness.core import Ctx, Driver, InfraError

ID = "C04"
PROPS_FILE = "AdaptixProofs/Props/C04.lean"
LEAN_TARGETS = ["AdaptixProofs.Props.C04", "drv_morph", "drv_c03"]
EXTRACT = [scalars.emit]
CLAIM = {
    "technique": "Lean 4 proof: kernel-checked escape analysis of the scalar loader closures translated from the source on "
                 "every run + abstraction-soundness theorem + fuel induction over containers; model/code correspondence",
    "text": (
        "The ~60 scalar loader closures of the working tree are translated into a mini-Python deep embedding on every run; "
        "`scalar_no_escape_table` (decide +kernel over the regenerated terms) shows that for every closure, every datum class "
        "and every behaviour of its call sites within the stdlib exception catalogue the closure returns or raises a LoadError; "
        "`translated_leaf_no_escape` lifts this to every concrete run by the abstraction-soundness theorem of the embedding; "
        "`load_no_escape`/`builtin_load_no_escape` prove by fuel induction that containers, unions, literals and (default-layout) "
        "models add no other source, for all types Python can hold values of, all data, 3 debug_trail x 2 coercion modes; "
        "`load_terminates`/`builtin_load_settles` give the fuel-free form (every load, also over recursive class tables, ends in "
        "a value or a LoadError for all sufficiently large fuels), `witness_within` shows the catalogue hypothesis satisfiable, "
        "`set_of_any_escapes` states the known finding in the model. "
        "The hand-written container model is tied to the code by a hostile-heavy load correspondence; the translator by "
        "evaluating every translated closure in Lean against the real closure."
    ),
    "note": (
        "Assumed: the stdlib exception catalogue extract/catalogue.json (which exception classes int(), Decimal(), "
        "fromisoformat, a2b_base64, re.compile, UUID, ip_address ... can raise per datum class), validated by fuzz on every "
        "run, uncatalogued reachable call sites are treated as raising; data are instances of the catalogued builtin/stdlib "
        "classes (an object with a hostile __int__/__iter__ is user code); RecursionError/MemoryError on adversarially deep or "
        "huge data are out of scope; user-supplied loaders/validators/constructors are not builtin providers. Model loaders with "
        "non-default name layouts are covered by C03's correspondence, not by the container theorem."
    ),
    "design_ref": "DESIGN.md §4 C04",
}
RULE = ("hostile corpus (~430 data over 40 datum classes) x every scalar closure; generated types (depth<=3) x valid/corrupted/"
        "hostile data x 6 modes; 14 crown shapes (dict / list crowns nested to depth 3) x 7 embeddings x every crown node x 66 "
        "container kinds (mappings, sequences, sets, index-only stdlib objects, user containers) x 6 modes; a case is non-trivial "
        "when the real outcome is a LoadError or an escape")
ASSUMPTIONS = [
    "stdlib exception catalogue (extract/catalogue.json) — validated each run: observed call-site outcomes ⊆ catalogue",
    "data are instances of builtin/stdlib classes of the catalogued universe; objects with user-defined dunder methods are user code",
    "types whose values Python cannot build (set elements / dict keys of unhashable type) are excluded (DESIGN §4)",
    "resource exhaustion (deep recursion, huge iterables) out of scope",
]
TRUSTED = ["translator extract/scalars.py (validated by the translated-closures correspondence)",
           "stdlib exception catalogue extract/catalogue.json"]


def all_leaves_load_errors(e) -> bool:
    if e["cls"].startswith("<non-LoadError"):
        return False
    return all(all_leaves_load_errors(c) for c in e["children"])


def oracle_outcome(ctx: Ctx, out, case, what_prefix):
    """the property itself on one real outcome"""
    if out["r"] == "escape":
        sig = "escape:class-object-datum" if case.get("datum_is_class") else f"escape:{out['exc']}:{case.get('kind', '?')}"
        ctx.fail(sig, f"{what_prefix}: {out['exc']} escaped instead of a LoadError", case)
        return False
    if out["r"] == "err" and not all_leaves_load_errors(out["e"]):
        ctx.fail(f"group-with-non-LoadError:{case.get('kind', '?')}", f"{what_prefix}: an error group contains a non-LoadError", case)
        return False
    return True


def suite_scalars(ctx: Ctx, eng: morph.Engine):
    """every scalar closure x hostile corpus: (a) direct oracle through Retort.load, all 6 modes;
    (b) catalogue validation; (c) Lean evaluation of the translated closure vs the real closure"""
    table = eng.real.table
    cat = json.loads(scalars.CATALOGUE_FILE.read_text())
    requests, expect = [], []
    n_cat = d_cat = 0
    corpus = hostile.corpus()
    pool = scalars.scalar_pool()
    for (name, strict), tc in table.items():
        ident = f"{name}_{'strict' if strict else 'lax'}"
        for mk in corpus:
            d = mk()
            tag = scalars.tag_of(d)
            log, final = scalars.site_outcomes(tc, d)
            for site, (kind, payload) in log.items():
                cls = kind if kind != "raises" else f"raises:{payload}"
                n_cat += 1
                if cls not in cat.get(ident, {}).get(site, {}).get(tag, []):
                    d_cat += 1
                    ctx.disagree("stdlib-catalogue", {"closure": ident, "site": site, "tag": tag, "datum": repr(d)[:80]},
                                 cls, cat.get(ident, {}).get(site, {}).get(tag, []))
            # translated closure in Lean vs the real closure
            try:
                ev = morph.enc(morph.IterDatum(list(mk())) if tag == "generator" else d)
            except (morph.Unencodable, TypeError):
                continue
            if not morph.faithful(ev, False) or tag == "generator":
                continue
            outs = {}
            ok = True
            for site, (kind, payload) in log.items():
                if kind == "raises":
                    outs[site] = ["raises", payload]
                else:
                    try:
                        outs[site] = [kind, morph.enc(payload)]
                    except morph.Unencodable:
                        ok = False
            if not ok:
                continue
            requests.append({"op": "load", "trail": "DISABLE", "strict": strict, "ty": ["scalar", name], "datum": ev,
                             "sites": [{"scalar": name, "strict": strict, "datum": ev, "outs": outs}]})
            real = morph.run_real(tc["fn"], mk())
            expect.append((ident, repr(d)[:80], morph.canon_outcome(real)))
    ctx.suite("stdlib-catalogue", n_cat, d_cat)
    if eng.drv:
        replies = eng.drv.batch(requests)
        n = dd = 0
        for (ident, dr, real), rep in zip(expect, replies):
            if "ok" not in rep:
                continue
            n += 1
            mo = morph.canon_outcome(rep["ok"])
            # the closure-level error carries the datum as input; compare class + value
            if mo["r"] != real["r"] or (mo["r"] == "ok" and mo != real) or (mo["r"] == "err" and mo["e"]["cls"] != real["e"]["cls"]) \
                    or (mo["r"] == "escape" and mo["exc"] != real["exc"]):
                dd += 1
                ctx.disagree("translated-closures", {"closure": ident, "datum": dr}, real, mo)
        ctx.suite("translated-closures", n, dd)
    # direct oracle through the facade
    for name, tp in pool.items():
        for mk in corpus:
            for (m, s) in morph.CONFIGS:
                d = mk()
                out = morph.run_real(eng.real.loader(m, s, tp), d)
                case = {"kind": f"scalar:{name}", "hint": repr(tp), "datum": repr(d)[:120], "mode": m, "strict": s,
                        "replay": {"scalar": name, "corpus_repr": repr(d)[:200]}}
                ctx.note_case({"s": name, "d": repr(d)[:60], "m": m, "st": s}, nontrivial=out["r"] != "ok",
                              kind="scalar-hostile:" + out["r"])
                oracle_outcome(ctx, out, case, f"load({repr(d)[:60]}, {name}) [{m}, strict={s}]")
    ctx.sample({"suite": "scalar-hostile", "closures": len(table), "corpus": len(corpus)})


def suite_containers(ctx: Ctx, eng: morph.Engine, n_specs: int, depth: int):
    specs = eng.gen_specs(n_specs, depth, tuple_matrix=True)
    recs = eng.load_records(specs, suite="load", n_valid=1, n_corrupt=3, n_hostile=4)
    for rec in recs:
        for cfg, out in rec.real.items():
            case = {"kind": rec.spec.kind.split(":")[0], "hint": repr(rec.spec.hint)[:200], "ty": rec.spec.ty,
                    "datum": morph.enc(rec.datum), "mode": cfg[0], "strict": cfg[1], "origin": rec.origin,
                    "datum_is_class": isinstance(rec.datum, type)}
            ctx.note_case({"t": rec.spec.ty, "d": case["datum"], "c": cfg}, nontrivial=out["r"] != "ok",
                          kind=f"container-{rec.origin}:{out['r']}")
            oracle_outcome(ctx, out, case, f"load of {rec.origin} datum for {repr(rec.spec.hint)[:80]} [{cfg[0]}, strict={cfg[1]}]")
        if len(ctx.samples) < 6 and rec.origin != "valid":
            ctx.sample({"suite": "load", "hint": repr(rec.spec.hint)[:120], "datum": morph.enc(rec.datum),
                        "real": {f"{m}/{s}": o["r"] for (m, s), o in rec.real.items()}})


def suite_user_leaves(ctx: Ctx, eng: morph.Engine, n_specs: int, depth: int):
    """`escape_only_from_leaves` on the real code: with user leaves in the recipe (functions that raise ValueError / KeyError /
    TypeError on some data) a non-LoadError exception may come out of a load - but only when one of those functions really
    raises it on some sub-datum; the builtin containers around them add no other source, and a LoadError of a user leaf
    stays a LoadError."""
    specs = [sp for sp in eng.gen_specs(n_specs, depth, user_leaves=True) if any(n in morph.USER_LEAVES for n in morph.spec_scalars_deep(sp))]
    recs = eng.load_records(specs, suite="load-user-leaves", n_valid=1, n_corrupt=4, n_hostile=2)
    for rec in recs:
        rows = morph.leaf_rows(rec.spec, rec.datum)
        leaf_escapes = sorted({r["out"][1] for r in rows if r["out"][0] == "escape"})
        for cfg, out in rec.real.items():
            case = {"kind": "user-leaf", "hint": repr(rec.spec.hint)[:200], "ty": rec.spec.ty, "datum": morph.enc(rec.datum),
                    "mode": cfg[0], "strict": cfg[1], "origin": rec.origin, "datum_is_class": isinstance(rec.datum, type)}
            ctx.note_case({"t": rec.spec.ty, "d": case["datum"], "c": cfg}, nontrivial=out["r"] != "ok",
                          kind=f"user-leaf-{rec.origin}:{out['r']}" + (":leaf-escapes" if leaf_escapes else ""))
            if out["r"] == "escape" and leaf_escapes:
                continue        # the user's own function raised: the documented source of unexpected errors
            oracle_outcome(ctx, out, case, f"load of {rec.origin} datum for {repr(rec.spec.hint)[:80]} [{cfg[0]}, strict={cfg[1]}] "
                           f"(no user leaf raises an unexpected error on any sub-datum)")


def suite_layouts(ctx: Ctx, n: int):
    """models behind name_mapping layouts that spread their fields over nested mappings (the generated loader re-bases the
    trails of errors raised inside container / model fields): invalid input in every subset of positions, all three modes,
    must still end in a LoadError - the trail bookkeeping itself must not raise"""
    from adaptix.load_error import LoadError

    from harness.props import c05

    def oracle(ctx_, retorts, cls, datum, case):
        for m, r in retorts.items():
            try:
                r.load(datum, cls)
                out = "ok"
            except LoadError:
                out = "err"
            except Exception as e:  # noqa: BLE001
                ctx_.fail(f"escape:{scalars.exc_name(type(e))}:layout", f"load of an invalid datum through a flattened name_mapping layout "
                          f"[{m.name}] lets {type(e).__name__} escape: {e}"[:300], dict(case, mode=m.name))
                return
            ctx_.dist[f"layout-{m.name}:{out}"] += 1
    c05.flattened_multi_fault(ctx, n, oracle=oracle)


def suite_policy_layouts(ctx: Ctx, n: int):
    """models behind generated name_mapping options (nested paths, every extra_in policy): data with optional keys omitted,
    unknown keys of any hashable type (None, ints, floats, tuples, strs mixed: mutually unorderable) at every mapping level, wrong
    leaves and wrong branches - whatever is not acceptable ends in a LoadError, in all modes and both coercion settings"""
    from adaptix import DebugTrail, Retort
    from adaptix.load_error import LoadError

    from harness import layouts
    rng = ctx.rng
    # the recorded finding, deterministically

    from adaptix import ExtraKwargs, name_mapping

    class KW:
        def __init__(self, a: int, **kwargs):
            self.a, self.kwargs = a, kwargs
    r0 = Retort(recipe=[name_mapping(KW, extra_in=ExtraKwargs())])
    ctx.note_case({"probe": "extra-kwargs-non-str-key"}, nontrivial=True, kind="probe:extra-kwargs-non-str-key")
    try:
        r0.load({"a": 1, 1.5: "x"}, KW)
    except LoadError:
        pass
    except TypeError as e:
        if "keywords must be strings" in str(e):
            ctx.fail("escape:TypeError:extra-kwargs-non-str-key", "load({'a': 1, 1.5: 'x'}, KW) with extra_in=ExtraKwargs() lets TypeError "
                     "(keywords must be strings) escape", {"probe": "extra-kwargs-non-str-key", "kind": "policy-layout"})
    for i in range(n):
        case = layouts.gen_case(rng, i)
        cls = case["cls"]
        try:
            retorts = {(m, s): Retort(recipe=case["recipe"](), debug_trail=getattr(DebugTrail, m), strict_coercion=s) for (m, s) in morph.CONFIGS}
            _x, good = case["good"](rng, retorts[("ALL", True)])
        except Exception as e:  # noqa: BLE001
            ctx.dist[f"policy-layout:not-built:{type(e).__name__}"] += 1
            continue
        for _ in range(5):
            datum, tags = layouts.mutate(rng, case, good)
            for cfg, r in retorts.items():
                out = morph.run_real(r.get_loader(cls), datum)
                c = dict(case["desc"], kind="policy-layout", datum=repr(datum)[:300], tags=tags, mode=cfg[0], strict=cfg[1])
                ctx.note_case(c, nontrivial=out["r"] != "ok", kind=f"policy-layout:{case['extra_mode']}:{out['r']}"
                              + (":odd-keys" if "unknown-odd-key" in tags else ""))
                if out["r"] == "escape":
                    sig = f"escape:{out['exc']}:policy-layout"
                    if case["extra_mode"] == "kwargs" and out["exc"] == "TypeError":
                        try:
                            r.get_loader(cls)(datum)
                        except TypeError as e:
                            if "keywords must be strings" in str(e):
                                sig = "escape:TypeError:extra-kwargs-non-str-key"
                        except Exception:  # noqa: BLE001
                            pass
                    ctx.fail(sig, f"load of {datum!r:.160} through a name_mapping layout (extra_in="
                             f"{case['extra_mode']}, {tags}) [{cfg[0]}, strict={cfg[1]}] lets {out['exc']} escape", c)
                    break


def set_of_any(ctx: Ctx, eng: morph.Engine):
    """a type Python CAN hold values of, fed unhashable elements"""
    from typing import Any
    for hint, datum in ((set[Any], [[1]]), (frozenset[Any], [{"a": 1}]), (set[tuple[Any, ...]], [[[1]]])):
        for (m, s) in morph.CONFIGS:
            out = eng.real.load(m, s, hint, datum)
            case = {"kind": "set-of-any", "hint": repr(hint), "datum": morph.enc(datum), "mode": m, "strict": s}
            ctx.note_case(case, nontrivial=True, kind="set-of-any:" + out["r"])
            if out["r"] == "escape":
                ctx.fail("escape:TypeError:set-of-any-unhashable-element",
                         f"load({datum!r}, {hint!r}) lets TypeError (unhashable element) escape", case)


def run(ctx: Ctx):
    eng = morph.Engine(ctx)
    suite_scalars(ctx, eng)
    suite_containers(ctx, eng, n_specs=ctx.budget(120, 1500), depth=3 if ctx.tier == "quick" else 4)
    suite_user_leaves(ctx, eng, n_specs=ctx.budget(150, 1500), depth=3)
    suite_layouts(ctx, ctx.budget(60, 1000))
    suite_policy_layouts(ctx, ctx.budget(60, 1000))
    set_of_any(ctx, eng)
    class_object_datum(ctx, eng)
    suite_crowns(ctx)


def suite_crowns(ctx: Ctx, with_model=True):
    """wrong containers (every kind, the wrong subscriptable ones above all) at every node of every crown shape"""
    from harness.props import c04_crowns
    c04_crowns.suite_public(ctx)
    drv = None
    if with_model and ctx.driver_ok:
        try:
            drv = Driver("drv_c03")
        except InfraError:
            drv = None
    c04_crowns.suite_model(ctx, drv, ctx.budget(25, 300))


def search(ctx: Ctx):
    eng = morph.Engine(ctx)
    eng.drv = None
    suite_crowns(ctx, with_model=False)
    suite_scalars(ctx, eng)
    if not ctx.failures:
        suite_containers(ctx, eng, n_specs=600, depth=4)
    if not ctx.failures:
        suite_layouts(ctx, 600)
    if not ctx.failures:
        suite_policy_layouts(ctx, 600)


def class_object_datum(ctx: Ctx, eng: morph.Engine):
    """a subscriptable class object (`list`, `type`) as datum of a model whose first field is required"""
    from dataclasses import dataclass

    @dataclass
    class TwoFields:
        a: int
        b: str = "x"

    for (m, s) in morph.CONFIGS:
        out = eng.real.load(m, s, TwoFields, list)
        case = {"kind": "model", "hint": "dataclass(a: int, b: str = 'x')", "datum": "the class `list`", "mode": m, "strict": s,
                "datum_is_class": True}
        ctx.note_case(case, nontrivial=True, kind="class-object-datum:" + out["r"])
        oracle_outcome(ctx, out, case, f"load(list, TwoFields) [{m}, strict={s}]")


def replay(ctx: Ctx, case) -> bool:
    from typing import Any
    eng = morph.Engine(ctx)
    if case.get("datum_is_class"):
        before = len(ctx.failures)
        class_object_datum(ctx, eng)
        return len(ctx.failures) > before
    if case.get("kind") == "crown-container":
        from harness.props import c04_crowns
        st, _detail = c04_crowns.run_case(ctx, case["shape"], case["embedding"], case["node"], case["container"], case["mode"],
                                          case["strict"])
        return st == "escape"
    if case.get("kind") == "set-of-any":
        before = len(ctx.failures)
        set_of_any(ctx, eng)
        return len(ctx.failures) > before
    if "replay" in case and "scalar" in case["replay"]:
        name = case["replay"]["scalar"]
        tp = scalars.scalar_pool()[name]
        for mk in hostile.corpus():
            d = mk()
            if repr(d)[:200] == case["replay"]["corpus_repr"]:
                out = morph.run_real(eng.real.loader(case["mode"], case["strict"], tp), d)
                return out["r"] == "escape"
    return False
