"""C05 — load errors are localised: trails are exact and, in ALL mode, complete.

Lean: Props/C05.lean (trail_exact, disable_no_trail, first_exactly_one, all_complete against an independent `Faults`
specification, over the morphing model).
Tie: the `load` correspondence compares the full error TREE (class, relative trail of every exception object, input value,
children) of the real loaders with the model in all modes — so a swapped appendleft/append, a missing trail element or a
lost child breaks it.
Direct oracle (real code only): plant k faults at known leaf positions of a valid datum; under ALL exactly those k leaves are
reported, each once, and following its absolute trail from the root reaches the planted object; under FIRST exactly one of
them with its full trail; under DISABLE no trail anywhere. Also through renamed / flattened model layouts.
"""
import itertools

from extract import scalars
import dataclasses

from harness import morph
from harness.core import Ctx

ID = "C05"
PROPS_FILE = "AdaptixProofs/Props/C05.lean"
EXTRA_PROPS_FILES = ["AdaptixProofs/Props/C05Layout.lean"]
LEAN_TARGETS = ["AdaptixProofs.Props.C05", "AdaptixProofs.Props.C05Layout", "drv_morph"]
EXTRACT = [scalars.emit]
CLAIM = {
    "technique": "Lean 4 proof (trail exactness and ALL-completeness against an independent fault specification, by fuel "
                 "induction over the folds) + correspondence of full error trees",
    "text": (
        "Props/C05.lean proves over the morphing model, for all types, data, fuels and both coercion modes: following the "
        "absolute trail of every reported error from the root datum reaches the reported input (dict keys through ItemKey, model "
        "fields through their outer key); DISABLE attaches no trail; FIRST reports exactly one chain; the leaves reported under "
        "ALL are exactly the independently faulty positions of a specification written without the loader's folds. The model's "
        "error trees are compared node by node with the real exceptions in every mode. "
        "Props/C05Layout.lean proves the same for name layouts over C03's construct-by-construct model of the generated model "
        "loader (`Layout.loadModel`), for every input crown (any nesting of dict and list nodes), all field loaders and data: "
        "under ALL the children of the AggregateLoadError are a permutation of an independent flag-free specification in which "
        "every visited dict node reports its own missing required keys and every called failing field loader its error re-based "
        "by the field's crown path, FIRST raises the first of them, DISABLE the same error with nothing attached, and the crown "
        "path of every fault leads by plain subscription to the value handed to the loader. "
        "That this model is the real generated code is C03's correspondence (gen-load / model-load); the count of reports BY "
        "TRAIL (needs distinct crown keys) is not proved, only the multiset equality with the per-node specification."
    ),
    "note": (
        "Leaves are assumed to report the datum they were given with an empty trail (true of the translated closures: every raise "
        "passes `data`). A failing Union is ONE fault (its sub-errors are alternatives). The fixed-tuple loader reports "
        "tuple(datum) for arity errors under FIRST/ALL. Renamed/flattened layouts: Props/C05Layout.lean over the C03 layout model + the flattened_multi_fault oracle here."
    ),
    "design_ref": "DESIGN.md §4 C05",
}
RULE = ("valid dumped data x every planted non-empty set of up to 3 (thorough 5) faulty leaves x 3 modes; plus the corrupted / "
        "hostile stream for trail exactness; non-trivial = at least one fault is below a container")
ASSUMPTIONS = ["scalar leaves report their own datum with an empty trail"]
TRUSTED = []


class Bad:
    """an object no builtin strict loader accepts"""
    def __repr__(self):
        return "<Bad>"


def leaf_positions(spec: morph.Spec, datum, path=(), out=None, depth=0):
    """paths (tuples of python keys/indices) to positions of `datum` loaded by a strict scalar loader (not under a union,
    not Any, not a dict key) — replacing the value there by Bad() makes exactly that leaf invalid"""
    out = out if out is not None else []
    if depth > 8:
        return out
    k = spec.kind
    if k == "scalar:user:U3":
        pass    # a user leaf that accepts any object: nothing planted there is invalid
    elif k.startswith("scalar") and k != "scalar:none":
        out.append(path)
    elif k.startswith("iter") and isinstance(datum, (list, tuple)):
        for i, el in enumerate(datum):
            leaf_positions(spec.children[0], el, path + (i,), out, depth + 1)
    elif k == "tuple" and isinstance(datum, (list, tuple)) and len(datum) == len(spec.children):
        for i, (c, el) in enumerate(zip(spec.children, datum)):
            leaf_positions(c, el, path + (i,), out, depth + 1)
    elif k == "dict" and isinstance(datum, dict):
        for key, v in datum.items():
            leaf_positions(spec.children[1], v, path + (key,), out, depth + 1)
    elif k == "model" and isinstance(datum, dict) and hasattr(spec, "field_specs"):
        for fname, fs, _req in spec.field_specs:
            if fname in datum:
                if fs.kind == "iter:list" and not fs.children:   # recursive Tree.children
                    for i, el in enumerate(datum[fname]):
                        leaf_positions(spec, el, path + (fname, i), out, depth + 1)
                else:
                    leaf_positions(fs, datum[fname], path + (fname,), out, depth + 1)
    return out


def dict_nodes(spec: morph.Spec, datum, path=(), out=None, depth=0):
    """(path, dict spec, dict datum) of every non-empty dict node reached through containers (not unions)"""
    out = out if out is not None else []
    if depth > 8:
        return out
    k = spec.kind
    if k == "dict" and isinstance(datum, dict):
        if datum:
            out.append((path, spec, datum))
        for key, v in datum.items():
            dict_nodes(spec.children[1], v, path + (key,), out, depth + 1)
    elif k.startswith("iter") and isinstance(datum, (list, tuple)) and spec.children:
        for i, el in enumerate(datum):
            dict_nodes(spec.children[0], el, path + (i,), out, depth + 1)
    elif k == "tuple" and isinstance(datum, (list, tuple)) and len(datum) == len(spec.children):
        for i, (c, el) in enumerate(zip(spec.children, datum)):
            dict_nodes(c, el, path + (i,), out, depth + 1)
    elif k == "model" and isinstance(datum, dict) and hasattr(spec, "field_specs"):
        for fname, fs, _req in spec.field_specs:
            if fname in datum and (fs.children or not fs.kind.startswith("iter")):
                dict_nodes(fs, datum[fname], path + (fname,), out, depth + 1)
    return out


def strict_leaf(spec: morph.Spec) -> bool:
    return spec.kind.startswith("scalar") and spec.kind not in ("scalar:none", "scalar:user:U3")    # U3 accepts any object


def entry_both_case(ctx: Ctx, eng: morph.Engine, spec, datum):
    """one dict entry whose KEY and VALUE are both invalid: two independent faults (ItemKey(k) and k)"""
    from adaptix.load_error import LoadError
    from adaptix.struct_trail import ItemKey
    nodes = [(p, ds, dd) for p, ds, dd in dict_nodes(spec, datum) if strict_leaf(ds.children[0]) and strict_leaf(ds.children[1])]
    if not nodes:
        return
    path, dspec, ddatum = ctx.rng.choice(nodes)
    victim = ctx.rng.choice(list(ddatum))
    bk, bv = Bad(), Bad()
    nd = {}
    for key, v in ddatum.items():
        if key is victim or key == victim:
            nd[bk] = bv
        else:
            nd[key] = v
    d2 = replace_at(datum, path, nd)
    case = {"hint": repr(spec.hint)[:300], "ty": spec.ty, "datum": repr(datum)[:300], "entry": [list(map(repr, path)), repr(victim)],
            "label": "dict-entry-key-and-value"}
    ctx.note_case(case, nontrivial=True, kind="planted:entry-both")
    try:
        eng.real.loader("ALL", True, spec.hint)(d2)
    except LoadError as e:
        rep = reports(e)
    except Exception:  # noqa: BLE001
        return
    else:
        ctx.fail("planted-not-rejected:ALL", "an entry with invalid key and value was accepted", case)
        return
    got = sorted(repr(list(t)) for t, leaf in rep)
    want = sorted([repr(list(path) + [ItemKey(bk)]), repr(list(path) + [bk])])
    if got != want:
        ctx.fail("all-incomplete-or-duplicated:dict-entry", f"ALL reports {got} for a dict entry whose key and value are both invalid "
                 f"(expected {want}) in {repr(spec.hint)[:100]}", dict(case, got=got))


def replace_at(datum, path, value):
    if not path:
        return value
    head, rest = path[0], path[1:]
    if isinstance(datum, dict):
        out = dict(datum)
        out[head] = replace_at(datum[head], rest, value)
        return out
    xs = list(datum)
    xs[head] = replace_at(xs[head], rest, value)
    return tuple(xs) if isinstance(datum, tuple) else xs


def follow(root, trail):
    """how a reader follows a struct trail"""
    from adaptix.struct_trail import Attr, ItemKey
    cur = root
    for el in trail:
        if isinstance(el, ItemKey):
            if el.key not in cur:
                raise KeyError(el.key)
            cur = el.key
        elif isinstance(el, Attr):
            cur = getattr(cur, el.name)
        elif isinstance(cur, (set, frozenset)) or (not hasattr(cur, "__getitem__")):
            cur = list(cur)[el]
        else:
            cur = cur[el]
    return cur


def reports(exc, prefix=()):
    """(absolute trail, leaf exception): Aggregate children flattened, a UnionLoadError is one report"""
    from adaptix.load_error import AggregateLoadError
    from adaptix.struct_trail import get_trail
    trail = prefix + tuple(get_trail(exc))
    if isinstance(exc, AggregateLoadError):
        out = []
        for c in exc.exceptions:
            out += reports(c, trail)
        return out
    return [(trail, exc)]


def any_trail(exc) -> bool:
    from adaptix.struct_trail import get_trail
    return bool(get_trail(exc)) or any(any_trail(c) for c in getattr(exc, "exceptions", ()))


def planted_case(ctx: Ctx, eng: morph.Engine, spec, datum, paths, label):
    from adaptix.load_error import LoadError
    bads = {p: Bad() for p in paths}
    d2 = datum
    for p, b in bads.items():
        d2 = replace_at(d2, p, b)
    case = {"hint": repr(spec.hint)[:300], "ty": spec.ty, "datum": repr(datum)[:300], "planted": [list(map(repr, p)) for p in paths],
            "label": label}
    ctx.note_case(case, nontrivial=any(len(p) > 0 for p in paths), kind=f"planted:{len(paths)}")
    for m in morph.MODES:
        ld = eng.real.loader(m, True, spec.hint)
        try:
            ld(d2)
        except LoadError as e:
            exc = e
        except Exception as e:  # noqa: BLE001
            ctx.dist["planted:escape-is-C04"] += 1
            continue
        else:
            ctx.fail(f"planted-not-rejected:{m}", f"{len(paths)} planted invalid leaves were accepted under {m} for "
                     f"{repr(spec.hint)[:100]}", dict(case, mode=m))
            continue
        rep = reports(exc)
        if m == "DISABLE":
            if any_trail(exc):
                ctx.fail("disable-has-trail", f"a trail is attached under DISABLE for {repr(spec.hint)[:100]}", dict(case, mode=m))
            continue
        # exactness
        for trail, leaf in rep:
            if not hasattr(leaf, "input_value"):
                continue
            try:
                reached = follow(d2, trail)
            except Exception as fe:  # noqa: BLE001
                ctx.fail(f"trail-not-followable:{m}", f"trail {list(trail)!r} cannot be followed from the root "
                         f"({type(fe).__name__}) for {repr(spec.hint)[:100]}", dict(case, mode=m, trail=repr(list(trail))))
                continue
            if reached is not leaf.input_value and not (reached == leaf.input_value and type(reached) is type(leaf.input_value)):
                ctx.fail(f"trail-wrong-target:{m}", f"trail {list(trail)!r} reaches {reached!r:.60}, the error reports "
                         f"{leaf.input_value!r:.60}", dict(case, mode=m, trail=repr(list(trail))))
        got = sorted((tuple(map(repr, t)) for t, leaf in rep if getattr(leaf, "input_value", None).__class__ is Bad))
        want = sorted(tuple(map(repr, p)) for p in paths)
        if m == "ALL":
            if got != want or len(rep) != len(paths):
                ctx.fail("all-incomplete-or-duplicated", f"ALL reports {len(rep)} errors at {got} for faults planted at {want} "
                         f"in {repr(spec.hint)[:100]}", dict(case, mode=m, got=got))
        else:  # FIRST
            if len(rep) != 1 or (got and got[0] not in want) or not got:
                ctx.fail("first-not-exactly-one", f"FIRST reports {len(rep)} errors at {got}; planted {want}",
                         dict(case, mode=m, got=got, reported=[[repr(list(t)), type(leaf).__name__, repr(getattr(leaf, "input_value", None))[:80]]
                                                              for t, leaf in rep]))


def renamed_layouts(ctx: Ctx, n: int):
    """trails go through OUTER keys of renamed / nested / list layouts"""
    from dataclasses import make_dataclass

    from adaptix import DebugTrail, Retort, name_mapping
    from adaptix.load_error import LoadError
    rng = ctx.rng
    for i in range(n):
        names = rng.sample(["alpha", "beta", "gamma", "delta"], rng.randint(2, 4))
        cls = make_dataclass(f"RL{i}", [(nm, int) for nm in names])
        layout = rng.choice(["rename", "nested", "list", "as_list"])
        target = names[0]
        if layout == "rename":
            kw, outer = {"map": {target: "outer-key"}}, ("outer-key",)
        elif layout == "nested":
            kw, outer = {"map": {target: ("a", "b", "c")}}, ("a", "b", "c")
        elif layout == "list":
            kw, outer = {"map": {target: ("lst", 2)}}, ("lst", 2)
        else:
            kw, outer = {"as_list": True}, (0,)
        for mode in (DebugTrail.FIRST, DebugTrail.ALL):
            retort = Retort(recipe=[name_mapping(cls, **kw)], debug_trail=mode)
            good = retort.dump(cls(**{nm: 1 for nm in names}))
            bad = Bad()
            d2 = replace_at(good, outer, bad)
            case = {"layout": layout, "fields": names, "mode": mode.name}
            ctx.note_case(case, nontrivial=True, kind="renamed:" + layout)
            try:
                retort.load(d2, cls)
                ctx.fail("renamed:not-rejected", f"planted fault under {layout} layout accepted", case)
                continue
            except LoadError as e:
                rep = reports(e)
            hits = [t for t, leaf in rep if getattr(leaf, "input_value", None) is bad]
            if len(hits) != 1 or tuple(hits[0]) != outer:
                ctx.fail(f"renamed:trail:{layout}", f"fault at outer path {outer} reported at {[list(h) for h in hits]} "
                         f"({len(rep)} reports)", case)


def delete_at(datum, path):
    head, rest = path[0], path[1:]
    out = dict(datum)
    if rest:
        out[head] = delete_at(datum[head], rest)
    else:
        del out[head]
    return out


@dataclasses.dataclass
class _FlatInner:
    p: int
    q: int


def flattened_multi_fault(ctx: Ctx, n: int, oracle=None):
    """name_mapping layouts that spread the fields of ONE model over several nested mappings (several dict crowns inside one
    generated loader); every non-empty subset of fields is made invalid at once - a wrong value at the leaf, or the required key
    missing. ALL must report every invalid leaf exactly once at its outer path (missing keys: one NoRequiredFieldsLoadError per
    mapping, naming exactly the keys missing there); FIRST exactly one of them; DISABLE attaches no trail."""
    from dataclasses import make_dataclass

    from adaptix import DebugTrail, Retort, name_mapping
    from adaptix.load_error import LoadError, NoRequiredFieldsLoadError
    from adaptix.struct_trail import get_trail
    rng = ctx.rng
    prefix_sets = [
        [(), (), ("n1",), ("n1", "n2"), ("m1",), ("n1", "k3"), ("m1", "m2", "m3")],
        # several sibling sub-mappings below one mapping (processed in key order after the plain fields of their parent)
        [(), ("n1", "a1"), ("n1", "k3"), ("n1", "z9"), ("n1",), ("n1", "k3", "deep")],
        [("page", "origin"), ("page", "size"), ("page",), (), ("page", "size", "unit")],
    ]
    for i in range(n):
        prefixes = rng.choice(prefix_sets)
        k = rng.randint(2, 6)
        names = [f"f{j}" for j in range(k)]
        # field types: a scalar, containers and a nested model - an error raised INSIDE one of the latter already carries a
        # trail when the outer model loader re-bases it (extend_trail instead of append_trail for nested crown paths)
        ftypes = {nm: rng.choice(["int", "int", "list", "dict", "model"]) for nm in names}
        hints = {"int": int, "list": list[int], "dict": dict[str, int], "model": _FlatInner}
        values = {"int": 7, "list": [1, 2, 3], "dict": {"a": 1, "b": 2}, "model": _FlatInner(p=1, q=2)}
        inner_pos = {"list": (1,), "dict": ("b",), "model": ("q",)}
        cls = make_dataclass(f"FL{i}", [(nm, hints[ftypes[nm]]) for nm in names])
        paths = {nm: (*rng.choice(prefixes), nm if rng.random() < 0.7 else f"key-{nm}") for nm in names}
        mapping = {nm: (p if len(p) > 1 else p[0]) for nm, p in paths.items() if p != (nm,)}
        retorts = {m: Retort(recipe=[name_mapping(cls, map=mapping)], debug_trail=m) for m in DebugTrail}
        good = retorts[DebugTrail.ALL].dump(cls(**{nm: values[ftypes[nm]] for nm in names}))
        for _ in range(4):
            faulty = rng.sample(names, rng.randint(1, k))
            kinds = {nm: rng.choice(["wrong", "missing", "inner"] if ftypes[nm] != "int" else ["wrong", "missing"]) for nm in faulty}
            datum, bads, where = good, {}, {}
            for nm, kind in kinds.items():
                if kind == "wrong":
                    bads[nm], where[nm] = Bad(), paths[nm]
                    datum = replace_at(datum, where[nm], bads[nm])
                elif kind == "inner":
                    bads[nm], where[nm] = Bad(), paths[nm] + inner_pos[ftypes[nm]]
                    datum = replace_at(datum, where[nm], bads[nm])
                else:
                    datum = delete_at(datum, paths[nm])
            # a whole intermediate mapping of the layout replaced by a non-mapping: one TypeLoadError at its path; what lies below
            # it cannot be looked at, everything else is still reported
            branch = None
            prefixes_used = sorted({paths[nm][:k] for nm in names for k in range(1, len(paths[nm]))})
            if prefixes_used and rng.random() < 0.45:
                branch = rng.choice(prefixes_used)
                bads["<branch>"] = Bad()
                try:
                    datum = replace_at(datum, branch, bads["<branch>"])
                except (KeyError, TypeError, IndexError):
                    branch = None
                    del bads["<branch>"]
            below = (lambda p: branch is not None and p[:len(branch)] == branch)
            # expected reports: (outer trail, what)
            expected = {(where[nm], "bad:" + nm) for nm, kind in kinds.items() if kind in ("wrong", "inner") and not below(paths[nm])}
            if branch is not None:
                expected.add((branch, "bad:<branch>"))
            missing_at = {}
            for nm, kind in kinds.items():
                if kind == "missing" and not below(paths[nm]):
                    missing_at.setdefault(paths[nm][:-1], set()).add(paths[nm][-1])
            for crown, keys in missing_at.items():
                expected.add((crown, "missing:" + ",".join(sorted(keys))))
            levels = len({paths[nm][:-1] for nm in faulty})
            case = {"suite": "flattened", "map": {nm: list(p) for nm, p in paths.items()}, "types": ftypes, "faults": kinds}
            if branch is not None:
                case["branch"] = list(branch)
            ctx.note_case(case, nontrivial=len(faulty) > 1, kind=f"flattened:{min(len(faulty), 3)}-faults:{min(levels, 3)}-levels"
                          + (":inner" if "inner" in kinds.values() else "") + (f":branch-depth-{len(branch)}" if branch else ""))
            if oracle is not None:
                oracle(ctx, retorts, cls, datum, case)
                continue

            def describe(trail, leaf):
                if isinstance(leaf, NoRequiredFieldsLoadError):
                    return (tuple(trail), "missing:" + ",".join(sorted(leaf.fields)))
                for nm, b in bads.items():
                    if getattr(leaf, "input_value", None) is b:
                        return (tuple(trail), "bad:" + nm)
                return (tuple(trail), f"other:{type(leaf).__name__}")
            outs = {}
            for m in DebugTrail:
                try:
                    retorts[m].load(datum, cls)
                    outs[m] = None
                except LoadError as e:
                    outs[m] = e
                except Exception as e:  # noqa: BLE001
                    ctx.fail("flattened:unexpected-error", f"{type(e).__name__} while loading a faulty flattened layout [{m.name}]", case)
                    outs[m] = False
            if any(o is None for o in outs.values()):
                ctx.fail("flattened:not-rejected", f"faulty input accepted under {[m.name for m, o in outs.items() if o is None]}", case)
                continue
            if any(o is False for o in outs.values()):
                continue
            got_all = [describe(t, leaf) for t, leaf in reports(outs[DebugTrail.ALL])]
            if sorted(got_all) != sorted(expected):
                lost = sorted(set(expected) - set(got_all))
                extra = sorted(set(got_all) - set(expected))
                dup = len(got_all) != len(set(got_all))
                sig = "flattened:ALL:" + ("lost" if lost else "duplicate" if dup else "extra")
                ctx.fail(sig, f"DebugTrail.ALL on a flattened layout: expected reports {sorted(expected)}, got {sorted(got_all)}", case)
            got_first = [describe(t, leaf) for t, leaf in reports(outs[DebugTrail.FIRST])]
            if len(got_first) != 1 or got_first[0] not in expected:
                # FIRST may name only the keys missing... it names all keys missing in that mapping, like ALL
                ctx.fail("flattened:FIRST", f"DebugTrail.FIRST on a flattened layout reports {got_first}; invalid leaves are "
                         f"{sorted(expected)}", case)
            if any_trail(outs[DebugTrail.DISABLE]):
                ctx.fail("flattened:DISABLE-trail", "DebugTrail.DISABLE attached a trail", case)


def two_location_suite(ctx: Ctx, n: int):
    """ONE model class at several locations of one retort with DIFFERENT location-bound layouts (name_mapping(P[Outer].b,
    extra_in=ExtraForbid()) next to the default skip; a renamed key at one location only): in whatever order the locations are
    first used, every invalid leaf is reported at ITS location by ITS layout - a forbidden extra key under b is reported at
    ['b'], the same key under a is not an error"""
    import dataclasses

    from adaptix import DebugTrail, ExtraForbid, P, Retort, name_mapping
    from adaptix.load_error import ExtraFieldsLoadError, LoadError
    rng = ctx.rng
    for i in range(n):
        Inner = dataclasses.make_dataclass(f"TLI{i}", [("x", int), ("y", int, dataclasses.field(default=0))])
        order = rng.choice([("a", "b"), ("b", "a"), ("a", "b", "c"), ("c", "b", "a")])   # c: list[Inner], never the bound location
        Outer = dataclasses.make_dataclass(f"TLO{i}", [(nm, Inner) if nm != "c" else (nm, list[Inner]) for nm in order])
        strict_at = rng.choice(["b", "b", "a"])
        renamed_at = rng.choice([None, None, "a", "b"])
        recipe = [name_mapping(getattr(P[Outer], strict_at), extra_in=ExtraForbid())]
        if renamed_at and renamed_at != strict_at:
            recipe.append(name_mapping(getattr(P[Outer], renamed_at), map={"x": "ex"}))
        warm = rng.choice(["none", "inner-first", "inner-first", "get-loader-inner"])
        mode = rng.choice([DebugTrail.ALL, DebugTrail.ALL, DebugTrail.FIRST])
        retort = Retort(recipe=recipe, debug_trail=mode)
        if warm == "inner-first":
            retort.load({"x": 1, "zz": 2}, Inner)
        elif warm == "get-loader-inner":
            retort.get_loader(Inner)
        extra_at = [nm for nm in order if rng.random() < 0.7] or [order[0]]

        def inner_datum(nm):
            d = {("ex" if nm == renamed_at and renamed_at != strict_at else "x"): 1}
            if nm in extra_at:
                d["zz"] = 5
            return d
        datum = {nm: (inner_datum(nm) if nm != "c" else [inner_datum(nm), {"x": 2}]) for nm in order}
        expected = sorted(((strict_at,) if strict_at != "c" else ("c", 0)) for _ in [0] if strict_at in extra_at)
        case = {"suite": "two-location", "order": list(order), "strict_at": strict_at, "renamed_at": renamed_at, "warm": warm,
                "extra_at": extra_at, "mode": mode.name}
        ctx.note_case(case, nontrivial=True, kind=f"two-location:{warm}:{'hit' if expected else 'clean'}")
        try:
            retort.load(datum, Outer)
            got = []
        except LoadError as e:
            rep = reports(e)
            got = sorted(tuple(t) for t, leaf in rep if isinstance(leaf, ExtraFieldsLoadError))
            other = [(list(t), type(leaf).__name__) for t, leaf in rep if not isinstance(leaf, ExtraFieldsLoadError)]
            if other:
                ctx.fail("two-location:other-error", f"valid fields reported as invalid: {other} (layouts {case})", case)
                continue
        except Exception as e:  # noqa: BLE001
            ctx.fail("two-location:unexpected-error", f"{type(e).__name__}: {e}"[:200], case)
            continue
        if got != expected:
            ctx.fail("two-location:extra-policy-of-another-location", f"unknown keys under {extra_at}, ExtraForbid bound to "
                     f"P[Outer].{strict_at} only (fields {order}, first use: {warm}): reported at {got}, expected at {expected}", case)


def dict_probe_specs(eng):
    tg = morph.TypeGen(eng.ctx.rng)
    k, v = tg.scalar("str"), tg.scalar("int")

    def g(r):
        return {r.choice(["a", "b", "c", "d"]) + str(i): r.randrange(9) for i in range(r.randint(1, 3))}
    d = morph.Spec(hint=dict[str, int], ty=["dict", k.ty, v.ty], gen=g, kind="dict", children=[k, v], hashable=False)
    lst = morph.Spec(hint=list[dict[str, int]], ty=["iter", "list", True, d.ty], gen=lambda r: [g(r) for _ in range(2)],
                     kind="iter:list", children=[d], hashable=False)
    k2, v2 = tg.scalar("int"), tg.scalar("str")
    d2 = morph.Spec(hint=dict[int, str], ty=["dict", k2.ty, v2.ty], gen=lambda r: {r.randrange(50): "x" for _ in range(2)},
                    kind="dict", children=[k2, v2], hashable=False)
    return [d, lst, d2]


def run(ctx: Ctx):
    eng = morph.Engine(ctx)
    for sp in dict_probe_specs(eng):
        for _ in range(ctx.budget(8, 100)):
            x = sp.gen(ctx.rng)
            entry_both_case(ctx, eng, sp, x)
    specs = eng.gen_specs(ctx.budget(140, 2000), 3 if ctx.tier == "quick" else 4, user_leaves=True, tuple_matrix=True)
    # correspondence of full error trees (all modes)
    recs = eng.load_records(specs, suite="load", n_valid=1, n_corrupt=4, n_hostile=1)
    # trail exactness on the corrupted / hostile stream (whatever was reported must be followable)
    from adaptix.load_error import LoadError
    for rec in recs:
        if rec.origin == "valid":
            continue
        for m in ("FIRST", "ALL"):
            d = morph.materialise(rec.datum)
            if morph.has_iter(morph.enc(rec.datum)) or isinstance(rec.datum, (type, morph.FreshDatum)):
                continue   # one-shot iterators cannot be re-followed; a class object as datum is C04's known finding
            try:
                eng.real.loader(m, True, rec.spec.hint)(d)
            except LoadError as e:
                for trail, leaf in reports(e):
                    if not hasattr(leaf, "input_value"):
                        continue
                    try:
                        reached = follow(d, trail)
                    except Exception:  # noqa: BLE001
                        ctx.fail(f"trail-not-followable:{m}", f"trail {list(trail)!r} cannot be followed for "
                                 f"{repr(rec.spec.hint)[:100]}", {"hint": repr(rec.spec.hint)[:200], "datum": morph.enc(rec.datum), "mode": m})
                        continue
                    iv = leaf.input_value
                    ok = reached is iv or (reached == iv and type(reached) is type(iv)) or \
                        (isinstance(iv, tuple) and _same_elems(reached, iv))
                    if not ok:
                        ctx.fail(f"trail-wrong-target:{m}", f"trail {list(trail)!r} reaches {reached!r:.60}, error reports {iv!r:.60}",
                                 {"hint": repr(rec.spec.hint)[:200], "datum": morph.enc(rec.datum), "mode": m})
            except Exception:  # noqa: BLE001
                pass
    # planted faults
    max_k = 3 if ctx.tier == "quick" else 5
    for spec in specs:
        if eng.real.dump("DISABLE", True, spec.hint, None).get("r") == "no-dumper":
            continue
        try:
            x = spec.gen(ctx.rng)
            datum = eng.real.dumper("DISABLE", True, spec.hint)(x)
        except Exception:  # noqa: BLE001
            continue
        if morph.spec_has_union(spec):
            # planted leaves below a union are not independent faults (the union is the fault): handled by the tree correspondence
            pos = [p for p in leaf_positions(spec, datum)]
        else:
            pos = leaf_positions(spec, datum)
        if not pos:
            continue
        subsets = []
        for k in range(1, min(max_k, len(pos)) + 1):
            combos = list(itertools.combinations(pos, k))
            ctx.rng.shuffle(combos)
            subsets += combos[: (10 if ctx.tier == "quick" else 40)]
        for paths in subsets:
            planted_case(ctx, eng, spec, datum, list(paths), "generated")
        if not morph.spec_has_union(spec):
            entry_both_case(ctx, eng, spec, datum)
        if len(ctx.samples) < 4:
            ctx.sample({"hint": repr(spec.hint)[:120], "datum": repr(datum)[:200], "leaf_positions": [list(map(repr, p)) for p in pos[:6]]})
    renamed_layouts(ctx, ctx.budget(60, 1000))
    flattened_multi_fault(ctx, ctx.budget(60, 1500))
    two_location_suite(ctx, ctx.budget(80, 1500))


def _same_elems(a, b):
    try:
        return list(a) == list(b)
    except TypeError:
        return False


def search(ctx: Ctx):
    run(ctx)


def replay(ctx: Ctx, case) -> bool:
    return False
