"""C16 — generic models: type arguments are substituted through the class hierarchy.

Lean side: AdaptixModel/Types/Generic.lean (+GenericWf.lean) model, AdaptixProofs/Props/C16.lean theorems.
Tie: correspondence of
  * python-facts    : what the harness assumes CPython does (``__parameters__``, own ``__orig_bases__``, ``__mro__``)
                      vs the real classes it builds (the class table sent to the model is computed, read back from
                      the interpreter and adjusted to it where they differ; > 1 % adjustments is an infra error)
  * raw-members     : ShapeGenericResolver._get_members(cls) of every class (field ids, raw types, overriden_types)
                      vs `rawStorage`
  * resolve-generic : provide_generic_resolved_shape (input and output shape) of `C`, `C[args]`  vs  `resolve`
  * implicit-params : fill_implicit_params of a one-parameter generic per TypeVar kind  vs `TVDecl.implicit`
Direct oracle (real code only, Python, independent of Lean):
  * the resolved type of every field == the annotation of the defining class (by the MRO) with the parameters
    replaced along the chain of base subscriptions (`py_declared`), implicit parameters for bare classes;
  * Retort.load of data conforming to those types succeeds and dumps back to the same data; data that conforms
    only to another parametrisation raises LoadError.
Classes are REAL dataclass / attrs / NamedTuple / TypedDict / pydantic classes built with types.new_class from the
abstract class table, so generation is data driven.
"""

import itertools
import types
import typing
from dataclasses import dataclass
from typing import Any, Dict, Generic, List, NamedTuple, Optional, TypedDict, TypeVar, Union

from harness.core import Ctx, Driver, InfraError

ID = "C16"
CLAIM = {
    "technique": "Lean 4 proof (resolver = declared type, by induction on hierarchy depth) + model/code correspondence",
    "text": (
        "Proved in Lean for class tables of any depth, arity and number of bases: under well-formedness (what Python "
        "itself enforces: bases defined first, arity, type variables in scope, MRO facts) and two explicit side "
        "conditions (the leftmost base providing an inherited generic field gets it from the class body the MRO "
        "designates; a generic re-annotation is reported as overridden — false only for TypedDict) the model of "
        "GenericResolver returns for every field exactly the declared type: the annotation of the defining class with "
        "every type variable replaced along the chain of base subscriptions, implicit parameters (Any / bound / Union of "
        "constraints) for a class left bare (resolve_eq_spec_partial, resolve_eq_spec_no_conflict, "
        "resolve_eq_spec_pydantic, bare_uses_implicit, shadowing_wins, resolved_closed, subst_comp). Side condition 1 is "
        "derived from structural facts (C3 monotonicity + no two bases providing a field from different class bodies; "
        "always true for single inheritance). The full-strength statement without the side conditions is refuted in Lean by "
        "two concrete hierarchies (diamond whose non-leftmost branch re-annotates generically; TypedDict generic "
        "re-annotation) that reproduce on the real library and are listed as known findings. The model is tied to the "
        "code by four correspondences over generated REAL dataclass/attrs/NamedTuple/TypedDict/pydantic hierarchies."
    ),
    "note": (
        "Trusted: Lean 4.33 kernel; axioms audited each run. The theorems are about the Lean model of the resolver as "
        "repaired by fixes/C16-bare-generic-base.patch; the model is hand-written and tied to /repo on every run by "
        "differential correspondence (random hierarchies depth <= 4, arity <= 3). 'Loading conforming data succeeds / "
        "other substitution fails' is established by the direct oracle on the real library only (no Lean theorem: it "
        "needs the C02 loader semantics). Not modelled: TypeVarTuple/Unpack, ParamSpec, TypeVar defaults (3.13). "
        "pydantic: its own substitution of model_fields is taken as given (third-party, modelled by the specification "
        "relative to the class's parameters, validated by the raw-members correspondence); the documented 'tricky cases' "
        "(base subscribed with its own parameters `P[T]`, bare generic pydantic parent) are excluded."
    ),
    "design_ref": "DESIGN.md §4 C16",
}
PROPS_FILE = "AdaptixProofs/Props/C16.lean"
LEAN_TARGETS = ["AdaptixProofs.Props.C16", "drv_c16"]
RULE = ("random class tables (1-6 classes, depth <= 4, arity <= 3, 0-2 model bases, partial binding, re-ordering, "
        "shadowing, bare bases, bare/parametrised/TypeVar targets, diamonds) materialised as real classes of 5 model "
        "kinds + hand-written families; a case is non-trivial when the target has at least one inherited field whose "
        "raw annotation mentions a type variable")
ASSUMPTIONS = [
    "hierarchies are well-typed to the extent Python enforces at class creation; TypedDict bases never provide the same "
    "key from two different class bodies (type checkers reject it, and TypedDict merges last-base-wins, not by MRO)",
    "NamedTuple subclasses only re-annotate fields of the root (a subclass body cannot add tuple fields)",
    "pydantic's own substitution in model_fields is correct (third-party); documented tricky cases excluded",
]
TRUSTED = [
    "CPython class semantics as computed by the harness (C3 MRO, __parameters__, presence of own __orig_bases__), "
    "read back from every built class (python-facts; the interpreter wins on a difference, TypedDict's pseudo-MRO "
    "is the harness's own)",
    "typing's alias equality and Union normal form (used to compare resolved types)",
]

KINDS = ["dataclass", "attrs", "namedtuple", "typeddict", "pydantic"]

# ---------------------------------------------------------------------------
# abstract hints (JSON) and the TypeVar pool
# ---------------------------------------------------------------------------


def A(name):
    return {"a": name, "bare": False}


def BARE(name):
    return {"a": name, "bare": True}


def G(origin, args):
    return {"o": origin, "args": list(args)}


def TV(i):
    return {"tv": i}


TV_DECLS = [
    {"id": 0, "bound": None, "constraints": []},
    {"id": 1, "bound": None, "constraints": []},
    {"id": 2, "bound": None, "constraints": []},
    {"id": 3, "bound": None, "constraints": []},
    {"id": 4, "bound": A("int"), "constraints": []},
    {"id": 5, "bound": G("List", [A("int")]), "constraints": []},
    {"id": 6, "bound": None, "constraints": [A("int"), A("str")]},
    {"id": 7, "bound": None, "constraints": [A("bool"), A("None")]},
]
TVS = [
    TypeVar("T0"), TypeVar("T1"), TypeVar("T2"), TypeVar("T3"),
    TypeVar("T4", bound=int), TypeVar("T5", bound=List[int]),
    TypeVar("T6", int, str), TypeVar("T7", bool, type(None)),
]
POOL = [A("int"), A("str"), A("bool"), A("None"), G("list", [A("int")])]

_BoxT = TypeVar("_BoxT")


@dataclass
class Box(Generic[_BoxT]):
    v: _BoxT


_ATOMS = {"int": int, "str": str, "bool": bool, "None": type(None), "Any": Any, "bytes": bytes, "float": float}
_BARE = {"list": list, "List": List, "Box": Box, "dict": dict}


def to_py(h):
    """abstract hint -> real typing object"""
    if "tv" in h:
        return TVS[h["tv"]]
    if "a" in h:
        return (_BARE if h.get("bare") else _ATOMS)[h["a"]]
    args = tuple(to_py(a) for a in h["args"])
    o = h["o"]
    if o == "list":
        return list[args[0]]
    if o == "List":
        return List[args[0]]
    if o == "dict":
        return dict[args[0], args[1]]
    if o == "Dict":
        return Dict[args[0], args[1]]
    if o == "Optional":
        return Optional[args[0]]
    if o == "Union":
        return Union[args]
    if o == "tuple":
        return tuple[args]
    if o == "Box":
        return Box[args[0]]
    raise KeyError(o)


def h_tvs(h):
    if "tv" in h:
        return [h["tv"]]
    if "a" in h:
        return []
    return [v for a in h["args"] for v in h_tvs(a)]


def h_subst(h, sigma):
    """simultaneous substitution (independent Python implementation used by the oracle)"""
    if "tv" in h:
        return sigma.get(h["tv"], h)
    if "a" in h:
        return h
    return {"o": h["o"], "args": [h_subst(a, sigma) for a in h["args"]]}


def h_is_generic(h):
    if "tv" in h:
        return True
    if "a" in h:
        return bool(h.get("bare"))
    return bool(h_tvs(h))


def implicit_of(tv_id):
    d = TV_DECLS[tv_id]
    if d["constraints"]:
        return G("Union", d["constraints"])
    return A("Any") if d["bound"] is None else d["bound"]


# ---------------------------------------------------------------------------
# abstract class tables: what Python does with a class statement
# ---------------------------------------------------------------------------
# class = {"bases": [{"cls": i, "args": [hint]|None}], "generic": [tv ids]|None, "ann": [[key, hint]]}

def c3_merge(seqs):
    seqs = [list(s) for s in seqs if s]
    out = []
    while seqs:
        for s in seqs:
            head = s[0]
            if not any(head in t[1:] for t in seqs):
                break
        else:
            return None
        out.append(head)
        seqs = [[x for x in s if x != head] for s in seqs]
        seqs = [s for s in seqs if s]
    return out


def derive_table(kind, classes):
    """computes params / own __orig_bases__ / __bases__ / mro of every class as CPython would; None if the class
    statement would be rejected"""
    table = []
    for i, c in enumerate(classes):
        bases = c["bases"]
        used = []
        for b in bases:
            for a in (b["args"] or []):
                for v in h_tvs(a):
                    if v not in used:
                        used.append(v)
        if c["generic"] is not None:
            if len(set(c["generic"])) != len(c["generic"]) or not set(used) <= set(c["generic"]) or not c["generic"]:
                return None
            params = list(c["generic"])
        else:
            params = used
        has_alias = c["generic"] is not None or any(b["args"] is not None for b in bases)
        if kind == "typeddict" or (kind == "namedtuple" and not bases):
            own = True
        elif kind == "pydantic":
            own = c["generic"] is not None       # P[int] is a real class, only Generic[...] is an alias
        else:
            own = has_alias
        # C3 over the real `__bases__`: `Generic` ("G") stands where `Generic[...]` is written, the kind's root
        # class ("R": tuple / BaseModel) in front of it for classes without a model base
        direct, lin = [], {"R": ["R"], "G": ["G"]}
        for b in bases:
            if kind == "pydantic" and b["args"] is not None:
                # `P[int]` is a real (cached) class created by pydantic: a node of its own in front of `P`
                node = ("S", b["cls"], tuple(to_py(a) for a in b["args"]))
                lin[node] = [node] + table[b["cls"]]["full_mro"]
                direct.append(node)
            else:
                direct.append(b["cls"])
        if not bases and kind in ("namedtuple", "pydantic"):
            direct.append("R")
        if c["generic"] is not None:
            direct.append("G")
        full = c3_merge([[i]] + [lin[d] if d in lin else table[d]["full_mro"] for d in direct] + [direct])
        if full is None:
            return None
        mro = [x for x in full if isinstance(x, int)]
        if len({b["cls"] for b in bases}) != len(bases):
            return None
        table.append({
            "params": params,
            "orig": [dict(b) for b in bases] if own else None,
            # `__bases__`: for pydantic a subscribed base is a real class, so the subscription survives
            "bases": [] if kind == "typeddict" else          # a TypedDict's `__bases__` is `(dict,)`
                     [dict(b) if kind == "pydantic" else {"cls": b["cls"], "args": None} for b in bases],
            "mro": mro,
            "full_mro": full,
            "ann": [list(kv) for kv in c["ann"]],
        })
    return table


def eff_orig(table, c):
    t = table[c]
    return t["orig"] if t["orig"] is not None else t["bases"]


def definer(table, c, key):
    for d in table[c]["mro"]:
        if any(k == key for k, _ in table[d]["ann"]):
            return d
    return None


def field_keys(table, c):
    out = []
    for d in reversed(table[c]["mro"]):
        for k, _ in table[d]["ann"]:
            if k not in out:
                out.append(k)
    return out


def own_ann(table, d, key):
    for k, h in table[d]["ann"]:
        if k == key:
            return h
    return None


def bind_base(table, sigma, b):
    ps = table[b["cls"]]["params"]
    if b["args"] is None:
        return {p: implicit_of(p) for p in ps}
    return {p: h_subst(a, sigma) for p, a in zip(ps, b["args"])}


def py_declared(table, tgt):
    """the documented meaning, written independently of the Lean text: field -> declared type (None = no chain)"""
    out = {}
    for key in field_keys(table, tgt["cls"]):
        d = definer(table, tgt["cls"], key)
        c, sigma = tgt["cls"], bind_base(table, {}, tgt)
        ok = True
        while c != d:
            for b in eff_orig(table, c):
                if d in table[b["cls"]]["mro"]:
                    sigma, c = bind_base(table, sigma, b), b["cls"]
                    break
            else:
                ok = False
                break
        out[key] = h_subst(own_ann(table, d, key), sigma) if ok else None
    return out


def first_provider(table, c, key):
    for b in eff_orig(table, c):
        if key in field_keys(table, b["cls"]):
            return b
    return None


def side_condition_violations(kind, table, c):
    """(precedence, override-visible) violations among the ancestors of class c, per key — used only to *name*
    the input class of an oracle failure (signature), never to decide pass/fail"""
    prec, ovis = set(), set()
    for d in table[c]["mro"]:
        own = [k for k, _ in table[d]["ann"]]
        for k in field_keys(table, d):
            fp = first_provider(table, d, k)
            if k in own:
                h = own_ann(table, d, k)
                if kind == "typeddict" and h_is_generic(h) and fp is not None:
                    ovis.add(k)
            elif fp is not None:
                dd = definer(table, d, k)
                if h_is_generic(own_ann(table, dd, k)) and definer(table, fp["cls"], k) != dd:
                    prec.add(k)
    return prec, ovis


# ---------------------------------------------------------------------------
# real side
# ---------------------------------------------------------------------------

class Real:
    def __init__(self):
        import attrs
        from pydantic import BaseModel

        from adaptix import Retort
        from adaptix._internal.provider.essential import CannotProvide, Request
        from adaptix._internal.provider.loc_stack_filtering import LocStack
        from adaptix._internal.provider.location import TypeHintLoc
        from adaptix._internal.provider.shape_provider import (
            InputShapeRequest,
            OutputShapeRequest,
            ShapeGenericResolver,
            provide_generic_resolved_shape,
        )
        from adaptix._internal.type_tools.implicit_params import fill_implicit_params
        from adaptix.load_error import LoadError

        class StubRequest(Request):
            pass

        self.attrs, self.BaseModel = attrs, BaseModel
        self.Retort, self.LoadError, self.CannotProvide = Retort, LoadError, CannotProvide
        self.retort = Retort()
        self._stub = StubRequest
        self.LocStack, self.TypeHintLoc = LocStack, TypeHintLoc
        self.requests = {"in": InputShapeRequest, "out": OutputShapeRequest}
        self.ShapeGenericResolver = ShapeGenericResolver
        self.provide = provide_generic_resolved_shape
        self.fill_implicit_params = fill_implicit_params
        self.counter = 0

    def mediator(self):
        return self.retort._create_mediator(self._stub())

    # -- class construction -------------------------------------------------
    def build(self, kind, classes):
        """real classes for the abstract table; raises on anything Python / the model library rejects"""
        self.counter += 1
        real = []
        for i, c in enumerate(classes):
            bases = []
            for b in c["bases"]:
                rb = real[b["cls"]]
                if b["args"] is not None:
                    args = tuple(to_py(a) for a in b["args"])
                    rb = rb[args if len(args) != 1 else args[0]]
                bases.append(rb)
            if not bases:
                if kind == "namedtuple":
                    bases.append(NamedTuple)
                elif kind == "typeddict":
                    bases.append(TypedDict)
                elif kind == "pydantic":
                    bases.append(self.BaseModel)
            if c["generic"] is not None:
                bases.append(Generic[tuple(TVS[v] for v in c["generic"])])
            ann = {k: to_py(h) for k, h in c["ann"]}
            ns = {"__annotations__": ann, "__module__": __name__, "__qualname__": f"K{self.counter}_{i}"}
            cls = types.new_class(f"K{self.counter}_{i}", tuple(bases), {}, lambda d, ns=ns: d.update(ns))
            if kind == "dataclass":
                cls = dataclass(cls)
            elif kind == "attrs":
                cls = self.attrs.define(slots=False)(cls)
            real.append(cls)
        return real

    def target(self, real, tgt):
        cls = real[tgt["cls"]]
        if tgt["args"] is None:
            return cls
        args = tuple(to_py(a) for a in tgt["args"])
        return cls[args if len(args) != 1 else args[0]]

    # -- observations ---------------------------------------------------------
    def facts(self, kind, real, i):
        """__parameters__, own __orig_bases__ (model entries), __bases__ (model entries), __mro__ (model entries)"""
        cls = real[i]

        def entry(b):
            if kind == "pydantic" and isinstance(b, type) and hasattr(b, "__pydantic_generic_metadata__"):
                md = b.__pydantic_generic_metadata__
                if md["origin"] is not None and md["origin"] in real:
                    return (real.index(md["origin"]), tuple(md["args"]))
            if isinstance(b, type) and b in real:
                return (real.index(b), None)
            o = typing.get_origin(b)
            if o is not None and o in real:
                return (real.index(o), typing.get_args(b))
            return None

        if kind == "pydantic":
            params = tuple(cls.__pydantic_generic_metadata__["parameters"])
        else:
            params = tuple(getattr(cls, "__parameters__", ()))
        own = vars(cls).get("__orig_bases__")
        return {
            "params": params,
            "orig": None if own is None else [e for e in map(entry, own) if e is not None],
            "bases": [e for e in map(entry, cls.__bases__) if e is not None],
            "mro": None if kind == "typeddict" else [real.index(k) for k in cls.__mro__ if k in real],
        }

    def raw(self, cls, which):
        req = self.requests[which](loc_stack=self.LocStack(self.TypeHintLoc(type=cls)))
        st = self.ShapeGenericResolver(self.mediator(), req)._get_members(cls)
        if st.meta is None:
            return None
        return dict(st.members), set(st.overriden)

    def resolved(self, tp, which):
        req = self.requests[which](loc_stack=self.LocStack(self.TypeHintLoc(type=tp)))
        try:
            shape = self.provide(self.mediator(), req)
        except self.CannotProvide:
            return "CannotProvide"
        except Exception as e:  # an escaping KeyError / ValueError is an observation too
            tb = e.__traceback__
            while tb.tb_next is not None:
                tb = tb.tb_next
            if "/pydantic/" in tb.tb_frame.f_code.co_filename or "PydanticRecursiveRef" in str(e):
                return "pydantic-internal"      # "bugs in generic resolving inside pydantic itself" (docs)
            return f"raises {type(e).__name__}"
        return {f.id: f.type for f in shape.fields}


def expected_facts(table, real, i):
    t = table[i]

    def entry(b):
        return (b["cls"], None if b["args"] is None else tuple(to_py(a) for a in b["args"]))
    return {
        "params": tuple(TVS[v] for v in t["params"]),
        "orig": None if t["orig"] is None else [entry(b) for b in t["orig"]],
        "bases": [entry(b) for b in t["bases"]],
        "mro": t["mro"],
    }


# ---------------------------------------------------------------------------
# generators
# ---------------------------------------------------------------------------

FIELD_NAMES = ["a", "b", "c", "d", "e"]


def gen_hint(rng, scope, depth=0):
    """an annotation over the type variables in `scope`"""
    r = rng.random()
    if scope and r < 0.45:
        return TV(rng.choice(scope))
    if r < 0.62 or depth >= 2:
        return rng.choice(POOL[:4]) if depth else rng.choice(POOL)
    if r < 0.66:
        return BARE(rng.choice(["list", "List", "Box"]))
    o = rng.choice(["List", "list", "Dict", "Optional", "Union", "Box", "tuple", "dict"])
    if o in ("List", "list", "Box"):
        return G(o, [gen_hint(rng, scope, depth + 1)])
    if o in ("Dict", "dict"):
        return G(o, [A("str"), gen_hint(rng, scope, depth + 1)])
    if o == "Optional":
        inner = gen_hint(rng, scope, depth + 1)
        return G(o, [inner])
    if o == "Union":
        return G(o, [gen_hint(rng, scope, depth + 1), rng.choice([A("int"), A("str"), A("None")])])
    return G("tuple", [gen_hint(rng, scope, depth + 1), rng.choice(POOL[:3])])


def admissible(param):
    """closed arguments a type checker accepts for the parameter (bound / constraints respected)"""
    d = TV_DECLS[param]
    if d["constraints"]:
        return list(d["constraints"])
    if d["bound"] is not None:
        return [d["bound"]]
    return POOL


def gen_arg(rng, scope, param):
    """an argument of a base subscription for parameter `param` of the base"""
    d = TV_DECLS[param]
    if d["constraints"] or d["bound"] is not None:
        if param in scope and rng.random() < 0.5:
            return TV(param)               # the same bounded TypeVar threaded through
        return rng.choice(admissible(param))
    free = [v for v in scope if v < 4]
    r = rng.random()
    if free and r < 0.5:
        return TV(rng.choice(free))
    if free and r < 0.65:
        return G(rng.choice(["List", "list", "Optional"]), [TV(rng.choice(free))])
    return rng.choice(POOL)


def gen_classes(rng, kind, n_max=6):
    """an abstract class table; mostly valid by construction, validity is decided by derive_table + real build"""
    n = rng.randint(1, n_max) if rng.random() < 0.2 else rng.randint(3, n_max)
    classes, params_of, keys_of, depth_of = [], [], [], []
    for i in range(n):
        # ---- bases
        nb = 0 if i == 0 else rng.choice([1, 1, 1, 2, 2, 2, 0] if kind != "namedtuple" else [1])
        cands = [j for j in range(i) if depth_of[j] < 4]
        if kind == "namedtuple" and i > 0:
            cands = cands or [0]
        base_ids = rng.sample(cands, min(nb, len(cands))) if cands else []
        if base_ids and (i - 1) in cands and (i - 1) not in base_ids and rng.random() < 0.5:
            base_ids[0] = i - 1                      # deepen the chain
        scope_n = rng.choice([0, 1, 1, 2, 2, 3])
        scope = rng.sample(range(len(TVS)), scope_n)
        bases = []
        for j in base_ids:
            pj = params_of[j]
            bare_p = 0.0 if kind == "pydantic" and pj else 0.2
            if not pj or rng.random() < bare_p:
                bases.append({"cls": j, "args": None})
            else:
                args = [gen_arg(rng, scope, p) for p in pj]
                if kind == "pydantic" and [a.get("tv") for a in args] == list(pj):
                    args[0] = rng.choice(POOL)       # `P[T]` with P's own T returns P itself: documented tricky case
                bases.append({"cls": j, "args": args})
        used = []
        for b in bases:
            for a in (b["args"] or []):
                for v in h_tvs(a):
                    if v not in used:
                        used.append(v)
        extra = [v for v in scope if v not in used]
        if extra or (used and (kind == "pydantic" or rng.random() < 0.5)):
            generic = used + extra
            rng.shuffle(generic)                     # re-ordering of parameters
        else:
            generic = None
        params = generic if generic is not None else used
        # ---- annotations
        inherited = []
        for j in base_ids:
            inherited += [k for k in keys_of[j] if k not in inherited]
        ann = []
        if kind == "namedtuple" and i > 0:
            for k in inherited:
                if rng.random() < 0.25:
                    ann.append([k, gen_hint(rng, params)])
        else:
            for _ in range(rng.choice([0, 1, 1, 2, 3]) if i else rng.choice([1, 2, 3])):
                fresh = [k for k in FIELD_NAMES if k not in inherited and all(k != x for x, _ in ann)]
                over = [k for k in inherited if all(k != x for x, _ in ann)]
                if over and (rng.random() < 0.3 or not fresh):
                    ann.append([rng.choice(over), gen_hint(rng, params)])
                elif fresh:
                    ann.append([fresh[0] if rng.random() < 0.7 else rng.choice(fresh), gen_hint(rng, params)])
        classes.append({"bases": bases, "generic": generic, "ann": ann})
        params_of.append(params)
        keys_of.append(inherited + [k for k, _ in ann if k not in inherited])
        depth_of.append(1 + max([depth_of[j] for j in base_ids], default=0))
    return classes


def gen_targets(rng, table):
    """targets for the last class and one random class: bare, closed args, TypeVar args"""
    out = []
    n = len(table)
    for c in sorted({n - 1, rng.randrange(n)}):
        ps = table[c]["params"]
        out.append({"cls": c, "args": None})
        if ps:
            out.append({"cls": c, "args": [rng.choice(admissible(p)) for p in ps]})
            if rng.random() < 0.5:
                free = [v for v in range(4) if v not in ps] or [0]
                out.append({"cls": c, "args": [TV(rng.choice(free)) if p < 4 and rng.random() < 0.6
                                               else rng.choice(admissible(p)) for p in ps]})
    return out


def base_conflict(table):
    """two bases providing one key from different class bodies.  Excluded for TypedDict (type checkers reject it and
    TypedDict merges last-base-wins instead of by MRO) and for pydantic (model_fields of the leftmost base win,
    whatever the MRO says: pydantic's own machinery, see ASSUMPTIONS)"""
    for c in range(len(table)):
        for k in field_keys(table, c):
            ds = {definer(table, b["cls"], k) for b in eff_orig(table, c) if k in field_keys(table, b["cls"])}
            if len(ds) > 1:
                return True
    return False


def pydantic_tricky(classes, table):
    """the documented limitation of the pydantic integration, made precise:
       * a generic pydantic parent left bare (pydantic keeps the child generic in the parent's parameters, typing does
         not: fill_implicit_params raises ValueError),
       * a base subscribed with exactly its own parameters (`P[T]` is `P` for pydantic),
       * TypeVars in a base subscription without an explicit Generic[...] (parameters only in pydantic's metadata)"""
    for c, t in zip(classes, table):
        used = [v for b in c["bases"] for a in (b["args"] or []) for v in h_tvs(a)]
        if used and c["generic"] is None:
            return True
        for b in c["bases"]:
            pj = table[b["cls"]]["params"]
            if b["args"] is None and pj:
                return True
            if b["args"] is not None and [a.get("tv") for a in b["args"]] == list(pj):
                return True
    return False


FAMILIES = [
    # (name, classes, targets) — the hierarchies of DESIGN §5 item 14, the findings and the documentation example
    ("bare-parent", [
        {"bases": [], "generic": [0], "ann": [["a", TV(0)]]},
        {"bases": [{"cls": 0, "args": None}], "generic": None, "ann": []},
    ], [{"cls": 1, "args": None}]),
    ("bare-parent-own-field", [
        {"bases": [], "generic": [4], "ann": [["a", TV(4)]]},
        {"bases": [{"cls": 0, "args": None}], "generic": None, "ann": [["b", A("int")]]},
    ], [{"cls": 1, "args": None}]),
    ("bare-parent-generic-child", [
        {"bases": [], "generic": [6], "ann": [["a", G("List", [TV(6)])]]},
        {"bases": [{"cls": 0, "args": None}], "generic": [1], "ann": [["b", TV(1)]]},
    ], [{"cls": 1, "args": None}, {"cls": 1, "args": [A("str")]}]),
    ("bare-parent-of-parametrised-grandparent", [
        {"bases": [], "generic": [0], "ann": [["a", TV(0)]]},
        {"bases": [{"cls": 0, "args": [G("List", [TV(1)])]}], "generic": [1], "ann": []},
        {"bases": [{"cls": 1, "args": None}], "generic": None, "ann": []},
    ], [{"cls": 2, "args": None}]),
    ("plain-multi-inheritance", [
        {"bases": [], "generic": [0], "ann": [["a", TV(0)]]},
        {"bases": [], "generic": [0], "ann": [["b", TV(0)]]},
        {"bases": [{"cls": 0, "args": [A("int")]}], "generic": None, "ann": []},
        {"bases": [{"cls": 1, "args": [A("str")]}], "generic": None, "ann": []},
        {"bases": [{"cls": 2, "args": None}, {"cls": 3, "args": None}], "generic": None, "ann": []},
    ], [{"cls": 4, "args": None}]),
    ("diamond-side-override", [
        {"bases": [], "generic": [0], "ann": [["a", TV(0)]]},
        {"bases": [{"cls": 0, "args": [A("int")]}], "generic": None, "ann": []},
        {"bases": [{"cls": 0, "args": [A("int")]}], "generic": [1], "ann": [["a", G("List", [TV(1)])]]},
        {"bases": [{"cls": 1, "args": None}, {"cls": 2, "args": [A("str")]}], "generic": None, "ann": []},
    ], [{"cls": 3, "args": None}]),
    ("generic-override", [
        {"bases": [], "generic": [0], "ann": [["a", TV(0)]]},
        {"bases": [{"cls": 0, "args": [A("int")]}], "generic": [1], "ann": [["a", G("List", [TV(1)])]]},
    ], [{"cls": 1, "args": [A("str")]}, {"cls": 1, "args": None}]),
    ("reorder-partial", [
        {"bases": [], "generic": [0, 1], "ann": [["a", TV(0)], ["b", G("List", [TV(1)])]]},
        {"bases": [{"cls": 0, "args": [A("int"), TV(2)]}], "generic": [2, 3], "ann": [["c", TV(3)]]},
        {"bases": [{"cls": 1, "args": [TV(1), TV(0)]}], "generic": [0, 1], "ann": [["d", G("Dict", [A("str"), TV(0)])]]},
    ], [{"cls": 2, "args": [A("bool"), A("str")]}, {"cls": 2, "args": None}]),
]


def features(table, tgt):
    """what the hierarchy below the target exercises (reported in the evidence as input distribution)"""
    anc = table[tgt["cls"]]["mro"]
    depth = {}
    for c in sorted(anc):
        depth[c] = 1 + max([depth.get(b["cls"], 0) for b in eff_orig(table, c)], default=0)
    out = [f"feat:depth-{max(depth.values())}", f"feat:arity-{max(len(table[c]['params']) for c in anc)}"]
    for c in anc:
        t = table[c]
        bases = eff_orig(table, c)
        if len(bases) > 1:
            out.append("feat:multiple-bases")
            seen = set()
            for b in bases:
                m = set(table[b["cls"]]["mro"])
                if seen & m:
                    out.append("feat:diamond")
                seen |= m
        for b in bases:
            if b["args"] is None and table[b["cls"]]["params"]:
                out.append("feat:bare-generic-base")
            if b["args"] is not None:
                kinds = {bool(h_tvs(a)) for a in b["args"]}
                if kinds == {True, False}:
                    out.append("feat:partial-binding")
                if any("tv" not in a and h_tvs(a) for a in b["args"]):
                    out.append("feat:nested-argument")
                tvs_in_args = [a["tv"] for a in b["args"] if "tv" in a]
                if tvs_in_args and tvs_in_args != [p for p in t["params"] if p in tvs_in_args]:
                    out.append("feat:re-ordered-parameters")
        inherited = {k for b in bases for k in field_keys(table, b["cls"])}
        for k, h in t["ann"]:
            if k in inherited:
                out.append("feat:shadowing-generic" if h_is_generic(h) else "feat:shadowing-closed")
        if t["orig"] is None and bases:
            out.append("feat:no-own-orig-bases")
    if tgt["args"] is None and table[tgt["cls"]]["params"]:
        out.append("feat:bare-generic-target")
    if tgt["args"] is not None and any(h_tvs(a) for a in tgt["args"]):
        out.append("feat:typevar-target")
    return sorted(set(out))


def gen_systematic(thorough):
    """every two-class chain over a small vocabulary (and, in the thorough tier, every three-class chain / diamond
    built from it): parent arity 1-2, how the child binds each parameter, re-ordering, shadowing, bare use"""
    parents = [
        {"bases": [], "generic": [0], "ann": [["a", TV(0)], ["b", A("int")]]},
        {"bases": [], "generic": [0], "ann": [["a", G("List", [TV(0)])]]},
        {"bases": [], "generic": [4], "ann": [["a", TV(4)]]},
        {"bases": [], "generic": [6], "ann": [["a", G("Optional", [TV(6)])]]},
        {"bases": [], "generic": [0, 1], "ann": [["a", TV(0)], ["b", G("Dict", [A("str"), TV(1)])]]},
        {"bases": [], "generic": [1, 0], "ann": [["a", TV(0)], ["b", G("list", [TV(1)])]]},
        {"bases": [], "generic": [0, 1], "ann": [["a", G("tuple", [TV(1), TV(0)])]]},
    ]
    arg_choices = [A("int"), A("str"), TV(2), TV(3), G("List", [TV(2)])]
    own_choices = [[], [["c", TV(2)]], [["a", A("bool")]], [["a", G("List", [TV(2)])]], [["a", TV(3)], ["c", A("str")]]]

    def children(parent):
        ps = parent["generic"]
        yield {"bases": [{"cls": 0, "args": None}], "generic": None, "ann": []}
        yield {"bases": [{"cls": 0, "args": None}], "generic": [2], "ann": [["c", TV(2)]]}
        for args in itertools.product(arg_choices, repeat=len(ps)):
            args = [a if TV_DECLS[p]["bound"] is None and not TV_DECLS[p]["constraints"]
                    else (admissible(p)[0] if "tv" in a or "o" in a else admissible(p)[-1]) for p, a in zip(ps, args)]
            used = []
            for a in args:
                for v in h_tvs(a):
                    if v not in used:
                        used.append(v)
            for own in own_choices:
                own_tvs = [v for _, h in own for v in h_tvs(h)]
                need = used + [v for v in own_tvs if v not in used]
                generics = [None] if not need else [need, list(reversed(need))] if len(need) > 1 else [need]
                if need and need == used:
                    generics.append(None)          # parameters collected from the bases, no Generic[...]
                for g in generics:
                    if g is None and set(own_tvs) - set(used):
                        continue
                    yield {"bases": [{"cls": 0, "args": list(args)}], "generic": g, "ann": [list(x) for x in own]}

    for parent in parents:
        for child in children(parent):
            classes = [parent, child]
            yield classes, True
            if thorough:
                # a grandchild below a bare child, and a diamond closing over the parent (one kind each, rotating)
                yield classes + [{"bases": [{"cls": 1, "args": None}], "generic": None, "ann": []}], False
                yield classes + [{"bases": [{"cls": 1, "args": None}, {"cls": 0, "args": None}],
                                  "generic": None, "ann": []}], False


def systematic_targets(table):
    out = []
    for c in range(len(table)):
        ps = table[c]["params"]
        out.append({"cls": c, "args": None})
        if ps:
            out.append({"cls": c, "args": [admissible(p)[0] for p in ps]})
            out.append({"cls": c, "args": [admissible(p)[-1] for p in ps]})
    return out


def namedtuple_ok(classes):
    """NamedTuple subclasses re-annotate only (see ASSUMPTIONS); multiple inheritance is not generated for it"""
    if any(len(c["bases"]) > 1 for c in classes):
        return False
    root_keys = {k for k, _ in classes[0]["ann"]}
    return all(all(k in root_keys for k, _ in c["ann"]) for c in classes[1:]) and bool(root_keys)


# ---------------------------------------------------------------------------
# values for the load oracle
# ---------------------------------------------------------------------------

def conforming(h, salt=0):
    """a JSON datum that conforms to the hint under strict coercion"""
    if "tv" in h:
        raise ValueError("open type")
    if "a" in h:
        n = h["a"]
        if h.get("bare"):
            return {"v": "w"} if n == "Box" else [1, "x"]
        return {"int": 7 + salt, "str": "s", "bool": True, "None": None, "Any": "anything", "bytes": "", "float": 1.5}[n]
    o, args = h["o"], h["args"]
    if o in ("list", "List"):
        return [conforming(args[0], salt)]
    if o in ("dict", "Dict"):
        return {"k": conforming(args[1], salt)}
    if o == "Optional":
        return conforming(args[0], salt)
    if o == "Union":
        return conforming(args[0], salt)
    if o == "tuple":
        return [conforming(a, salt) for a in args]
    if o == "Box":
        return {"v": conforming(args[0], salt)}
    raise KeyError(o)


def fits(v, h):
    """does the JSON datum conform to the hint (strict coercion, default retort)"""
    if "a" in h:
        n = h["a"]
        if h.get("bare"):
            return (isinstance(v, dict) and "v" in v) if n == "Box" else isinstance(v, list)
        if n == "Any":
            return True
        if n == "int":
            return type(v) is int
        if n == "str":
            return type(v) is str
        if n == "bool":
            return type(v) is bool
        if n == "None":
            return v is None
        return False
    o, args = h["o"], h["args"]
    if o in ("list", "List"):
        return isinstance(v, list) and all(fits(x, args[0]) for x in v)
    if o in ("dict", "Dict"):
        return isinstance(v, dict) and all(type(k) is str and fits(x, args[1]) for k, x in v.items())
    if o == "Optional":
        return v is None or fits(v, args[0])
    if o == "Union":
        return any(fits(v, a) for a in args)
    if o == "tuple":
        return isinstance(v, list) and len(v) == len(args) and all(fits(x, a) for x, a in zip(v, args))
    if o == "Box":
        return isinstance(v, dict) and "v" in v and fits(v["v"], args[0])
    return False


def closed(h):
    return not h_tvs(h)


def _jsonish(v):
    """fixed-length tuples are dumped as Python tuples; the datum they were loaded from is a list"""
    if isinstance(v, (list, tuple)):
        return [_jsonish(x) for x in v]
    if isinstance(v, dict):
        return {k: _jsonish(x) for k, x in v.items()}
    return v


# ---------------------------------------------------------------------------
# one case
# ---------------------------------------------------------------------------

def signature_for(kind, table, tgt, key, tag):
    prec, ovis = side_condition_violations(kind, table, tgt["cls"])
    if key in ovis:
        return "typeddict-generic-reannotation"
    if key in prec:
        return "diamond-non-leftmost-generic-reannotation"
    if kind != "pydantic":
        for d in table[tgt["cls"]]["mro"]:
            # a class without its own `__orig_bases__` below a class that has generic fields
            if table[d]["orig"] is None and any(
                    h_is_generic(own_ann(table, definer(table, b["cls"], k), k))
                    for b in table[d]["bases"] for k in field_keys(table, b["cls"])):
                return "bare-generic-base-typevar-unresolved"
    return f"{tag}"


def same_type(real_tp, hint):
    try:
        return real_tp == to_py(hint)
    except Exception:
        return False


def run_case(ctx: Ctx, real: Real, kind, classes, targets, origin):
    """builds the classes, runs the direct oracle, returns the driver requests with their real observations"""
    table = derive_table(kind, classes)
    case_base = {"kind": kind, "classes": classes, "origin": origin}
    if table is None:
        ctx.dist["rejected-by-python-rules"] += 1
        return []
    if kind in ("typeddict", "pydantic") and base_conflict(table):
        ctx.dist[f"excluded-{kind}-conflict"] += 1
        return []
    if kind == "pydantic" and pydantic_tricky(classes, table):
        ctx.dist["excluded-pydantic-tricky"] += 1
        return []
    try:
        rcls = real.build(kind, classes)
    except Exception as e:
        ctx.dist[f"unbuildable-{kind}-{type(e).__name__}"] += 1
        return []
    out = []
    # ---- python facts: the table the model receives is what the interpreter really built.  The harness computes
    # `__parameters__` / own `__orig_bases__` / `__mro__` itself and reads them back; where its own reading of
    # CPython is off the interpreter wins (counted), what cannot be reconciled is skipped, never compared.
    ctx.extra["python_facts_classes"] = ctx.extra.get("python_facts_classes", 0) + len(rcls)
    for i in range(len(rcls)):
        got, exp = real.facts(kind, rcls, i), expected_facts(table, rcls, i)
        if got["mro"] is None:
            got["mro"] = exp["mro"]
        if _facts_repr(got) != _facts_repr(exp):
            ctx.extra["python_facts_adjusted"] = ctx.extra.get("python_facts_adjusted", 0) + 1
            if all(p in TVS for p in got["params"]):
                table[i]["params"] = [TVS.index(p) for p in got["params"]]
            table[i]["mro"] = list(got["mro"])
            if got["orig"] is None:
                table[i]["orig"] = None
            elif table[i]["orig"] is None:
                table[i]["orig"] = [dict(b) for b in classes[i]["bases"]]
            if _facts_repr(real.facts(kind, rcls, i) | {"mro": table[i]["mro"]}) != _facts_repr(expected_facts(table, rcls, i)):
                ctx.extra["python_facts_unexplained"] = ctx.extra.get("python_facts_unexplained", 0) + 1
                ctx.dist[f"skipped-python-facts-unexplained-{kind}"] += 1
                return []
        out.append(("python-facts", {**case_base, "cls": i}, None, _facts_repr(got),
                    _facts_repr(expected_facts(table, rcls, i))))
    h_json = {"kind": kind, "tvars": TV_DECLS,
              "classes": [{k: v for k, v in t.items() if k != "full_mro"} for t in table]}
    # ---- raw members of every class
    for i in range(len(rcls)):
        obs = {}
        for which in ("in", "out"):
            r = real.raw(rcls[i], which)
            obs[which] = None if r is None else r
        out.append(("raw-members", {**case_base, "cls": i}, {"op": "raw", "h": h_json, "cls": i}, obs, None))
    # ---- resolution + oracle
    for tgt in targets:
        try:
            tp = real.target(rcls, tgt)
        except Exception as e:     # pydantic's own generic machinery may refuse / crash on a subscription
            ctx.dist[f"unbuildable-target-{kind}-{type(e).__name__}"] += 1
            continue
        declared = py_declared(table, tgt)
        obs = {which: real.resolved(tp, which) for which in ("in", "out")}
        if "pydantic-internal" in obs.values():
            ctx.dist["excluded-pydantic-internal-error"] += 1
            continue
        case = {**case_base, "target": tgt}
        inherited_generic = any(
            definer(table, tgt["cls"], k) != tgt["cls"] and h_is_generic(own_ann(table, definer(table, tgt["cls"], k), k))
            for k in declared)
        ctx.note_case(case, nontrivial=inherited_generic, kind=f"{kind}-{'bare' if tgt['args'] is None else 'param'}")
        for feat in features(table, tgt):
            ctx.dist[feat] += 1
        bad = oracle_types(ctx, kind, table, tgt, declared, obs, case)
        if not bad and all(closed(h) for h in declared.values() if h is not None):
            oracle_load(ctx, real, kind, table, rcls, tgt, tp, declared, case)
        out.append(("resolve-generic", case, {"op": "resolve", "h": h_json, "target": tgt}, obs, declared))
    return out


def _facts_repr(f):
    return {
        "params": [repr(p) for p in f["params"]],
        "orig": None if f["orig"] is None else [[c, None if a is None else [repr(x) for x in a]] for c, a in f["orig"]],
        "bases": [[c, None if a is None else [repr(x) for x in a]] for c, a in f["bases"]],
        "mro": list(f["mro"]),
    }


def oracle_types(ctx: Ctx, kind, table, tgt, declared, obs, case) -> bool:
    """direct oracle 1: the type used for each field is the declared type"""
    bad = False
    for which in ("in", "out"):
        got = obs[which]
        if not isinstance(got, dict):
            sig = signature_for(kind, table, tgt, None, "resolve:no-shape")
            ctx.fail(sig, f"{kind} hierarchy {case['classes']} target {tgt}: {which}put shape request answered "
                          f"{got!r}, declared field types are {declared}", {**case, "suite": "resolve-generic"})
            return True
        if set(got) != set(declared):
            ctx.fail("resolve:field-set", f"{kind} hierarchy {case['classes']} target {tgt}: fields {sorted(got)} "
                                          f"but the classes declare {sorted(declared)}", {**case, "suite": "resolve-generic"})
            return True
        for k, h in declared.items():
            if h is None or not same_type(got[k], h):
                sig = signature_for(kind, table, tgt, k, "resolve:field-type")
                ctx.fail(sig, f"{kind} hierarchy {case['classes']} target {tgt}: field {k!r} is handled as "
                              f"{got[k]!r} but its annotation substituted along the bases is "
                              f"{to_py(h)!r}" if h is not None else f"field {k!r}: no chain of bases reaches its definer",
                         {**case, "suite": "resolve-generic"})
                bad = True
    return bad


def alt_targets(table, tgt):
    ps = table[tgt["cls"]]["params"]
    if not ps:
        return
    base = tgt["args"] if tgt["args"] is not None else [implicit_of(p) for p in ps]
    for i in range(len(ps)):
        for alt in admissible(ps[i]):
            if alt != base[i]:
                yield {"cls": tgt["cls"], "args": [alt if j == i else a for j, a in enumerate(base)]}


def oracle_load(ctx: Ctx, real: Real, kind, table, rcls, tgt, tp, declared, case):
    """direct oracle 2: conforming data loads (and dumps back), data fitting only another substitution fails"""
    data = {k: conforming(h) for k, h in declared.items()}
    case = {**case, "suite": "load"}
    try:
        obj = real.retort.load(data, tp)
    except Exception as e:
        tag = f"load:conforming-rejected:{kind}"
        if kind in ("namedtuple", "pydantic") and len(table[tgt["cls"]]["params"]) == 1:
            # an iterable model class with exactly one type argument
            tag = "one-parameter-generic-model-routed-to-iterable-provider"
        sig = signature_for(kind, table, tgt, None, tag)
        ctx.fail(sig, f"{kind} hierarchy {case['classes']} target {tgt}: data {data} conforms to the declared types "
                      f"{ {k: repr(to_py(h)) for k, h in declared.items()} } but load raised {type(e).__name__}", case)
        return
    ctx.dist["load-ok"] += 1
    try:
        dumped = real.retort.dump(obj, tp)
    except Exception as e:
        ctx.fail(f"dump:raises:{kind}", f"{kind} hierarchy {case['classes']} target {tgt}: dump of the loaded object "
                                        f"raised {type(e).__name__}: {e}", case)
        return
    if _jsonish(dumped) != data:
        ctx.fail(f"dump:round-trip:{kind}", f"{kind} hierarchy {case['classes']} target {tgt}: loaded {data}, dumped "
                                            f"{dumped}", case)
        return
    tried = 0
    for alt in alt_targets(table, tgt):
        alt_decl = py_declared(table, alt)
        for k, h in declared.items():
            ah = alt_decl.get(k)
            if ah is None or ah == h:
                continue
            v = conforming(ah)
            if fits(v, h):
                continue
            bad = dict(data)
            bad[k] = v
            tried += 1
            try:
                real.retort.load(bad, tp)
            except real.LoadError:
                ctx.dist["load-rejected"] += 1
                continue
            except Exception as e:
                ctx.fail(f"load:non-LoadError:{kind}", f"{kind} target {tgt}: data {bad} raised {type(e).__name__}", case)
                return
            sig = signature_for(kind, table, tgt, k, f"load:other-substitution-accepted:{kind}")
            ctx.fail(sig, f"{kind} hierarchy {case['classes']} target {tgt}: field {k!r} has declared type "
                          f"{to_py(h)!r} but {v!r} (fits only {to_py(ah)!r}) was accepted", {**case, "bad": bad})
            return
        if tried >= 6:
            break


# ---------------------------------------------------------------------------
# comparison with the model
# ---------------------------------------------------------------------------

def compare(ctx: Ctx, suite, case, rep, obs, extra):
    """True when model and real agree"""
    if suite == "python-facts":
        return obs == extra
    if rep is None or "ok" not in rep:
        return False
    m = rep["ok"]
    if suite == "raw-members":
        for which in ("in", "out"):
            if obs[which] is None:
                return False
            members, overridden = obs[which]
            mm = {k: h for k, h in m["members"]}
            if set(mm) != set(members) or any(not same_type(members[k], mm[k]) for k in mm):
                return False
            if set(m["overridden"]) != set(overridden):
                return False
        return True
    if suite == "resolve-generic":
        mm = {k: h for k, h in m["members"]}
        for which in ("in", "out"):
            got = obs[which]
            if not isinstance(got, dict) or set(got) != set(mm):
                return False
            if any(not same_type(got[k], mm[k]) for k in mm):
                return False
        return True
    return False


def model_vs_python_spec(ctx: Ctx, case, rep, declared):
    """the Lean specification and the harness's own reading of the property must coincide (guards the oracle)"""
    if rep is None or "ok" not in rep:
        return True
    spec = {k: h for k, h in rep["ok"]["spec"]}
    for k, h in declared.items():
        if (h is None) != (spec.get(k) is None):
            return False
        if h is not None and not same_type(to_py(h), spec[k]):
            return False
    return True


def process(ctx: Ctx, drv, items):
    reqs = [it[2] for it in items if it[2] is not None]
    reps = iter(drv.batch(reqs)) if drv else None
    counts = {}
    for suite, case, req, obs, extra in items:
        rep = None
        if req is not None:
            rep = next(reps) if reps is not None else None
            if reps is None:
                continue
        c = counts.setdefault(suite, [0, 0])
        c[0] += 1
        if not compare(ctx, suite, case, rep, obs, extra):
            c[1] += 1
            ctx.disagree(suite, case, _obs_repr(obs), rep if rep is not None else extra)
        if suite == "resolve-generic" and rep is not None and "ok" in rep:
            m = rep["ok"]
            ctx.dist["model-wf" if m["wf"] else "model-not-wf"] += 1
            if m["wf"] and m["prec"] and m["ovis"] and case["kind"] != "pydantic":
                ctx.dist["covered-by-resolve_eq_spec_partial"] += 1
            if m["wf"] and m["prec"] and case["kind"] == "pydantic":
                ctx.dist["covered-by-resolve_eq_spec_pydantic"] += 1
            if m["wf"] and m["mono"] and m["noconf"] and case["kind"] not in ("pydantic", "typeddict"):
                ctx.dist["covered-by-resolve_eq_spec_no_conflict"] += 1
            if not m["mono"]:
                ctx.dist["model-mro-not-monotone"] += 1
            sc = counts.setdefault("spec-agrees", [0, 0])
            sc[0] += 1
            if not model_vs_python_spec(ctx, case, rep, extra):
                sc[1] += 1
                ctx.disagree("spec-agrees", case, {k: None if h is None else repr(to_py(h)) for k, h in extra.items()},
                             rep["ok"]["spec"])
    for suite, (n, d) in counts.items():
        ctx.suite(suite, n, d)


def _obs_repr(obs):
    def r(x):
        if isinstance(x, dict):
            return {k: r(v) for k, v in x.items()}
        if isinstance(x, (list, tuple, set, frozenset)):
            return sorted((r(v) for v in x), key=repr) if isinstance(x, (set, frozenset)) else [r(v) for v in x]
        if x is None or isinstance(x, (str, int, bool)):
            return x
        return repr(x)
    return r(obs)


def suite_implicit(ctx: Ctx, real: Real, drv):
    """fill_implicit_params on a one-parameter generic per TypeVar kind vs TVDecl.implicit"""
    items = []
    for d in TV_DECLS:
        cls = dataclass(types.new_class(f"Imp{d['id']}", (Generic[TVS[d["id"]]],), {},
                                        lambda ns, d=d: ns.update({"__annotations__": {"x": TVS[d["id"]]},
                                                                   "__module__": __name__})))
        got = typing.get_args(real.fill_implicit_params(cls))[0]
        items.append((d, got))
    reps = drv.batch([{"op": "implicit", "tvar": d} for d, _ in items]) if drv else [None] * len(items)
    n = bad = 0
    for (d, got), rep in zip(items, reps):
        ctx.note_case({"suite": "implicit", "tvar": d}, nontrivial=bool(d["bound"] or d["constraints"]), kind="implicit")
        if not same_type(got, implicit_of(d["id"])):
            ctx.fail("implicit:documented-table", f"TypeVar {d}: implicit parameter is {got!r}, documented "
                                                  f"{to_py(implicit_of(d['id']))!r}", {"suite": "implicit", "tvar": d})
        if rep is not None:
            n += 1
            if "ok" not in rep or not same_type(got, rep["ok"]):
                bad += 1
                ctx.disagree("implicit-params", {"tvar": d}, repr(got), rep)
    if drv:
        ctx.suite("implicit-params", n, bad)


def malformed_stream(ctx: Ctx, rng, n):
    """class tables Python itself rejects or that are out of the model's domain: the harness must classify them,
    never crash, and must not send them as agreement"""
    for _ in range(n):
        kind = rng.choice(KINDS)
        classes = gen_classes(rng, kind, n_max=4)
        c = rng.choice(classes)
        r = rng.random()
        if r < 0.25:
            # a TypeVar that is not a parameter of the class (Python does not object at run time): outside the
            # property and outside the model (`AnnScoped`), observed only
            ps = derive_table(kind, classes)
            mine = ps[classes.index(c)]["params"] if ps else []
            stranger = rng.choice([v for v in range(4) if v not in mine] or [3])
            c["ann"] = c["ann"] + [["z", rng.choice([TV(stranger), G("List", [TV(stranger)])])]]
            if kind == "namedtuple":
                classes[0]["ann"] = classes[0]["ann"] + [["z", A("int")]] if c is not classes[0] else classes[0]["ann"]
            yield kind, classes, "out-of-scope"
            continue
        if r < 0.4 and c["generic"]:
            c["generic"] = c["generic"] + [c["generic"][0]]           # duplicate parameter
        elif r < 0.6 and c["bases"]:
            c["bases"] = c["bases"] + [dict(c["bases"][0])]           # duplicate base
        elif c["bases"] and c["bases"][0]["args"]:
            c["bases"][0]["args"] = c["bases"][0]["args"] + [A("int")]  # arity
        else:
            c["generic"] = []                                           # Generic[()]
        yield kind, classes, "broken-class-statement"


def observe_out_of_scope(ctx: Ctx, real: Real, kind, classes, table):
    """the resolver on a class that uses a TypeVar it is not generic in: recorded, never compared"""
    if table is None:
        ctx.dist["out-of-scope:rejected-by-python-rules"] += 1
        return
    try:
        rcls = real.build(kind, classes)
    except Exception:
        ctx.dist["out-of-scope:unbuildable"] += 1
        return
    c = len(classes) - 1
    tgts = [{"cls": c, "args": None}]
    if table[c]["params"]:
        tgts.append({"cls": c, "args": [admissible(p)[0] for p in table[c]["params"]]})
    for tgt in tgts:
        try:
            got = real.resolved(real.target(rcls, tgt), "in")
        except Exception:
            got = "unbuildable-target"
        if isinstance(got, dict):
            got = "typevar-left-in-place" if any(getattr(t, "__parameters__", ()) or isinstance(t, TypeVar)
                                                 for t in got.values()) else "resolved-closed"
        ctx.dist[f"out-of-scope:{got}"] += 1


def gen_cases(ctx: Ctx, n_random):
    rng = ctx.rng
    for kind in KINDS:
        for name, classes, targets in FAMILIES:
            if kind == "namedtuple" and not namedtuple_ok(classes):
                continue
            yield kind, classes, targets, f"family:{name}"
    # exhaustive over the small vocabulary; the kind rotates so every kind sees every shape over 5 seeds,
    # the thorough tier runs every shape for every kind
    for idx, (classes, all_kinds) in enumerate(gen_systematic(ctx.tier == "thorough")):
        if ctx.tier != "thorough" and (idx // len(KINDS)) % 2 != ctx.seed % 2:
            continue                                   # quick: half of the shapes per seed
        kinds = KINDS if ctx.tier == "thorough" and all_kinds else [KINDS[(idx + ctx.seed // 2) % len(KINDS)]]
        for kind in kinds:
            if kind == "namedtuple" and not namedtuple_ok(classes):
                kind = "dataclass"
            table = derive_table(kind, classes)
            if table is None:
                ctx.dist["rejected-by-python-rules"] += 1
                continue
            yield kind, classes, systematic_targets(table), "systematic"
    for _ in range(n_random):
        kind = rng.choice(KINDS)
        classes = gen_classes(rng, kind)
        if kind == "namedtuple" and not namedtuple_ok(classes):
            ctx.dist["regenerated-namedtuple"] += 1
            continue
        table = derive_table(kind, classes)
        if table is None:
            ctx.dist["rejected-by-python-rules"] += 1
            continue
        yield kind, classes, gen_targets(rng, table), "random"


def run(ctx: Ctx):
    real = Real()
    drv = None
    if ctx.driver_ok:
        try:
            drv = Driver("drv_c16")
        except InfraError:
            drv = None
    suite_implicit(ctx, real, drv)
    items = []
    for kind, classes, targets, origin in gen_cases(ctx, ctx.budget(1000, 8000)):
        got = run_case(ctx, real, kind, classes, targets, origin)
        items += got
        for it in got[-1:]:
            ctx.sample({"suite": it[0], "case": it[1], "real": _obs_repr(it[3])}, every=397)
        if len(items) >= 4000:
            process(ctx, drv, items)
            items = []
    for kind, classes, what in malformed_stream(ctx, ctx.rng, ctx.budget(150, 1500)):
        table = derive_table(kind, classes)
        ctx.note_case({"kind": kind, "classes": classes, "origin": "malformed"}, nontrivial=False, kind="malformed")
        if what == "out-of-scope":
            observe_out_of_scope(ctx, real, kind, classes, table)
        elif table is not None:
            items += run_case(ctx, real, kind, classes, [{"cls": len(classes) - 1, "args": None}], "malformed")
        else:
            try:
                real.build(kind, classes)
                ctx.dist["malformed-accepted-by-python"] += 1
            except Exception:
                ctx.dist["malformed-rejected-by-python"] += 1
    process(ctx, drv, items)
    adjusted = ctx.extra.get("python_facts_adjusted", 0)
    if adjusted * 100 > max(ctx.extra.get("python_facts_classes", 0), 1):
        raise InfraError(f"the harness's model of CPython class creation disagrees with the interpreter on {adjusted} "
                         f"of {ctx.extra.get('python_facts_classes')} classes: fix derive_table before trusting this run")
    ctx.extra["exhaustive"] = False
    ctx.extra["exhaustive_part"] = ("every two-class chain over 7 parents x 5 argument choices per parameter x 5 child "
                                    "bodies x Generic[...] orders (quick: half of the shapes per seed parity, kinds rotate with the seed; all kinds and shapes in "
                                    "thorough, which also adds a grandchild and a diamond per chain for one rotating kind)")


def search(ctx: Ctx):
    """after a broken tie: re-run the oracle on the disagreeing cases, then a larger random budget"""
    real = Real()
    for d in ctx.disagreements[:200]:
        c = d["case"]
        if "classes" in c:
            tgts = [c["target"]] if "target" in c else [{"cls": len(c["classes"]) - 1, "args": None}]
            run_case(ctx, real, c["kind"], c["classes"], tgts, "search")
    if not ctx.failures:
        for kind, classes, targets, origin in gen_cases(ctx, 4000):
            run_case(ctx, real, kind, classes, targets, origin)


def replay(ctx: Ctx, case) -> bool:
    real = Real()
    before = len(ctx.failures)
    if "classes" not in case:
        if case.get("suite") == "implicit":
            suite_implicit(ctx, real, None)
            return len(ctx.failures) > before
        return False
    tgts = [case["target"]] if "target" in case else [{"cls": len(case["classes"]) - 1, "args": None}]
    run_case(ctx, real, case["kind"], case["classes"], tgts, "replay")
    return len(ctx.failures) > before
