"""C20 — load, dump and convert are pure with respect to their arguments.

Lean: Props/C20.lean over the provenance model Morph/Prov.lean (loadP/dumpP refine load/dump under erasure; every node of a
result is fresh, or argument-owned at an as-is position, or a captured default constant; two successive calls allocate
disjoint ids).
Tie: correspondence `provenance`: for every mutable container of a real result the observed ownership class (object of the
argument / shared with a second result or with the model class's default / new) vs the model's annotation.
Direct oracle (real code only): deep snapshot of the argument before/after; equal arguments give equal results; id() overlap
between mutable containers of two successive results, of result and argument, for load, dump and convert; extra_in / extra_out.
Providers outside the default recipe (flag_by_member_names, enum_by_*, datetime/date by format and timestamp, default_dict,
as_list, extra_out, default factories; each as every element kind) are covered by the oracle of c20_providers.py: three calls with
equal arguments through one retort, results equal, no shared container, nothing retained by the retort after the results are
modified in place.
"""
import collections
import copy
import dataclasses
from dataclasses import dataclass, field

from extract import scalars
from harness import morph
from harness.core import Ctx
from harness.props import c20_providers

ID = "C20"
PROPS_FILE = "AdaptixProofs/Props/C20.lean"
LEAN_TARGETS = ["AdaptixProofs.Props.C20", "drv_morph"]
EXTRACT = [scalars.emit]
CLAIM = {
    "technique": "Lean 4 proof over a provenance-annotated refinement of the loader/dumper model (erasure refinement, freshness "
                 "of every built container, disjoint allocation of successive calls) + identity-level correspondence",
    "text": (
        "Morph/Prov.lean annotates every node of a result with fresh | arg | const; Props/C20.lean proves that the annotated "
        "functions erase to the frozen load/dump model (loadP_erase, dumpP_erase), that every node of a loaded or dumped value is "
        "fresh, or argument-owned at a position whose type passes values as is (Any, Literal, identity scalars), or a captured "
        "default constant of a field whose default is rendered by reference, and that two successive calls allocate disjoint, "
        "duplicate-free ids. The correspondence compares these annotations with the ownership observed by id() on the real "
        "objects; the direct oracle snapshots arguments and intersects the mutable containers of successive results."
    ),
    "note": (
        "PARTIAL: 'never mutates its argument' and 'a fresh node is a distinct Python object' hold in the pure model by "
        "construction; for the real code they are established only by the harness (deep snapshots, id() checks) on the explored "
        "cases. One-shot iterators are consumed by loading by nature and are excluded from 'argument unchanged'. convert and "
        "extra_in/extra_out are checked by the oracle only (not modelled). A mutable DEFAULT VALUE object (e.g. a NamedTuple "
        "field `xs: list = [Decimal(1)]`) is the model class's own object and is shared between results exactly as the class's "
        "own constructor shares it; it is annotated `const` and not counted as built by adaptix. The representation providers "
        "outside the default recipe (flag_by_member_names, enum_by_name/value, datetime/date by format and timestamp, default_dict, "
        "as_list layouts) are NOT in the Lean model: their purity is checked by the direct oracle only (suite `providers`)."
    ),
    "design_ref": "DESIGN.md §4 C20",
}
RULE = ("generated types x valid data x pairs of successive calls (load, dump), 3 modes; convert and extra probes; representation "
        "providers x element kinds x retort modes x three calls with equal arguments through one retort; non-trivial = "
        "the result contains at least one mutable container")
ASSUMPTIONS = ["identity is observed with id() while all objects are alive", "one-shot iterators excluded from 'argument unchanged'"]
TRUSTED = []

MUTABLE = (list, set, dict, collections.deque, bytearray)


def is_mutable(o):
    return isinstance(o, MUTABLE) or (dataclasses.is_dataclass(o) and not isinstance(o, type))


def walk_ids(o, acc=None, depth=0):
    """ids of every mutable container reachable from o"""
    acc = acc if acc is not None else {}
    if depth > 12 or id(o) in acc:
        return acc
    if is_mutable(o):
        acc[id(o)] = o
    if isinstance(o, (list, tuple, set, frozenset, collections.deque)):
        for x in o:
            walk_ids(x, acc, depth + 1)
    elif isinstance(o, dict):
        for k, v in o.items():
            walk_ids(k, acc, depth + 1)
            walk_ids(v, acc, depth + 1)
    elif dataclasses.is_dataclass(o) and not isinstance(o, type):
        for f in dataclasses.fields(o):
            walk_ids(getattr(o, f.name), acc, depth + 1)
    return acc


def hidden_state(o, acc=None, depth=0):
    """state of stateful leaves that the value encoding does not show (the position of a stream), in traversal order"""
    import io
    acc = acc if acc is not None else []
    if depth > 12:
        return acc
    if isinstance(o, io.BytesIO):
        acc.append(("BytesIO", o.getvalue(), o.tell(), o.closed))
    elif isinstance(o, (list, tuple, collections.deque)):
        for x in o:
            hidden_state(x, acc, depth + 1)
    elif isinstance(o, dict):
        for k, v in o.items():
            hidden_state(k, acc, depth + 1)
            hidden_state(v, acc, depth + 1)
    elif dataclasses.is_dataclass(o) and not isinstance(o, type):
        for f in dataclasses.fields(o):
            hidden_state(getattr(o, f.name), acc, depth + 1)
    return acc


def default_objects(spec: morph.Spec):
    out = {}
    for name, s in morph.spec_classes_deep(spec).items():
        for f in dataclasses.fields(s.cls):
            if f.default is not dataclasses.MISSING:
                walk_ids(f.default, out)
    return out


def fresh_violations(spec: morph.Spec, result, arg_ids, depth=0):
    """mutable containers of `result` that are objects of the argument although their position is not an as-is type"""
    bad = []
    k = spec.kind
    if depth > 10 or k == "any" or k.startswith("scalar") or k == "literal":
        return bad
    if is_mutable(result) and id(result) in arg_ids:
        bad.append((k, type(result).__name__))
    if k == "union":
        return bad
    if k.startswith("iter") and isinstance(result, (list, tuple, set, frozenset, collections.deque)) and spec.children:
        for el in result:
            bad += fresh_violations(spec.children[0], el, arg_ids, depth + 1)
    elif k == "tuple" and isinstance(result, tuple) and len(result) == len(spec.children):
        for c, el in zip(spec.children, result):
            bad += fresh_violations(c, el, arg_ids, depth + 1)
    elif k == "dict" and isinstance(result, dict):
        for key, v in result.items():
            bad += fresh_violations(spec.children[0], key, arg_ids, depth + 1)
            bad += fresh_violations(spec.children[1], v, arg_ids, depth + 1)
    elif k == "model" and hasattr(spec, "field_specs") and dataclasses.is_dataclass(result):
        for fname, fs, _ in spec.field_specs:
            if fs.kind == "iter:list" and not fs.children:
                for el in getattr(result, fname):
                    bad += fresh_violations(spec, el, arg_ids, depth + 1)
            else:
                bad += fresh_violations(fs, getattr(result, fname), arg_ids, depth + 1)
    return bad


def fresh_violations_dump(spec: morph.Spec, dumped, arg_ids, depth=0):
    """same for dumped data (dumped model = dict, iterables = tuple/list)"""
    bad = []
    k = spec.kind
    if depth > 10 or k == "any" or k.startswith("scalar") or k == "literal" or k == "union":
        return bad
    if is_mutable(dumped) and id(dumped) in arg_ids:
        bad.append((k, type(dumped).__name__))
    if k.startswith("iter") and isinstance(dumped, (list, tuple)) and spec.children:
        for el in dumped:
            bad += fresh_violations_dump(spec.children[0], el, arg_ids, depth + 1)
    elif k == "tuple" and isinstance(dumped, tuple) and len(dumped) == len(spec.children):
        for c, el in zip(spec.children, dumped):
            bad += fresh_violations_dump(c, el, arg_ids, depth + 1)
    elif k == "dict" and isinstance(dumped, dict):
        for v in dumped.values():
            bad += fresh_violations_dump(spec.children[1], v, arg_ids, depth + 1)
    elif k == "model" and hasattr(spec, "field_specs") and isinstance(dumped, dict):
        for fname, fs, _ in spec.field_specs:
            if fname in dumped and (fs.children or not fs.kind.startswith("iter")):
                bad += fresh_violations_dump(fs, dumped[fname], arg_ids, depth + 1)
    return bad


def default_prov(spec: morph.Spec):
    from adaptix._internal.code_tools.utils import get_literal_expr
    out = {}
    for name, s in morph.spec_classes_deep(spec).items():
        for f in dataclasses.fields(s.cls):
            if f.default is not dataclasses.MISSING:
                out[f"{name}.{f.name}"] = "fresh" if get_literal_expr(f.default) is not None else "const"
            else:
                out[f"{name}.{f.name}"] = "fresh"
    return out


def real_prov(result, arg_ids, shared_ids):
    """provenance letters of the mutable containers of a real result, in traversal order (model's node order:
    root, then children; dict children k0,v0,k1,v1; object children = field values)"""
    out = []

    def go(o, depth=0):
        if depth > 12:
            return
        if is_mutable(o):
            out.append("a" if id(o) in arg_ids else "c" if id(o) in shared_ids else "f")
        if isinstance(o, (list, tuple, collections.deque)):
            for x in o:
                go(x, depth + 1)
        elif isinstance(o, (set, frozenset)):
            return   # iteration order of real sets vs model lists: compared by the root only
        elif isinstance(o, dict):
            for k, v in o.items():
                go(k, depth + 1)
                go(v, depth + 1)
        elif dataclasses.is_dataclass(o) and not isinstance(o, type):
            for f in dataclasses.fields(o):
                go(getattr(o, f.name), depth + 1)
    go(result)
    return out


def model_prov(ptree):
    """same traversal over the model's provenance tree"""
    out = []

    def go(t):
        kind, prov = t[0], t[1]
        if kind in ("l", "S", "d", "q", "Y", "o"):
            out.append(prov)
        if kind in ("l", "t", "q"):
            for x in t[2]:
                go(x)
        elif kind == "d":
            for k, v in t[2]:
                go(k)
                go(v)
        elif kind == "o":
            for _n, v in t[3]:
                go(v)
    go(ptree)
    return out


def run_load_cases(ctx: Ctx, eng: morph.Engine, specs):
    requests, expect = [], []
    for spec in specs:
        if eng.real.dump("DISABLE", True, spec.hint, None).get("r") == "no-dumper":
            continue
        dflt = default_objects(spec)
        for _ in range(2):
            try:
                x = spec.gen(ctx.rng)
                hs0 = hidden_state(x)
                datum = eng.real.dumper("DISABLE", True, spec.hint)(x)
            except Exception:  # noqa: BLE001
                continue
            if hidden_state(x) != hs0:
                ctx.fail("dump-mutates-object", f"dumping changed the state of a stateful leaf for {repr(spec.hint)[:120]}: "
                         f"was {hs0}, is {hidden_state(x)}", {"hint": repr(spec.hint)[:300], "ty": spec.ty, "mode": "DISABLE"})
            mode = ctx.rng.choice(morph.MODES)
            ld = eng.real.loader(mode, True, spec.hint)
            dm = eng.real.dumper(mode, True, spec.hint)
            case = {"hint": repr(spec.hint)[:300], "ty": spec.ty, "datum": repr(datum)[:300], "mode": mode}
            # ---- load: snapshot, two calls on equal but distinct arguments, identity checks
            snap = copy.deepcopy(datum)
            snap_enc = morph.enc(snap)
            try:
                r1 = ld(datum)
                r2 = ld(copy.deepcopy(datum))
            except Exception:  # noqa: BLE001
                continue
            mutable_nodes = walk_ids(r1)
            ctx.note_case(case, nontrivial=bool(mutable_nodes), kind="load:" + spec.kind.split(":")[0])
            if morph.enc(datum) != snap_enc:
                ctx.fail("load-mutates-argument", f"loading mutated the input datum for {repr(spec.hint)[:120]}", case)
            if morph.canon_val(morph.enc(r1)) != morph.canon_val(morph.enc(r2)):
                ctx.fail("load-not-repeatable", f"equal arguments gave different results for {repr(spec.hint)[:120]}", case)
            arg_ids = walk_ids(datum)
            shared = {i: o for i, o in mutable_nodes.items() if i in walk_ids(r2) and i not in arg_ids}
            foreign = {i: o for i, o in shared.items() if i not in dflt}
            if foreign:
                ctx.fail("load-results-share-container", f"two loads share a mutable {type(next(iter(foreign.values()))).__name__} "
                         f"that is not the model's own default object, for {repr(spec.hint)[:120]}", case)
            bad = fresh_violations(spec, r1, arg_ids)
            if bad:
                ctx.fail("load-result-aliases-argument", f"a loaded container at a non-as-is position is an object of the argument "
                         f"{bad[:3]} for {repr(spec.hint)[:120]}", case)
            if eng.drv and morph.faithful(snap_enc, morph.ty_is_eq_sensitive(spec.ty)):
                req = morph.load_request(eng.real, spec, datum, mode, True, eng.site_cache)
                req["op"] = "load_prov"
                req["default_prov"] = default_prov(spec)
                requests.append(req)
                expect.append((case, real_prov(r1, arg_ids, {**shared, **dflt}), "load"))
            # ---- dump
            xs = copy.deepcopy(x)
            hs = hidden_state(x)
            try:
                d1 = dm(x)
                d2 = dm(x)
            except Exception:  # noqa: BLE001
                continue
            if hs:
                ctx.dist["dump:stateful-leaf"] += 1
            if morph.canon_val(morph.enc(x)) != morph.canon_val(morph.enc(xs)) or hidden_state(x) != hs:
                ctx.fail("dump-mutates-object", f"dumping mutated the object for {repr(spec.hint)[:120]}"
                         + (f": stateful leaves were {hs}, are {hidden_state(x)}" if hidden_state(x) != hs else ""), case)
            if morph.canon_val(morph.enc(d1)) != morph.canon_val(morph.enc(d2)) or \
                    morph.canon_val(morph.enc(d1)) != morph.canon_val(morph.enc(datum)):
                ctx.fail("dump-not-repeatable", f"two successive dumps of the same unchanged object differ for "
                         f"{repr(spec.hint)[:120]}: {d1!r:.80} then {d2!r:.80}", case)
            obj_ids = walk_ids(x)
            both = [o for i, o in walk_ids(d1).items() if i in walk_ids(d2) and i not in obj_ids]
            if both:
                ctx.fail("dump-results-share-container", f"two dumps share a mutable {type(both[0]).__name__} for "
                         f"{repr(spec.hint)[:120]}", case)
            badd = fresh_violations_dump(spec, d1, obj_ids)
            if badd:
                ctx.fail("dump-result-aliases-object", f"a dumped container at a non-as-is position is an object of the argument "
                         f"{badd[:3]} for {repr(spec.hint)[:120]}", case)
            if len(ctx.samples) < 4 and mutable_nodes:
                ctx.sample({"hint": repr(spec.hint)[:120], "datum": repr(datum)[:160], "real_prov": real_prov(r1, arg_ids, shared)})
    if eng.drv and requests:
        replies = eng.drv.batch(requests)
        n = d = 0
        for (case, rp, _), rep in zip(expect, replies):
            if "ok" not in rep or rep["ok"].get("r") != "ok":
                continue
            mp = model_prov(rep["ok"]["v"])
            n += 1
            if mp != rp:
                d += 1
                ctx.disagree("provenance", case, rp, mp)
        ctx.suite("provenance", n, d)


def default_probes(ctx: Ctx):
    """defaults from factories are fresh per loaded object; inline-literal defaults too"""
    from adaptix import Retort

    @dataclass
    class D:
        a: int
        xs: list = field(default_factory=list)
        m: dict = field(default_factory=lambda: {"k": []})

    r = Retort()
    o1, o2 = r.load({"a": 1}, D), r.load({"a": 2}, D)
    ctx.note_case({"probe": "factory-defaults"}, nontrivial=True, kind="probe:defaults")
    if o1.xs is o2.xs or o1.m is o2.m or o1.m["k"] is o2.m["k"]:
        ctx.fail("factory-default-shared", "two loaded objects share the result of a default factory", {"probe": "factory-defaults"})


def extra_probes(ctx: Ctx):
    from adaptix import Retort, name_mapping

    @dataclass
    class E:
        a: int
        extra: dict

    r = Retort(recipe=[name_mapping(E, extra_in="extra", extra_out="extra")])
    arg = {"a": 1, "x": [1], "y": {"z": 2}}
    snap = copy.deepcopy(arg)
    o1, o2 = r.load(arg, E), r.load(arg, E)
    ctx.note_case({"probe": "extra"}, nontrivial=True, kind="probe:extra")
    if arg != snap:
        ctx.fail("load-mutates-argument", "extra_in loading mutated the input", {"probe": "extra"})
    if o1.extra is o2.extra or o1.extra is arg:
        ctx.fail("extra-mapping-shared", "the mapping of collected extra data is not created anew", {"probe": "extra"})
    if set(o1.extra) != {"x", "y"}:
        ctx.fail("extra-mapping-content", f"extra mapping holds {sorted(o1.extra)}", {"probe": "extra"})
    obj = E(a=1, extra={"q": [1]})
    osnap = copy.deepcopy(obj)
    d1, d2 = r.dump(obj), r.dump(obj)
    if obj != osnap:
        ctx.fail("dump-mutates-object", "extra_out dumping mutated the object", {"probe": "extra"})
    if d1 is d2 or d1 is obj.extra:
        ctx.fail("dump-results-share-container", "extra_out: dumped dict not created anew", {"probe": "extra"})


def extra_layout_suite(ctx: Ctx, n: int):
    """generated models (dataclass / TypedDict with NotRequired keys) with one to three extra-data fields of as-is and dumped
    types, name_mapping(extra_in=..., extra_out=<one field | several fields | extractor>), objects with every subset of the extra
    fields present: load and dump leave their argument untouched (deep snapshot), are repeatable, and a later dump of the
    modified object shows no trace of the earlier one"""
    import typing
    from dataclasses import make_dataclass
    from typing import Any

    from adaptix import Retort, name_mapping
    rng = ctx.rng
    for i in range(n):
        kind = rng.choice(["dataclass", "typeddict", "typeddict"])
        n_extra = rng.choice([1, 2, 2, 3])
        extra_names = [f"ex{j}" for j in range(n_extra)]
        extra_types = {nm: rng.choice([Any, dict, dict[str, Any], dict[str, int], typing.Mapping[str, Any]]) for nm in extra_names}
        regular = [("a", int), ("b", str)]
        if kind == "dataclass":
            import dataclasses
            cls = make_dataclass(f"XL{i}", [*regular, *[(nm, extra_types[nm], dataclasses.field(default_factory=dict)) for nm in extra_names]])
            mk = lambda **kw: cls(**kw)          # noqa: E731
        else:
            ann = {"a": int, "b": typing.NotRequired[str], **{nm: typing.NotRequired[extra_types[nm]] for nm in extra_names}}
            cls = typing.TypedDict(f"XL{i}", ann)
            mk = lambda **kw: dict(kw)           # noqa: E731
        out_mode = rng.choice(["one", "several", "several", "extractor"]) if n_extra > 1 else rng.choice(["one", "extractor"])
        if out_mode == "one":
            extra_out = extra_names[0]
        elif out_mode == "several":
            extra_out = list(extra_names)
        else:
            def extra_out(obj, names=tuple(extra_names), is_td=(kind != "dataclass")):
                first = (obj.get(names[0], {}) if is_td else getattr(obj, names[0]))
                return first
        try:
            retort = Retort(recipe=[name_mapping(cls, extra_out=extra_out)])
            present = [nm for nm in extra_names if kind == "dataclass" or rng.random() < 0.8] or extra_names[:1]
            obj = mk(a=1, b="s", **{nm: {f"k{j}_{nm}": j + 1, "shared": j} for j, nm in enumerate(present)})
            snap = copy.deepcopy(obj)
            d1 = retort.dump(obj, cls)
        except Exception as e:  # noqa: BLE001
            ctx.dist[f"extra-layout:not-built:{type(e).__name__}"] += 1
            continue
        case = {"probe": "extra-layout", "kind": kind, "extra_types": {k: repr(v) for k, v in extra_types.items()}, "extra_out": out_mode,
                "present": present}
        ctx.note_case(case, nontrivial=len(present) > 1, kind=f"extra-layout:{kind}:{out_mode}:{len(present)}-present")
        if obj != snap:
            ctx.fail("dump-mutates-object", f"dumping a {kind} model with extra_out={out_mode} changed its argument: before {snap!r:.120} "
                     f"after {obj!r:.120}", case)
            continue
        d2 = retort.dump(obj, cls)
        if d1 != d2:
            ctx.fail("dump-not-repeatable", f"two dumps of the same unchanged object differ: {d1!r:.100} / {d2!r:.100}", case)
            continue
        if len(present) > 1 and kind != "dataclass":
            # drop one extra field and dump again: nothing of the dropped field may survive anywhere
            dropped = present[-1]
            obj2 = {k: v for k, v in obj.items() if k != dropped}
            want = Retort(recipe=[name_mapping(cls, extra_out=extra_out)]).dump(copy.deepcopy(obj2), cls)
            got = retort.dump(obj2, cls)
            if got != want:
                ctx.fail("dump-depends-on-earlier-dump", f"after an earlier dump, dumping the object without {dropped} gives {got!r:.120}; "
                         f"a fresh retort on a fresh copy gives {want!r:.120}", case)


def mapping_input_suite(ctx: Ctx, n: int):
    """loading a model from ANY mapping leaves that mapping untouched: inputs whose __getitem__ has side effects (defaultdict,
    a dict subclass with a recording __missing__), Counter, ChainMap, OrderedDict, a read-only MappingProxyType; models with
    several optional fields omitted in every combination; plain and flattened layouts; all modes"""
    import collections
    import dataclasses
    import types

    from adaptix import DebugTrail, Retort, name_mapping
    rng = ctx.rng

    class Recording(dict):
        def __missing__(self, key):
            self[key] = "<fabricated>"
            return self[key]
    for i in range(n):
        k = rng.randint(2, 5)
        names = [f"f{j}" for j in range(k)]
        optional = {nm: (j > 0 and rng.random() < 0.7) for j, nm in enumerate(names)}
        fields = [(nm, int) for nm in names if not optional[nm]] + \
                 [(nm, list, dataclasses.field(default_factory=list)) if rng.random() < 0.5 else (nm, int, dataclasses.field(default=7))
                  for nm in names if optional[nm]]
        cls = dataclasses.make_dataclass(f"MI{i}", fields)
        nested = rng.random() < 0.4
        recipe = [name_mapping(cls, map={nm: ("inner", nm) for nm in names[1:]})] if nested else []
        present = {nm: 1 for nm in names if not optional[nm] or rng.random() < 0.4}
        for nm in list(present):
            if dict((f[0], f[1]) for f in fields)[nm] is list:
                present[nm] = [1]
        plain = {names[0]: present.get(names[0], 1)}
        if nested:
            plain["inner"] = {nm: v for nm, v in present.items() if nm != names[0]}
        else:
            plain.update(present)
        mode = rng.choice(list(DebugTrail))
        retort = Retort(recipe=recipe, debug_trail=mode)
        try:
            want = retort.load(plain, cls)
        except Exception:  # noqa: BLE001
            continue
        makers = {
            "defaultdict": lambda d: collections.defaultdict(list, d), "Recording": lambda d: Recording(d),
            "Counter": lambda d: collections.Counter(d) if all(isinstance(v, int) for v in d.values()) else None,
            "ChainMap": lambda d: collections.ChainMap(dict(d)), "OrderedDict": lambda d: collections.OrderedDict(d),
            "MappingProxyType": lambda d: types.MappingProxyType(dict(d)),
        }
        for mname, mk in makers.items():
            def build(d):
                top = {key: (mk(v) if isinstance(v, dict) else v) for key, v in d.items()}
                return mk(top)
            inp = build(plain)
            if inp is None or (nested and inp.get("inner") is None):
                continue
            snap = {key: (dict(v) if hasattr(v, "keys") else v) for key, v in dict(inp).items()}
            case = {"suite": "mapping-input", "input": mname, "fields": {nm: "optional" if optional[nm] else "required" for nm in names},
                    "present": sorted(present), "nested": nested, "mode": mode.name}
            ctx.note_case(case, nontrivial=len(present) < k, kind=f"mapping-input:{mname}:{'nested' if nested else 'flat'}")
            try:
                got = retort.load(inp, cls)
            except Exception as e:  # noqa: BLE001
                ctx.dist[f"mapping-input:{mname}:raises-{type(e).__name__}"] += 1
                got = None
            after = {key: (dict(v) if hasattr(v, "keys") else v) for key, v in dict(inp).items()}
            if after != snap:
                ctx.fail("load-mutates-argument", f"loading {cls.__name__} from a {mname} changed the input: before {snap!r:.120} after "
                         f"{after!r:.120}", case)
                break
            if got is not None and got != want and mname not in ("defaultdict", "Recording", "Counter"):
                ctx.fail("load-not-repeatable", f"loading from a {mname} gives {got!r:.100}; from the equal plain dict {want!r:.100}", case)
                break


def convert_probes(ctx: Ctx):
    from adaptix.conversion import get_converter

    @dataclass
    class A:
        xs: list[int]
        m: dict[str, list[int]]
        n: int

    @dataclass
    class B:
        xs: list[int]
        m: dict[str, list[int]]
        n: int

    conv = get_converter(A, B)
    a = A(xs=[1, 2], m={"k": [3]}, n=5)
    snap = copy.deepcopy(a)
    b1, b2 = conv(a), conv(a)
    ctx.note_case({"probe": "convert"}, nontrivial=True, kind="probe:convert")
    if a != snap:
        ctx.fail("convert-mutates-object", "convert mutated the source object", {"probe": "convert"})
    if b1 != b2:
        ctx.fail("convert-not-repeatable", "convert gave different results for the same argument", {"probe": "convert"})
    if b1 is b2 or b1.xs is b2.xs or b1.m is b2.m:
        ctx.fail("convert-results-share-container", "two conversions share a container built by the converter", {"probe": "convert"})


def run(ctx: Ctx):
    eng = morph.Engine(ctx)
    specs = eng.gen_specs(ctx.budget(200, 3000), 3 if ctx.tier == "quick" else 4, stateful=True, iter_matrix=True, generic_models=True)
    run_load_cases(ctx, eng, specs)
    default_probes(ctx)
    extra_probes(ctx)
    extra_layout_suite(ctx, ctx.budget(120, 2000))
    mapping_input_suite(ctx, ctx.budget(80, 1500))
    convert_probes(ctx)
    c20_providers.suite(ctx, ctx.budget(400, 6000))


def search(ctx: Ctx):
    eng = morph.Engine(ctx)
    eng.drv = None
    run_load_cases(ctx, eng, eng.gen_specs(2500, 4, stateful=True, iter_matrix=True, generic_models=True))
    default_probes(ctx)
    extra_probes(ctx)
    extra_layout_suite(ctx, 1500)
    mapping_input_suite(ctx, 800)
    convert_probes(ctx)
    c20_providers.suite(ctx, 3000)


def replay(ctx: Ctx, case) -> bool:
    if isinstance(case, dict) and case.get("suite") == "providers":
        return c20_providers.replay(ctx, case)
    before = len(ctx.failures)
    default_probes(ctx)
    extra_probes(ctx)
    extra_layout_suite(ctx, 400)
    mapping_input_suite(ctx, 300)
    convert_probes(ctx)
    return len(ctx.failures) > before
