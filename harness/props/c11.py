"""C11 — results never depend on call history; retorts are immutable.

Lean side: AdaptixModel/Retort/{Cache,CacheSem,CacheSites}.lean (model), AdaptixProofs/Lemmas/Cache*.lean,
AdaptixProofs/Props/C11.lean (theorems).
Tie:
  * translator  extract/c11_sites.py -> Generated/C11Sites.lean; `sites_covered`, `facade_caches_covered`
  * hint-eq     Python `==`/hash and norm equality of every pair of pool hints   vs  `Hint.pyEq` / `Hint.canon`
  * cache-run   histories of facade calls (get_loader/load/get_dumper/dump/get_converter/convert/replace/extend)
                over a pool of mutually confusable hints, with a cleared / polluted process-wide
                normalize_type cache: outcome of every call on (a) the warmed real retort, (b) a fresh real
                retort, (c) the model
Direct oracle (real code only): (a) == (b) for every call; loaders/dumpers obtained earlier behave at the end of
the history as when they were obtained; ==-equal hints normalise to equal norms; a wider real-only suite adds
debug_trail variants, location-dependent providers over recursive models, dict/tuple/enum hints.
Recipes: the pool recipes use `loader` / `dumper` guarded by one or several types (`P[a, b]`) and `enum_by_name` /
`enum_by_exact_value` with 0..3 predicates (`bound_by_any`), all modelled; `c11_recipes.py` (real code only) runs
histories over retorts built from every public provider factory in all its argument forms and compares every call
with a never-used retort built from fresh provider objects (state kept inside a recipe object is shared by a retort
and its replace()/extend() clones); `c11_recursion.py` (real code only) runs histories in which a request for a
recursive type FAILS (a member nothing can load / dump) and the retort is then asked for the containers, enclosing
models and field types that reach the same locations - what a failed request leaves behind (recursion stubs) must not
be served later.
"""

import collections.abc
import enum
import itertools
import typing
from dataclasses import dataclass, fields as dc_fields
from typing import Annotated, Dict, List, Literal, NewType, Optional, Sequence, Tuple, Union

from extract.c11_sites import extract_c11_sites
from harness.core import Ctx, Driver, InfraError, canon
from harness.props import c11_recipes, c11_recursion

ID = "C11"
CLAIM = {
    "technique": "Lean 4 proof (cache invariant over all histories: every cached_call key is a sound proxy for the "
                 "closure it stands for) + site-list translator + model/code correspondence on histories",
    "text": (
        "Proved in Lean for the model of the retort caches (per-retort loader/dumper/converter caches, the shared "
        "call cache keyed by Python == of the cached_call arguments, the process-wide normalize_type lru cache, "
        "recursion stubs): key_sound (==-equal cache keys build equal closures, for every modelled cached_call "
        "site), cache_inv preserved by every operation including failed requests, hence history_independent: for "
        "every history of facade calls of any length, on any number of retorts, starting from any content of the "
        "normalisation cache, every call returns what it returns on a never-used retort constructed the same way; "
        "replace_extend_pure: replace()/extend() leave the original's state untouched and the clone starts with "
        "empty caches. The unrepaired key of LiteralProvider, value-based literal dedup and name-only union order "
        "are refuted by concrete histories (legacy_* theorems). The list of cached_call sites with their key "
        "arguments and of facade cache dicts is regenerated from the source on every run and must equal the "
        "modelled list (sites_covered). Recipe entries are guarded by any number of type predicates (bound / "
        "bound_by_any / P[a, b]) and wrap loader, dumper, enum_by_name or enum_by_exact_value: preds_accept_spec "
        "and preds_accept_set (an entry accepts exactly the norms of its predicates; order and repetitions are "
        "irrelevant), recipe_match_first (the serving entry is the first that accepts and serves - a function of "
        "recipe and request), multi_pred_enum_by_name_after_any_history (after any history on any retort, a class "
        "named by one of several predicates of enum_by_name is still loaded and dumped by name)."
    ),
    "note": (
        "Trusted: Lean 4.33 kernel; axioms audited each run. The theorems are about the hand-written model; it is "
        "tied to /repo on every run by the site translator and by differential testing of histories (warmed real "
        "retort vs fresh real retort vs model) over a pool of ~75 mutually confusable hints. Only DebugTrail.ALL "
        "retorts and the listed hint forms are modelled; cached_call sites outside the pool (flags, dict, tuple, "
        "datetime, ...) are covered by the translator (argument lists) and by the real-only history oracle, not by "
        "key_sound. In the model a recipe entry is immutable data; that the provider objects of the real recipe "
        "(shared by a retort and its clones) keep no state between requests is established only by testing: the "
        "cache-run correspondence on multi-predicate recipes and the real-only recipe-state histories over every "
        "public provider factory. The model keeps the recursion stubs per top-level request (as the code does: the "
        "resolver is created per facade call, which facade_caches_covered now pins down together with the statements "
        "of track_request / track_response); that nothing of a FAILED request for a recursive type survives in the "
        "retort is additionally tested on the real code by the rec-history suite. Holds for the tree with fixes/C11-literal-cache-key.patch, fixes/C12-stub-identity.patch, "
        "fixes/C15-union-order-total.patch and fixes/C15-literal-dedup.patch applied."
    ),
    "design_ref": "DESIGN.md §4 C11",
}
PROPS_FILE = "AdaptixProofs/Props/C11.lean"
LEAN_TARGETS = ["AdaptixProofs.Props.C11", "drv_c11"]
RULE = ("a case is a history of facade calls over the pool; quick: every sequence of <= 2 get_loader/get_dumper "
        "requests over the 14-hint core pool followed by a probe sweep, plus random histories of length <= 12 over "
        "the full pool with replace/extend, each under a cleared or polluted normalisation cache; a case is "
        "non-trivial when the history contains a request for a hint that is ==-equal to, or shares cache keys "
        "with, a different later hint (a 'twin'), a recursive model, a failing request followed by further calls, "
        "or a replace/extend; additionally every sequence of <= 2 requests over the 10-hint enum pool under recipes "
        "whose entries carry several predicates, random recipes with 0..3 predicates per entry, and (real code only) "
        "recipe-state histories: every public provider factory x every number of predicates it accepts x "
        "{no clone, replace, extend}, plus random recipes / histories; non-trivial there: a provider guarded by "
        "several predicates or a clone; and (real code only) rec-history: five recursive families with a member "
        "nothing can load / dump x recipes {plain, member bound below one enclosing model} x {every hint first then a "
        "sweep, a failing request then one other, random histories} over get_loader / load / get_dumper / dump; "
        "non-trivial there: a request for a type of the recursive cluster has failed and further calls follow")
ASSUMPTIONS = [
    "equal objects hash equal for every key component (validated on the pool by the hint-eq suite)",
    "closure identity is modelled as equality of closure terms: two closures are the same object iff they were "
    "produced by the same cached_call entry",
    "the number and order of lru_cache accesses inside one request are not modelled (unobservable once "
    "normalisation respects ==, which is proved for the model and checked on the real code for the pool)",
    "the normalisation congruence for the real code is C15's subject; C11 checks it on the pool only",
    "the provider objects of a recipe are stateless (the model's recipe entries are data); checked on the real code by "
    "the multi-predicate cache-run recipes and the recipe-state histories, not proved",
]
TRUSTED = [
    "CPython dict semantics (lookup = hash then ==) as modelled by association lists under pyEq",
    "the classification of cached_call sites outside the pool (CacheSites.lean: selfOnly / identityArgs) was made by "
    "reading the code; the translator only guards their argument lists",
]
EXTRACT = [extract_c11_sites]

FIXED_MODE = {"lit_key_typed": True, "union_total": True}
PARAMS = {"mode": FIXED_MODE, "cap": 128, "fuel": 40}
STRS = ["a", "b", "", "user"]


# ---------------------------------------------------------------------------
# the pool: classes
# ---------------------------------------------------------------------------

def _mk_a():
    @dataclass
    class A:          # two distinct classes with the same qualified name and the same shape
        x: int
    return A


@dataclass
class B:              # same shape, different name
    x: int


@dataclass
class Node:
    v: int
    next: Optional["Node"] = None


@dataclass
class PA:
    b: Optional["PB"] = None


@dataclass
class PB:
    w: int
    a: Optional[PA] = None


@dataclass
class Holder:
    h: PA


@dataclass
class Tree:
    v: int
    left: Optional["Tree"] = None
    right: Optional["Tree"] = None


@dataclass
class LitM:
    f: Literal[0, 1]
    g: Literal[False, True]


class Weird:          # no provider produces a loader or dumper for it
    __slots__ = ()


@dataclass
class WithBad:
    x: int
    bad: Weird


@dataclass
class RecBad:
    bad: Weird
    next: Optional["RecBad"] = None


@dataclass
class ListHolder:
    a: List[Node]
    b: List[Node]


class Color(enum.Enum):
    RED = 1
    GREEN = 2


class Size(enum.Enum):      # the values of Color under other names
    SMALL = 1
    BIG = 2


class Mood(enum.Enum):      # names of Color / Size, str values
    RED = "a"
    BIG = "b"


def _mk_e():
    class E(enum.Enum):     # two distinct Enum classes with the same qualified name; values confusable with bools
        X = 0
        Y = 1
    return E


@dataclass
class EItem:
    color: Color
    size: Size


ENUM_MEMBERS = {"Color": [("RED", 1), ("GREEN", 2)], "Size": [("SMALL", 1), ("BIG", 2)], "Mood": [("RED", "a"), ("BIG", "b")],
                "E1": [("X", 0), ("Y", 1)], "E2": [("X", 0), ("Y", 1)]}


class Pool:
    """Python objects and their model encodings, built once per run."""

    def __init__(self):
        a, b = _mk_a(), _mk_a()
        self.A1, self.A2 = sorted([a, b], key=id)          # uid order = id() order inside a same-name group
        n1, n2 = NewType("NT", int), NewType("NT", int)
        self.NT1, self.NT2 = sorted([n1, n2], key=id)
        self.E1, self.E2 = sorted([_mk_e(), _mk_e()], key=id)
        self.cls_order = [
            ("int", int), ("bool", bool), ("str", str), ("bytes", bytes), ("none", type(None)),
            ("A1", self.A1), ("A2", self.A2), ("B", B), ("Node", Node), ("PA", PA), ("PB", PB), ("Holder", Holder),
            ("Tree", Tree), ("LitM", LitM), ("Weird", Weird), ("WithBad", WithBad), ("RecBad", RecBad),
            ("ListHolder", ListHolder), ("NT1", self.NT1), ("NT2", self.NT2),
            ("Color", Color), ("Size", Size), ("Mood", Mood), ("E1", self.E1), ("E2", self.E2), ("EItem", EItem),
        ]
        self.uid = {k: i for i, (k, _) in enumerate(self.cls_order)}
        self.py_cls = {k: c for k, c in self.cls_order}
        self.cls_of_uid = [c for _, c in self.cls_order]
        # model fields as hint specs
        C = lambda k: ("cls", k)  # noqa: E731
        O = lambda k: ("union", [k, "none"])  # noqa: E731
        self.model_fields = {
            "A1": [("x", C("int"), True)], "A2": [("x", C("int"), True)], "B": [("x", C("int"), True)],
            "Node": [("v", C("int"), True), ("next", O("Node"), False)],
            "PA": [("b", O("PB"), False)],
            "PB": [("w", C("int"), True), ("a", O("PA"), False)],
            "Holder": [("h", C("PA"), True)],
            "Tree": [("v", C("int"), True), ("left", O("Tree"), False), ("right", O("Tree"), False)],
            "LitM": [("f", ("lit", [0, 1]), True), ("g", ("lit", [False, True]), True)],
            "WithBad": [("x", C("int"), True), ("bad", C("Weird"), True)],
            "RecBad": [("bad", C("Weird"), True), ("next", O("RecBad"), False)],
            "ListHolder": [("a", ("seq", 0, C("Node")), True), ("b", ("seq", 0, C("Node")), True)],
            "EItem": [("color", C("Color"), True), ("size", C("Size"), True)],
        }
        for k, ms in ENUM_MEMBERS.items():
            if [(m.name, m.value) for m in self.py_cls[k]] != ms:
                raise InfraError(f"pool enum {k}: class and member table differ")
        self.hints = self._hints()
        self._check_models()
        self.univ = self._univ()

    # -- hint specs -----------------------------------------------------------------
    def _hints(self):
        C = lambda k: ("cls", k)  # noqa: E731
        U = lambda *ks: ("union", list(ks))  # noqa: E731
        L = lambda *vs: ("lit", list(vs))  # noqa: E731
        h = {
            "int": C("int"), "bool": C("bool"), "str": C("str"),
            "L01": L(0, 1), "LFT": L(False, True), "L10": L(1, 0), "L0F": L(0, False), "LF0": L(False, 0),
            "La2": L("a", 2), "L1a": L(1, "a"), "LTa": L(True, "a"),
            "ListI": ("seq", 0, C("int")), "listI": ("seq", 1, C("int")), "SeqI": ("seq", 2, C("int")),
            "abcSeqI": ("seq", 3, C("int")),
            "Uis": U("int", "str"), "Usi": U("str", "int"), "U12": U("A1", "A2"), "U21": U("A2", "A1"),
            "U1B": U("A1", "B"), "UB1": U("B", "A1"), "UiA": U("int", "A1"), "Uib": U("int", "bool"),
            "OptI": U("int", "none"), "Opt1": U("A1", "none"), "Opt2": U("none", "A2"), "OptNode": U("Node", "none"),
            "U12n": U("A1", "A2", "none"),
            "A1": C("A1"), "A2": C("A2"), "B": C("B"), "Node": C("Node"), "PA": C("PA"), "PB": C("PB"),
            "Holder": C("Holder"), "Tree": C("Tree"), "LitM": C("LitM"), "ListHolder": C("ListHolder"),
            "NT1": C("NT1"), "NT2": C("NT2"), "ListNT1": ("seq", 0, C("NT1")),
            "AnnI1": ("ann", C("int"), [1]), "AnnIT": ("ann", C("int"), [True]), "AnnIa": ("ann", C("int"), ["a"]),
            "AnnL1": ("ann", ("seq", 0, C("int")), [1]), "AnnLFT": ("ann", L(False, True), [0]),
            "AnnA2_1": ("ann", C("A2"), [1]), "AnnA2_T": ("ann", C("A2"), [True]),
            "ListA1": ("seq", 0, C("A1")), "ListA2": ("seq", 0, C("A2")), "ListNode": ("seq", 0, C("Node")),
            "SeqNode": ("seq", 2, C("Node")), "ListL01": ("seq", 0, L(0, 1)), "ListLFT": ("seq", 0, L(False, True)),
            "ListAnnIT": ("seq", 0, ("ann", C("int"), [True])), "ListAnnI1": ("seq", 1, ("ann", C("int"), [1])),
            "ListListI": ("seq", 0, ("seq", 1, C("int"))),
            "Weird": C("Weird"), "WithBad": C("WithBad"), "RecBad": C("RecBad"), "ListWeird": ("seq", 0, C("Weird")),
            "UiW": U("int", "Weird"),
            "Color": C("Color"), "Size": C("Size"), "Mood": C("Mood"), "E1": C("E1"), "E2": C("E2"), "EItem": C("EItem"),
            "ListColor": ("seq", 0, C("Color")), "OptSize": U("Size", "none"), "UColorInt": U("Color", "int"),
            "UE12": U("E1", "E2"), "UE21": U("E2", "E1"), "AnnColor": ("ann", C("Color"), [1]),
        }
        return h

    CORE = ["L01", "LFT", "L0F", "LF0", "ListI", "listI", "SeqI", "Uis", "Usi", "U12", "U21", "A1", "Node", "AnnIT",
            "AnnI1", "NT1", "WithBad"]
    # the hints whose loaders / dumpers depend on which provider of a multi-predicate recipe serves them
    ENUM_CORE = ["Color", "Size", "Mood", "E1", "E2", "EItem", "ListColor", "OptSize", "int", "Weird"]
    ENUMS = ["Color", "Size", "Mood", "E1", "E2"]

    def py(self, spec):
        k = spec[0]
        if k == "cls":
            c = self.py_cls[spec[1]]
            return None if c is type(None) else c
        if k == "lit":
            return Literal[tuple(spec[1])]
        if k == "seq":
            e = self.py(spec[2])
            return [List, list, Sequence, collections.abc.Sequence][spec[1]][e]
        if k == "ann":
            return Annotated[(self.py(spec[1]), *spec[2])]
        if k == "union":
            return Union[tuple(self.py(("cls", m)) for m in spec[1])]
        raise KeyError(k)

    def lit_json(self, v):
        if isinstance(v, bool):
            return {"b": v}
        if isinstance(v, int):
            return {"i": v}
        return {"s": STRS.index(v)}

    def js(self, spec):
        k = spec[0]
        if k == "cls":
            return {"k": "cls", "u": self.uid[spec[1]]}
        if k == "lit":
            return {"k": "lit", "a": [self.lit_json(v) for v in spec[1]]}
        if k == "seq":
            return {"k": "seq", "f": spec[1], "e": self.js(spec[2])}
        if k == "ann":
            return {"k": "ann", "b": self.js(spec[1]), "m": [self.lit_json(v) for v in spec[2]]}
        if k == "union":
            return {"k": "union", "m": [self.uid[m] for m in spec[1]]}
        raise KeyError(k)

    def hint_py(self, name):
        return self.py(self.hints[name])

    def hint_js(self, name):
        return self.js(self.hints[name])

    def _check_models(self):
        for k, fl in self.model_fields.items():
            cls = self.py_cls[k]
            hints = typing.get_type_hints(cls, include_extras=True)
            got = [(f.name, hints[f.name]) for f in dc_fields(cls)]
            want = [(n, self.py(s)) for n, s, _ in fl]
            if got != want:
                raise InfraError(f"pool model {k}: class {got} vs spec {want}")

    def _order_string(self, cls):
        return str(None if cls is type(None) else cls)      # `_UnionNormType._make_orderable`: str(origin) first

    def _univ(self):
        strings = sorted({self._order_string(c) for _, c in self.cls_order})
        classes = []
        for k, c in self.cls_order:
            ent = {"u": self.uid[k], "name": strings.index(self._order_string(c))}
            if k in ("int", "bool", "str", "bytes"):
                ent.update(kind="scalar", s=k)
            elif k == "none":
                ent.update(kind="none")
            elif k in self.model_fields:
                ent.update(kind="model", fields=[{"n": n, "t": self.js(s), "r": r} for n, s, r in self.model_fields[k]])
            elif k in ("NT1", "NT2"):
                ent.update(kind="newtype", sup=self.js(("cls", "int")))
            elif k in ENUM_MEMBERS:
                ent.update(kind="enum", members=[{"n": n, "v": self.lit_json(v)} for n, v in ENUM_MEMBERS[k]])
            else:
                ent.update(kind="opaque")
            classes.append(ent)
        return {"classes": classes, "strs": STRS, "bytes": self.uid["bytes"], "int": self.uid["int"],
                "bool": self.uid["bool"], "str": self.uid["str"], "none": self.uid["none"]}

    # -- values -----------------------------------------------------------------------
    def enc(self, v):
        if v is None or isinstance(v, (bool, int, str)):
            return v
        if isinstance(v, list):
            return {"l": [self.enc(x) for x in v]}
        if isinstance(v, tuple):
            return {"t": [self.enc(x) for x in v]}
        if isinstance(v, dict):
            if not all(isinstance(k, str) for k in v):
                return {"x": "dict-with-non-str-key"}
            return {"d": [[k, self.enc(x)] for k, x in v.items()]}
        if isinstance(v, enum.Enum):
            for i, c in enumerate(self.cls_of_uid):
                if type(v) is c:
                    return {"e": i, "n": v.name}
        for i, c in enumerate(self.cls_of_uid):
            if type(v) is c and hasattr(v, "__dataclass_fields__"):
                return {"o": i, "f": [[f.name, self.enc(getattr(v, f.name))] for f in dc_fields(v)]}
        return {"x": type(v).__name__}

    def dec(self, j):
        if j is None or isinstance(j, (bool, int, str)):
            return j
        if "l" in j:
            return [self.dec(x) for x in j["l"]]
        if "t" in j:
            return tuple(self.dec(x) for x in j["t"])
        if "d" in j:
            return {k: self.dec(x) for k, x in j["d"]}
        if "o" in j:
            return self.cls_of_uid[j["o"]](**{k: self.dec(x) for k, x in j["f"]})
        if "e" in j:
            return self.cls_of_uid[j["e"]][j["n"]]
        raise InfraError(f"bad value {j}")

    # -- families (for signatures) ----------------------------------------------------------
    def family(self, name):
        fam = {
            "literal-bool-int": ["L01", "LFT", "L10", "L1a", "LTa", "ListL01", "ListLFT", "LitM", "AnnLFT"],
            "literal-dedup": ["L0F", "LF0"],
            "union-same-name": ["U12", "U21", "U12n"],
            "union-order": ["Uis", "Usi", "U1B", "UB1", "UiA", "Uib", "OptI", "Opt1", "Opt2", "OptNode"],
            "seq-flavour": ["ListI", "listI", "SeqI", "abcSeqI", "ListListI"],
            "annotated-meta": ["AnnI1", "AnnIT", "AnnIa", "AnnL1", "AnnA2_1", "AnnA2_T", "ListAnnIT", "ListAnnI1"],
            "equal-shape-model": ["A1", "A2", "B", "ListA1", "ListA2"],
            "recursive-model": ["Node", "PA", "PB", "Holder", "Tree", "ListNode", "SeqNode", "ListHolder"],
            "newtype": ["NT1", "NT2", "ListNT1"],
            "failing-type": ["Weird", "WithBad", "RecBad", "ListWeird", "UiW"],
            "enum": ["Color", "Size", "Mood", "E1", "E2", "EItem", "ListColor", "OptSize", "UColorInt", "UE12", "UE21", "AnnColor"],
        }
        for f, names in fam.items():
            if name in names:
                return f
        return "scalar"


# load probes: JSON-able data
GENERIC = [None, True, False, 0, 1, 2, "a", "", [], [0], [1, True], ["a"], {}, {"x": 1}, {"x": True}, {"x": "a"}]
MODEL_DATA = {
    "Node": [{"v": 1}, {"v": 1, "next": {"v": 2, "next": {"v": 3}}}, {"v": 1, "next": {"v": "a"}}, {"next": None},
             {"v": True, "next": {"v": False}}],
    "PA": [{}, {"b": {"w": 1, "a": {"b": {"w": 2}}}}, {"b": {"w": "a"}}, {"b": {"w": 1, "a": {"b": {"w": True}}}}],
    "PB": [{"w": 1}, {"w": 1, "a": {"b": {"w": 2, "a": {}}}}, {"a": {}}],
    "Holder": [{"h": {}}, {"h": {"b": {"w": 1, "a": {"b": {"w": 2, "a": {"b": {"w": 3}}}}}}}, {"h": {"b": {"w": None}}}],
    "Tree": [{"v": 1}, {"v": 1, "left": {"v": 2, "right": {"v": 3}}, "right": {"v": 4, "left": {"v": "a"}}}],
    "LitM": [{"f": 0, "g": True}, {"f": True, "g": 0}, {"f": 1, "g": False}, {"f": False, "g": 1}],
    "ListHolder": [{"a": [{"v": 1, "next": {"v": 2}}], "b": [{"v": 3, "next": {"v": 4, "next": {"v": True}}}]},
                   {"a": [], "b": [{"v": 1}]}],
    "ListNode": [[{"v": 1, "next": {"v": 2}}], [{"v": 1, "next": {"v": "a"}}], [{"v": 1}, {"next": None}]],
    "SeqNode": [[{"v": 1, "next": {"v": 2}}], [{"v": True}]],
    "OptNode": [None, {"v": 1, "next": {"v": 2}}, {"v": "a"}],
    "WithBad": [{"x": 1, "bad": 1}], "RecBad": [{"bad": 1}],
    "EItem": [{"color": 1, "size": 2}, {"color": "RED", "size": "BIG"}, {"color": "RED", "size": 2}, {"color": True, "size": "a"},
              {"color": 3}],
}
ENUM_DATA = [1, 2, "RED", "BIG", "GREEN", "SMALL", "X", "a", 0, True, False, 3, None, [1], "b", "Y"]
SPECIAL = {
    "ListL01": [[0, 1], [True], [False, 0], [0, "a"]], "ListLFT": [[0, 1], [True], [False, 0]],
    "ListA1": [[{"x": 1}], [{"x": "a"}, {"x": 2}]], "ListA2": [[{"x": 1}], [{"x": True}]],
    "ListAnnIT": [[1, True], [1]], "ListAnnI1": [[1, True], [1]], "ListListI": [[[1], [2, 3]], [[True]], [1]],
    "ListNT1": [[1], [True]],
    "Color": ENUM_DATA, "Size": ENUM_DATA, "Mood": ENUM_DATA, "E1": ENUM_DATA, "E2": ENUM_DATA, "AnnColor": ENUM_DATA,
    "OptSize": ENUM_DATA, "UColorInt": ENUM_DATA, "UE12": ENUM_DATA, "UE21": ENUM_DATA,
    "ListColor": [[1, 2], ["RED"], ["RED", 2], [True, "a"], []],
}


def load_values(pool: Pool, name: str):
    if name in MODEL_DATA:
        return MODEL_DATA[name] + [None, 1, []]
    if name in SPECIAL:
        if SPECIAL[name] is ENUM_DATA:
            return ENUM_DATA
        return SPECIAL[name] + [None, 1, "a", {"x": 1}]
    return GENERIC


def dump_values(pool: Pool, name: str):
    """JSON encodings of Python values to dump with the dumper of the hint (mostly well-typed)."""
    A1, A2, Bc, u = pool.A1, pool.A2, B, pool.uid
    o = lambda k, **f: {"o": u[k], "f": [[n, v] for n, v in f.items()]}  # noqa: E731
    node = o("Node", v=1, next=o("Node", v=2, next=None))
    pa = o("PA", b=o("PB", w=1, a=o("PA", b=o("PB", w=2, a=None))))
    e = lambda k, n: {"e": u[k], "n": n}  # noqa: E731
    members = [e("Color", "RED"), e("Size", "BIG"), e("Mood", "RED"), e("E1", "X"), e("E2", "Y"), e("Color", "GREEN"), e("E1", "Y")]
    odd = [1, "RED", None, {"l": [1]}]
    table = {
        "Color": [e("Color", "RED"), e("Color", "GREEN")] + members[1:3] + odd, "Size": [e("Size", "SMALL"), e("Size", "BIG")] + members[:1] + odd,
        "Mood": [e("Mood", "RED"), e("Mood", "BIG"), e("Color", "RED")] + odd, "E1": [e("E1", "X"), e("E1", "Y"), e("E2", "X")] + odd,
        "E2": [e("E2", "X"), e("E2", "Y"), e("E1", "X")] + odd, "AnnColor": [e("Color", "RED"), e("Size", "BIG"), 1],
        "OptSize": [None, e("Size", "BIG"), e("Color", "RED"), 1], "UColorInt": [e("Color", "RED"), 1, True, e("Size", "BIG"), "a"],
        "UE12": [e("E1", "X"), e("E2", "Y"), e("Color", "RED"), 0], "UE21": [e("E1", "X"), e("E2", "Y"), e("Color", "RED")],
        "ListColor": [{"l": [e("Color", "RED"), e("Color", "GREEN")]}, {"t": [e("Color", "RED")]}, {"l": [e("Size", "BIG")]}, {"l": []}],
        "EItem": [o("EItem", color=e("Color", "RED"), size=e("Size", "BIG")), o("EItem", color=e("Size", "BIG"), size=e("Size", "BIG")),
                  o("EItem", color=1, size=e("Size", "SMALL"))],
        "A1": [o("A1", x=1), o("A2", x=2), o("B", x=True)], "A2": [o("A2", x=1), o("A1", x=2)], "B": [o("B", x=1)],
        "U12": [o("A1", x=1), o("A2", x=2), o("B", x=3), 5], "U21": [o("A1", x=1), o("A2", x=2), o("B", x=3)],
        "U12n": [o("A1", x=1), o("A2", x=2), None], "U1B": [o("A1", x=1), o("B", x=2), o("A2", x=3)],
        "UB1": [o("A1", x=1), o("B", x=2)], "UiA": [1, True, o("A1", x=1), "a"], "Uib": [1, True, "a"],
        "Uis": [1, "a", True, None], "Usi": [1, "a", True],
        "OptI": [None, 1], "Opt1": [None, o("A1", x=1)], "Opt2": [None, o("A2", x=1)], "OptNode": [None, node],
        "Node": [node, o("Node", v=1, next=None)], "PA": [pa, o("PA", b=None)], "PB": [o("PB", w=1, a=None)],
        "Holder": [o("Holder", h=pa)], "Tree": [o("Tree", v=1, left=o("Tree", v=2, left=None, right=None), right=None)],
        "LitM": [o("LitM", f=0, g=True)],
        "ListHolder": [o("ListHolder", a={"l": [node]}, b={"l": [node, node]})],
        "ListA1": [{"l": [o("A1", x=1)]}, {"t": [o("A1", x=1), o("A2", x=2)]}], "ListA2": [{"l": [o("A2", x=1)]}],
        "ListNode": [{"l": [node]}], "SeqNode": [{"l": [node]}, {"t": [node]}],
        "ListI": [{"l": [1, 2]}, {"t": [1]}], "listI": [{"l": [1, 2]}], "SeqI": [{"l": [1, 2]}, {"t": [1, 2]}],
        "abcSeqI": [{"t": [1, 2]}], "ListListI": [{"l": [{"l": [1]}, {"t": [2]}]}],
        "AnnA2_1": [o("A2", x=1)], "AnnA2_T": [o("A2", x=1)], "AnnL1": [{"l": [1]}],
    }
    return table.get(name, [0, True, "a", None])


CONV_PAIRS = [("A1", "A2"), ("A2", "A1"), ("A1", "B"), ("A1", "A1"), ("B", "A2"), ("A1", "AnnA2_1"), ("A1", "AnnA2_T"),
              ("ListA1", "ListA2"), ("int", "int"), ("A1", "WithBad"), ("ListI", "listI"), ("B", "AnnA2_T"),
              ("AnnI1", "int"), ("AnnIT", "int")]


def conv_values(pool: Pool, s: str):
    u = pool.uid
    o = lambda k, **f: {"o": u[k], "f": [[n, v] for n, v in f.items()]}  # noqa: E731
    return {"A1": [o("A1", x=1)], "A2": [o("A2", x=2)], "B": [o("B", x=3)], "ListA1": [{"l": [o("A1", x=1)]}],
            "int": [1], "ListI": [{"l": [1, 2]}], "AnnI1": [1], "AnnIT": [2]}.get(s, [1])


# ---------------------------------------------------------------------------
# real side
# ---------------------------------------------------------------------------

class Real:
    def __init__(self, pool: Pool):
        import adaptix
        from adaptix import P, Retort, dumper, enum_by_exact_value, enum_by_name, loader
        import importlib
        nt_mod = importlib.import_module("adaptix._internal.type_tools.normalize_type")
        from adaptix.conversion import ConversionRetort
        from adaptix.load_error import LoadError
        self.adaptix = adaptix
        self.Retort, self.ConversionRetort, self.loader, self.dumper = Retort, ConversionRetort, loader, dumper
        self.P, self.enum_by_name, self.enum_by_exact_value = P, enum_by_name, enum_by_exact_value
        self.LoadError = LoadError
        self.nt = nt_mod
        self.pool = pool
        self.fresh_memo: dict[str, dict] = {}
        # 160 distinct hints (> maxsize) that evict every entry of the lru cache; any distinct hints do, so cheap ones
        self.junk = [Tuple[int, Literal[10_000 + i]] for i in range(160)]

    # -- normalisation cache --------------------------------------------------------------
    def clear_norm(self):
        self.nt._cached_normalize.cache_clear()

    def pollute(self, names, junk: bool):
        self.clear_norm()
        if junk:
            for j in self.junk:
                self.nt.normalize_type(j)
        for n in names:
            self.nt.normalize_type(self.pool.hint_py(n))

    def raw_norm(self, hint):
        return self.nt._STD_NORMALIZER.normalize(hint)

    # -- retorts ----------------------------------------------------------------------------
    def user_fn(self, fid):
        return lambda v, fid=fid: ("user", fid, v)

    def recipe(self, entries):
        """NEW provider objects for the entries.  `{"dir", "t", "fid"}`: loader(t, f) / dumper(t, f);
        `{"dir", "ts", "fid"}`: the predicate names several types, loader(P[t1, t2, ...], f);
        `{"p": "enum_by_name" | "enum_by_exact_value", "ts"}`: the factory called with 0, 1 or several predicates"""
        out = []
        for e in entries:
            ts = [self.pool.hint_py(t) for t in e["ts"]] if "ts" in e else [self.pool.hint_py(e["t"])]
            kind = e.get("p", "user")
            if kind == "user":
                mk = self.loader if e["dir"] == "load" else self.dumper
                pred = self.P.ANY if not ts else ts[0] if "ts" not in e else self.P[tuple(ts)]
                out.append(mk(pred, self.user_fn(e["fid"])))
            elif kind == "enum_by_name":
                out.append(self.enum_by_name(*ts))
            elif kind == "enum_by_exact_value":
                out.append(self.enum_by_exact_value(*ts))
            else:
                raise InfraError(f"bad recipe entry {e}")
        return out

    def make(self, cfg):
        return (self.Retort(strict_coercion=cfg["strict"], recipe=self.recipe(cfg["recipe"])), self.ConversionRetort())

    def outcome(self, fn):
        try:
            v = fn()
        except RecursionError:
            return {"err": ["RecursionError", []], "load": False}
        except Exception as e:  # noqa: BLE001
            return {"err": self.tree(e), "load": isinstance(e, self.LoadError)}
        return {"ok": self.pool.enc(v)}

    def tree(self, e):
        return [type(e).__name__, [self.tree(s) for s in getattr(e, "exceptions", ())]]

    def call(self, pair, f, keep=None):
        r, cr = pair
        p = self.pool
        k = f["f"]
        if k == "get_loader":
            def go():
                ld = r.get_loader(p.hint_py(f["h"]))
                if keep is not None:
                    keep.append(("load", f["h"], ld))
            return self.outcome(go)
        if k == "load":
            return self.outcome(lambda: r.load(p.dec(f["v"]), p.hint_py(f["h"])))
        if k == "get_dumper":
            def go():
                d = r.get_dumper(p.hint_py(f["h"]))
                if keep is not None:
                    keep.append(("dump", f["h"], d))
            return self.outcome(go)
        if k == "dump":
            return self.outcome(lambda: r.dump(p.dec(f["v"]), p.hint_py(f["h"])))
        if k == "get_converter":
            return self.outcome(lambda: (cr.get_converter(p.hint_py(f["s"]), p.hint_py(f["d"])), None)[1])
        if k == "convert":
            return self.outcome(lambda: cr.get_converter(p.hint_py(f["s"]), p.hint_py(f["d"]))(p.dec(f["v"])))
        raise InfraError(f"bad facade op {k}")

    def fresh(self, cfg, f):
        key = canon([cfg, f])
        if key not in self.fresh_memo:
            # a never-used retort of the kind the call needs (the other half of the pair would never be touched)
            if f["f"] in ("get_converter", "convert"):
                pair = (None, self.ConversionRetort())
            else:
                pair = (self.Retort(strict_coercion=cfg["strict"], recipe=self.recipe(cfg["recipe"])), None)
            self.fresh_memo[key] = self.call(pair, f)
        return self.fresh_memo[key]

    def run_case(self, case):
        """Executes the history; returns per-op (outcome, fresh outcome, cfg) and the post-history re-checks."""
        if case.get("pollute") is not None:
            self.pollute(case["pollute"], case.get("junk", False))
        cfgs = [case["cfg"]]
        pairs = [self.make(case["cfg"])]
        kept: list = []
        rows = []
        for op in case["history"]:
            if op["op"] == "call":
                i = op["i"]
                if i >= len(pairs):
                    rows.append(None)
                    continue
                keep: list = []
                out = self.call(pairs[i], op["f"], keep)
                for kind, h, fn in keep:
                    kept.append((cfgs[i], kind, h, fn))
                rows.append({"real": out, "fresh": self.fresh(cfgs[i], op["f"]), "cfg": cfgs[i]})
            elif op["op"] == "replace":
                i = op["i"]
                rows.append(None)
                if i >= len(pairs):
                    continue
                r, cr = pairs[i]
                st = op.get("strict")
                pairs.append((r.replace() if st is None else r.replace(strict_coercion=st), cr.replace()))
                cfgs.append({"strict": cfgs[i]["strict"] if st is None else st, "recipe": cfgs[i]["recipe"]})
            elif op["op"] == "extend":
                i = op["i"]
                rows.append(None)
                if i >= len(pairs):
                    continue
                r, cr = pairs[i]
                pairs.append((r.extend(recipe=self.recipe(op["recipe"])), cr.extend(recipe=[])))
                cfgs.append({"strict": cfgs[i]["strict"], "recipe": op["recipe"] + cfgs[i]["recipe"]})
        # loaders / dumpers obtained during the history must still behave as a fresh retort's
        late = []
        for cfg, kind, h, fn in kept[:6]:
            vals = load_values(self.pool, h) if kind == "load" else dump_values(self.pool, h)
            for v in vals[:5]:
                vj = v if kind == "dump" else self.pool.enc(v)
                got = self.outcome(lambda: fn(self.pool.dec(vj)))
                want = self.fresh(cfg, {"f": kind, "h": h, "v": vj})
                late.append((kind, h, vj, got, want))
        return rows, late


# ---------------------------------------------------------------------------
# cases
# ---------------------------------------------------------------------------

def F(kind, **kw):
    return {"op": "call", "i": kw.pop("i", 0), "f": {"f": kind, **kw}}


def sweep(pool: Pool, names, rng, dirs=("load",), per=4, i=0):
    ops = []
    for n in names:
        if "load" in dirs:
            vals = load_values(pool, n)
            for v in (vals if len(vals) <= per else rng.sample(vals, per)):
                ops.append(F("load", h=n, v=pool.enc(v), i=i))
        if "dump" in dirs:
            vals = dump_values(pool, n)
            for v in vals[:per]:
                ops.append(F("dump", h=n, v=v, i=i))
    return ops


TWIN_ORDERS = [["U21", "LF0", "AnnIT", "Usi", "Opt2"], ["U12", "L0F", "AnnI1", "Uis"], ["LFT", "L10", "listI", "U21"]]


CFG_RECIPES = [
    [], [], [], [],
    [{"dir": "load", "t": "int", "fid": 0}],
    [{"dir": "load", "t": "L01", "fid": 0}, {"dir": "load", "t": "ListI", "fid": 1}],
    [{"dir": "load", "t": "LFT", "fid": 0}, {"dir": "dump", "t": "U21", "fid": 1}],
    [{"dir": "load", "t": "U21", "fid": 0}, {"dir": "load", "t": "AnnIT", "fid": 1}],
    [{"dir": "load", "t": "AnnI1", "fid": 0}, {"dir": "dump", "t": "A1", "fid": 1}, {"dir": "load", "t": "NT1", "fid": 2}],
    [{"dir": "load", "t": "Usi", "fid": 0}, {"dir": "load", "t": "Node", "fid": 1}, {"dir": "dump", "t": "listI", "fid": 2}],
]
EXT_RECIPES = [
    [{"dir": "load", "t": "int", "fid": 7}], [{"dir": "load", "t": "LFT", "fid": 8}], [{"dir": "load", "t": "L01", "fid": 9}],
    [{"dir": "load", "t": "U21", "fid": 10}], [{"dir": "dump", "t": "A2", "fid": 11}], [{"dir": "load", "t": "listI", "fid": 12}],
    [{"dir": "load", "t": "AnnIT", "fid": 13}, {"dir": "dump", "t": "AnnIT", "fid": 14}],
    [{"p": "enum_by_name", "ts": ["Color", "E1"]}], [{"p": "enum_by_exact_value", "ts": ["Size", "Color"]}],
    [{"p": "user", "dir": "load", "fid": 15, "ts": ["Size", "int", "L01"]}],
]


def gen_entry(pool: Pool, rng, fid):
    """one recipe entry guarded by 0 (enum factories only), 1, 2 or 3 type predicates"""
    r = rng.random()
    if r < 0.6:
        kind = "enum_by_name" if rng.random() < 0.65 else "enum_by_exact_value"
        k = rng.choice([0, 1, 2, 2, 3, 3])
        ts = [rng.choice(Pool.ENUMS) if rng.random() < 0.8 else rng.choice(["int", "EItem", "ListColor", "AnnColor", "OptSize", "A1"])
              for _ in range(k)]
        return {"p": kind, "ts": ts}
    fam = rng.choice([Pool.ENUMS + ["EItem", "ListColor", "OptSize"], Pool.CORE, list(pool.hints)])
    return {"p": "user", "dir": rng.choice(["load", "load", "dump"]), "fid": fid,
            "ts": [rng.choice(fam) for _ in range(rng.choice([1, 2, 2, 3]))]}


def gen_recipe(pool: Pool, rng, n, fid0=20):
    return [gen_entry(pool, rng, fid0 + i) for i in range(n)]


def gen_cfg(rng, pool=None):
    if pool is not None and rng.random() < 0.4:
        return {"strict": rng.random() < 0.8, "recipe": gen_recipe(pool, rng, rng.choice([1, 2, 2, 3]))}
    return {"strict": rng.random() < 0.8, "recipe": rng.choice(CFG_RECIPES)}


def gen_pollution(rng):
    r = rng.random()
    if r < 0.4:
        return {"pollute": [], "junk": False}                     # cache_clear()
    if r < 0.75:
        return {"pollute": rng.choice(TWIN_ORDERS), "junk": rng.random() < 0.5}
    return {"pollute": None}                                      # whatever earlier cases left behind


def exhaustive_cases(pool: Pool, rng, max_len: int):
    core = Pool.CORE
    for n in range(0, max_len + 1):
        for seq in itertools.product(core, repeat=n):
            for d in ("load", "dump"):
                hist = [F("get_loader" if d == "load" else "get_dumper", h=h) for h in seq]
                start = rng.randrange(len(core))
                order = core[start:] + core[:start]
                hist += sweep(pool, order, rng, dirs=(d,), per=3)
                yield {"suite": "cache-run", "cfg": {"strict": True, "recipe": []}, "pollute": [], "junk": False,
                       "history": hist, "gen": f"exhaustive-{n}"}


def recipe_hints(cfg):
    return [t for e in cfg["recipe"] for t in (e["ts"] if "ts" in e else [e["t"]])]


def multi_pred(recipe) -> bool:
    return any(len(e.get("ts", ())) >= 2 for e in recipe)


ENUM_RECIPES = [
    [{"p": "enum_by_name", "ts": ["Size", "E1", "Color"]}],
    [{"p": "enum_by_name", "ts": ["E1", "E2", "Mood"]}, {"p": "user", "dir": "load", "fid": 3, "ts": ["int", "Size"]}],
    [{"p": "enum_by_exact_value", "ts": ["Mood", "E2"]}, {"p": "enum_by_name", "ts": []}],
    [{"p": "user", "dir": "dump", "fid": 4, "ts": ["Color", "E1", "ListColor"]}, {"p": "enum_by_name", "ts": ["int", "Size", "E2"]}],
    [{"p": "enum_by_name", "ts": ["Size"]}, {"p": "enum_by_exact_value", "ts": ["Color", "Size"]}, {"p": "enum_by_name", "ts": ["Color", "Mood"]}],
]


def exhaustive_enum_cases(pool: Pool, rng, max_len: int, salt: int):
    """every sequence of <= max_len get_loader / get_dumper requests over the enum core pool (enums, a model and
    containers of enums, a plain and a failing type), each under one of the multi-predicate recipes (which one rotates
    with the sequence number and the seed), followed by a probe sweep over that pool"""
    core = Pool.ENUM_CORE
    k = salt
    for n in range(0, max_len + 1):
        for seq in itertools.product(core, repeat=n):
            for d in ("load", "dump"):
                k += 1
                hist = [F("get_loader" if d == "load" else "get_dumper", h=h) for h in seq]
                start = rng.randrange(len(core))
                hist += sweep(pool, core[start:] + core[:start], rng, dirs=(d,), per=2)
                yield {"suite": "cache-run", "cfg": {"strict": True, "recipe": ENUM_RECIPES[k % len(ENUM_RECIPES)]},
                       "pollute": [], "junk": False, "history": hist, "gen": f"exhaustive-multi-pred-recipe-{n}"}


def random_case(pool: Pool, rng, max_len: int):
    names = list(pool.hints)
    cfg = gen_cfg(rng, pool)
    case = {"suite": "cache-run", "cfg": cfg, **gen_pollution(rng), "gen": "random"}
    n_ret = 1
    hist = []
    focus = rng.sample(names, rng.randint(2, 5)) + rng.sample(Pool.CORE, 2)
    if any("p" in e for e in cfg["recipe"]):
        # a generated recipe: the hints its predicates name, their family, and hints no predicate accepts
        case["gen"] = "random-multi-pred-recipe" if multi_pred(cfg["recipe"]) else "random-generated-recipe"
        named = list(dict.fromkeys(recipe_hints(cfg)))
        focus = rng.sample(named, min(len(named), 3)) + rng.sample(Pool.ENUM_CORE, 3) + rng.sample(names, 2)
    for _ in range(rng.randint(1, max_len)):
        r = rng.random()
        i = rng.randrange(n_ret)
        h = rng.choice(focus) if rng.random() < 0.8 else rng.choice(names)
        if r < 0.30:
            hist.append(F("get_loader", h=h, i=i))
        elif r < 0.50:
            hist.append(F("load", h=h, v=pool.enc(rng.choice(load_values(pool, h))), i=i))
        elif r < 0.62:
            hist.append(F("get_dumper", h=h, i=i))
        elif r < 0.72:
            hist.append(F("dump", h=h, v=rng.choice(dump_values(pool, h)), i=i))
        elif r < 0.80:
            s, d = rng.choice(CONV_PAIRS)
            if rng.random() < 0.5:
                hist.append(F("get_converter", s=s, d=d, i=i))
            else:
                hist.append(F("convert", s=s, d=d, v=rng.choice(conv_values(pool, s)), i=i))
        elif r < 0.90:
            hist.append({"op": "replace", "i": i, "strict": rng.choice([None, True, False])})
            n_ret += 1
        else:
            rec = rng.choice(EXT_RECIPES) if rng.random() < 0.6 else gen_recipe(pool, rng, 1, fid0=30 + n_ret)
            hist.append({"op": "extend", "i": i, "recipe": rec})
            n_ret += 1
    # probes: the focus hints and their twins on every retort
    probe_names = list(dict.fromkeys(focus + [rng.choice(names) for _ in range(2)]))
    for i in range(n_ret):
        hist += sweep(pool, rng.sample(probe_names, min(len(probe_names), 4)), rng,
                      dirs=("load", "dump") if rng.random() < 0.4 else ("load",), per=2, i=i)
    if rng.random() < 0.5:
        s, d = rng.choice(CONV_PAIRS)
        hist.append(F("convert", s=s, d=d, v=conv_values(pool, s)[0], i=rng.randrange(n_ret)))
    case["history"] = hist
    return case


def twins_in(pool: Pool, case) -> bool:
    """non-triviality: two different hints of one confusable family are requested, a recursive or failing
    request precedes other calls, or a clone is made"""
    fams: dict = {}
    for op in case["history"]:
        if op["op"] != "call":
            return True
        f = op["f"]
        for key in ("h", "s", "d"):
            if key in f:
                fam = pool.family(f[key])
                fams.setdefault(fam, set()).add(f[key])
    return any(len(v) > 1 for k, v in fams.items() if k != "scalar") or "recursive-model" in fams or "failing-type" in fams


# ---------------------------------------------------------------------------
# comparison
# ---------------------------------------------------------------------------

def to_model_case(pool: Pool, case, norm0_names):
    def hj(f):
        g = dict(f)
        for key in ("h", "s", "d"):
            if key in g:
                g[key] = pool.hint_js(g[key])
        return g

    def rec(entries):
        out = []
        for e in entries:
            ts = [pool.hint_js(t) for t in e["ts"]] if "ts" in e else [pool.hint_js(e["t"])]
            if e.get("p", "user") == "user":
                out.append({"p": "user", "dir": e["dir"], "fid": e["fid"], "ts": ts})
            else:
                out.append({"p": e["p"], "ts": ts})
        return out

    hist = []
    for op in case["history"]:
        if op["op"] == "call":
            hist.append({"op": "call", "i": op["i"], "f": hj(op["f"])})
        elif op["op"] == "replace":
            hist.append({"op": "replace", "i": op["i"], "strict": op.get("strict")})
        else:
            hist.append({"op": "extend", "i": op["i"], "recipe": rec(op["recipe"])})
    last = [op for op in hist if op["op"] == "call"][-1]
    return {"cfg": {"strict": case["cfg"]["strict"], "recipe": rec(case["cfg"]["recipe"])},
            "norm0": [pool.hint_js(n) for n in reversed(norm0_names)],
            "history": hist, "probe": {"i": last["i"], "f": last["f"]}}


def same_outcome(real, model) -> bool:
    if model is None or real is None:
        return model is None and real is None
    if "ok" in real:
        return model.get("ok", "<none>") == real["ok"] and "ok" in model
    return "err" in model and model["err"] == real["err"] and model.get("load") == real.get("load")


def op_signature(pool: Pool, f) -> str:
    names = [f[k] for k in ("h", "s", "d") if k in f]
    return f"warm-vs-fresh:{f['f']}:{'+'.join(sorted({pool.family(n) for n in names}))}"


def check_case(ctx: Ctx, pool: Pool, real: Real, case, model_reply, count=True):
    rows, late = real.run_case(case)
    n = d = 0
    unmodelled = 0
    for idx, (op, row) in enumerate(zip(case["history"], rows)):
        if row is None:
            continue
        f = op["f"]
        if row["real"] != row["fresh"]:
            ctx.fail(op_signature(pool, f),
                     f"call #{idx} {f} on retort {op['i']} ({row['cfg']}) returns {row['real']} after the history, "
                     f"{row['fresh']} on a fresh retort constructed the same way",
                     {**case, "history": case["history"][: idx + 1]})
            break
        if model_reply is not None:
            m = model_reply["hist"][idx]
            if m is not None and m.get("unmodelled"):
                unmodelled += 1
                continue
            n += 1
            if not same_outcome(row["real"], m):
                d += 1
                ctx.disagree("cache-run", {**case, "history": case["history"][: idx + 1]}, row["real"], m)
                break
    for kind, h, vj, got, want in late:
        if got != want:
            ctx.fail(f"obtained-{kind}er-changed:{pool.family(h)}",
                     f"a {kind}er for {h} obtained during the history returns {got} for {vj} at the end of the "
                     f"history; a fresh retort returns {want}", case)
            break
    if model_reply is not None and model_reply.get("probe") != model_reply.get("fresh"):
        # the model itself is history dependent on this case (only possible in a legacy mode)
        d += 1
        ctx.disagree("cache-run", case, "model: warmed probe != fresh probe", model_reply)
    if count:
        ctx.note_case(case, nontrivial=twins_in(pool, case), kind=case.get("gen", "case"))
        for op in case["history"]:
            if op["op"] == "call":
                ctx.dist["op-" + op["f"]["f"]] += 1
            else:
                ctx.dist["op-" + op["op"]] += 1
        ctx.dist["unmodelled-outcomes"] += unmodelled
        recipes = [case["cfg"]["recipe"]] + [op["recipe"] for op in case["history"] if op["op"] == "extend"]
        ctx.dist["cache-run:cases-with-multi-predicate-entry"] += any(multi_pred(r) for r in recipes)
        ctx.dist["cache-run:cases-with-enum-provider-entry"] += any(e.get("p", "user") != "user" for r in recipes for e in r)
        for row in rows:
            if row is not None:
                ctx.dist["outcome-" + ("ok" if "ok" in row["real"] else row["real"]["err"][0])] += 1
    return n, d


def norm0_of(case, carried):
    if case.get("pollute") is None:
        return carried
    return list(case["pollute"])


def run_cases(ctx: Ctx, pool: Pool, real: Real, drv, cases):
    # the model is sent the cases in one batch; `pollute: None` cases carry the cache of their predecessor, which
    # the model can not know exactly -> the model gets an empty norm cache (unobservable once keys are sound)
    replies = [None] * len(cases)
    if drv is not None:
        req = {"op": "cache_batch", "univ": pool.univ, "params": PARAMS,
               "cases": [to_model_case(pool, c, c.get("pollute") or []) for c in cases]}
        rep = drv.batch([req])[0]
        if "ok" not in rep:
            ctx.broken.append({"kind": "correspondence", "name": "cache-run", "detail": f"driver: {rep}"})
        else:
            replies = rep["ok"]
    n = d = 0
    for c, r in zip(cases, replies):
        a, b = check_case(ctx, pool, real, c, r)
        n += a
        d += b
        ctx.sample({"suite": "cache-run", "cfg": c["cfg"], "pollute": c.get("pollute"),
                    "history": c["history"][:6], "n_ops": len(c["history"])}, every=457)
    if drv is not None:
        ctx.suite("cache-run", n, d)


def suite_hint_eq(ctx: Ctx, pool: Pool, real: Real, drv):
    names = list(pool.hints)
    pairs = [(a, b) for a in names for b in names]
    replies = [None] * len(pairs)
    if drv is not None:
        rep = drv.batch([{"op": "hint_eq", "univ": pool.univ, "mode": FIXED_MODE,
                          "pairs": [{"a": pool.hint_js(a), "b": pool.hint_js(b)} for a, b in pairs]}])[0]
        if "ok" in rep:
            replies = rep["ok"]
        else:
            ctx.broken.append({"kind": "correspondence", "name": "hint-eq", "detail": f"driver: {rep}"})
    n = d = 0
    for (a, b), m in zip(pairs, replies):
        ha, hb = pool.hint_py(a), pool.hint_py(b)
        eq = ha == hb
        na, nb = real.raw_norm(ha), real.raw_norm(hb)
        neq = na == nb
        case = {"suite": "hint-eq", "a": a, "b": b}
        ctx.note_case(case, nontrivial=(a != b and (eq or neq)), kind="hint-eq")
        if eq and hash(ha) != hash(hb):
            ctx.fail("hash-consistency", f"{a} == {b} but their hashes differ", case)
        if eq and not neq:
            # the soundness condition of lru_cache(normalize_type) and of Retort._loader_cache[tp]
            ctx.fail(f"norm-congruence:{pool.family(a)}",
                     f"pool hints {a} == {b} ({ha!r}) but they normalise to different norms "
                     f"({[getattr(x, 'origin', x) for x in na.args]} vs {[getattr(x, 'origin', x) for x in nb.args]}, "
                     f"ids {[id(getattr(x, 'origin', x)) for x in na.args]} vs "
                     f"{[id(getattr(x, 'origin', x)) for x in nb.args]}): whichever is requested first decides the "
                     f"behaviour of the other", case)
        if eq and neq and [x.source for x in getattr(na, "args", ()) if hasattr(x, "source")] and na.origin is Union:
            if [x.origin for x in na.args] != [x.origin for x in nb.args]:
                ctx.fail(f"norm-congruence:{pool.family(a)}", f"{ha!r} / {hb!r}: union case order differs", case)
        if m is not None:
            n += 1
            if m["eq"] != eq or m["norm_eq"] != neq:
                d += 1
                ctx.disagree("hint-eq", case, {"eq": eq, "norm_eq": neq}, m)
    if drv is not None:
        ctx.suite("hint-eq", n, d)


# ---------------------------------------------------------------------------
# wider, real-only histories (unmodelled features)
# ---------------------------------------------------------------------------

class Wide:
    """Hints, data and recipes of the real-only suite: debug_trail variants, location-dependent providers over
    recursive models, dict/tuple/set/enum hints."""

    def __init__(self, pool: Pool):
        import enum
        from adaptix import Chain, DebugTrail, P, Retort, loader, name_mapping

        class E1(enum.IntEnum):
            A = 1

        class E2(enum.IntEnum):
            A = 1

        class Col(enum.Enum):
            R = "r"

        self.Retort, self.DebugTrail = Retort, DebugTrail
        A1, A2 = pool.A1, pool.A2
        self.hints = {
            "Node": Node, "ListNode": List[Node], "DictNode": Dict[str, Node], "TupNode": Tuple[Node, int],
            "Holder": Holder, "PA": PA, "PB": PB, "Tree": Tree, "ListHolder": ListHolder,
            "LitE1": Literal[E1.A], "LitE2": Literal[E2.A], "Lit1": Literal[1], "LitT": Literal[True],
            "LitMixed": Literal[E1.A, 1], "E1": E1, "E2": E2, "Col": Col,
            "DictL01": Dict[str, Literal[0, 1]], "DictLFT": Dict[str, Literal[False, True]],
            "TupL": Tuple[Literal[0, 1], int], "TupLFT": Tuple[Literal[False, True], int],
            "U12": Union[A1, A2], "U21": Union[A2, A1], "OptU": Optional[Union[A2, A1]],
            "DictU21": Dict[str, Union[A2, A1]], "L01": Literal[0, 1], "LFT": Literal[False, True],
            "RecBad": RecBad, "WithBad": WithBad, "L12": Literal[1, 2], "L1f2": Literal[1.0, 2], "LT2": Literal[True, 2],
            "FrozenLFT": typing.FrozenSet[Literal[False, True]], "SetL01": typing.Set[Literal[0, 1]],
            "ULit0F": Union[Literal[0], Literal[False]], "ULitF0": Union[Literal[False], Literal[0]],
            "OptLFT": Optional[Literal[False, True]], "OptL01": Optional[Literal[0, 1]],
        }
        deep = {"v": 0, "next": {"v": 1, "next": {"v": 2, "next": {"v": 3}}}}
        self.data = {
            "Node": [deep], "ListNode": [[deep]], "DictNode": [{"k": deep}], "TupNode": [[deep, 1]],
            "Holder": [{"h": {"b": {"w": 1, "a": {"b": {"w": 2, "a": {"b": {"w": 3}}}}}}}],
            "PA": [{"b": {"w": 1, "a": {"b": {"w": 2}}}}], "PB": [{"w": 1, "a": {"b": {"w": 2, "a": {}}}}],
            "Tree": [{"v": 1, "left": {"v": 2, "right": {"v": 3}}}],
            "ListHolder": [{"a": [{"v": 1, "next": {"v": 2}}], "b": [{"v": 3, "next": {"v": 4, "next": {"v": 5}}}]}],
            "LitE1": [1, True], "LitE2": [1, True], "Lit1": [1, True, 1.0], "LitT": [1, True], "LitMixed": [1, True],
            "E1": [1, True], "E2": [1], "Col": ["r"], "DictL01": [{"k": 0}, {"k": True}], "DictLFT": [{"k": 0}, {"k": True}],
            "TupL": [[0, 1], [True, 1]], "TupLFT": [[0, 1], [True, 1]], "U12": [{"x": 1}], "U21": [{"x": 1}],
            "OptU": [{"x": 1}, None], "DictU21": [{"k": {"x": 1}}], "L01": [0, True], "LFT": [0, True],
            "RecBad": [{"bad": 1}], "WithBad": [{"x": 1, "bad": 2}],
            "L12": [1, True, 1.0, 2], "L1f2": [1, True, 1.0, 2], "LT2": [1, True, 1.0, 2],
            "FrozenLFT": [[True, 0]], "SetL01": [[True, 0]],
            "ULit0F": [0, False, True], "ULitF0": [0, False, True], "OptLFT": [0, True, None], "OptL01": [0, True, None],
        }
        mark = lambda x: ("mark", x)  # noqa: E731
        self.recipes = {
            "plain": lambda: [],
            "deep-pattern": lambda: [loader(P[Holder].h.b.generic_arg(0, PB).w, lambda x: x * 100)],
            "chain-next": lambda: [loader(P[Holder].h.b, mark, Chain.LAST), loader(P[ListHolder].b, mark, Chain.LAST)],
            "weird-under-holder": lambda: [loader(P[Holder].h.b.generic_arg(0, PB).w, lambda x: ("w", x)),
                                           loader(P[WithBad].bad, mark)],
            "name-mapping": lambda: [name_mapping(Node, map={"v": "value"}), name_mapping(PB, as_list=True)],
        }

    def make(self, case):
        return self.Retort(strict_coercion=case["strict"], debug_trail=self.DebugTrail[case["trail"]],
                           recipe=self.recipes[case["recipe"]]())

    @staticmethod
    def out(fn):
        def tree(e):
            return [type(e).__name__, [tree(s) for s in getattr(e, "exceptions", ())]]
        try:
            return ("ok", repr(fn()))
        except RecursionError:
            return ("err", "RecursionError")
        except Exception as e:  # noqa: BLE001
            return ("err", canon(tree(e)))

    def gen(self, rng):
        names = list(self.hints)
        seq = [rng.choice(names) for _ in range(rng.randint(1, 6))]
        return {"suite": "wide", "recipe": rng.choice(list(self.recipes)), "strict": rng.random() < 0.7,
                "trail": rng.choice(["ALL", "FIRST", "DISABLE"]), "seq": seq,
                "kinds": [rng.choice(["get_loader", "load", "get_dumper"]) for _ in seq],
                "probe": rng.choice(names + seq), "clear": rng.random() < 0.5}

    def check(self, ctx: Ctx, real: Real, case, count=True) -> bool:
        hints, data, out = self.hints, self.data, self.out
        if case["clear"]:
            real.clear_norm()
        warm = self.make(case)
        for h, kind in zip(case["seq"], case["kinds"]):
            if kind == "get_loader":
                out(lambda: warm.get_loader(hints[h]))
            elif kind == "get_dumper":
                out(lambda: warm.get_dumper(hints[h]))
            else:
                out(lambda: warm.load(data[h][0], hints[h]))
        probe = case["probe"]
        got = [out(lambda: warm.load(v, hints[probe])) for v in data[probe]]
        if case["clear"]:
            real.clear_norm()
        fresh = self.make(case)
        want = [out(lambda: fresh.load(v, hints[probe])) for v in data[probe]]
        if count:
            ctx.note_case(case, nontrivial=len(set(case["seq"]) - {probe}) > 0,
                          kind=f"wide-{case['recipe']}-{case['trail']}")
        if got != want:
            ctx.fail(f"wide:warm-vs-fresh:{case['recipe']}:{probe}",
                     f"Retort(recipe={case['recipe']}, strict={case['strict']}, debug_trail={case['trail']}): after "
                     f"{list(zip(case['kinds'], case['seq']))} load(_, {probe}) gives {got}, a fresh retort {want}",
                     case)
            return True
        return False


    RECURSIVE = ["Node", "ListNode", "DictNode", "TupNode", "Holder", "PA", "PB", "Tree", "ListHolder", "RecBad"]

    def directed(self):
        """one earlier request, then a probe: every ordered pair of the recursive family under every recipe, and of
        the literal/union twins under the plain recipe"""
        for recipe in self.recipes:
            for a in self.RECURSIVE:
                for b in self.RECURSIVE:
                    if a != b:
                        yield {"suite": "wide", "recipe": recipe, "strict": True, "trail": "ALL", "seq": [a],
                               "kinds": ["get_loader"], "probe": b, "clear": False}
        twins = ["L01", "LFT", "L12", "L1f2", "LT2", "Lit1", "LitT", "LitE1", "LitE2", "LitMixed", "U12", "U21", "OptU",
                 "ULit0F", "ULitF0", "OptLFT", "OptL01", "DictL01", "DictLFT", "TupL", "TupLFT", "FrozenLFT", "SetL01"]
        for a in twins:
            for b in twins:
                if a != b:
                    for trail in ("ALL", "DISABLE"):
                        yield {"suite": "wide", "recipe": "plain", "strict": True, "trail": trail, "seq": [a],
                               "kinds": ["get_loader"], "probe": b, "clear": True}

    def norm_congruence(self, ctx: Ctx, real: Real):
        names = list(self.hints)
        for a in names:
            for b in names:
                ha, hb = self.hints[a], self.hints[b]
                if a < b and ha == hb:
                    na, nb = real.raw_norm(ha), real.raw_norm(hb)
                    case = {"suite": "wide-norm", "a": a, "b": b}
                    ctx.note_case(case, nontrivial=True, kind="wide-norm-congruence")
                    if na != nb:
                        ctx.fail(f"norm-congruence:wide:{a}",
                                 f"{ha!r} == {hb!r} but they normalise to different norms ({na!r} vs {nb!r})", case)


def wide_suite(ctx: Ctx, pool: Pool, real: Real, rounds: int, directed: bool = False):
    w = Wide(pool)
    w.norm_congruence(ctx, real)
    if directed:
        for case in w.directed():
            w.check(ctx, real, case)
    for _ in range(rounds):
        w.check(ctx, real, w.gen(ctx.rng))


def closure_state_suite(ctx: Ctx, n_specs: int):
    """History independence at the level of the produced closures (real code only): ONE loader and ONE dumper of a generated
    type are called with a sequence of valid and invalid arguments (failing calls in between successful ones); every call
    must return / raise what the same call does on the loader / dumper of a never-used retort. A closure that keeps anything
    from an earlier call (an error list, a partially built result, a consumed default) fails this."""
    from adaptix import DebugTrail, Retort
    from harness import morph
    rng = ctx.rng
    tg = morph.TypeGen(rng)
    real0 = morph.Real()

    def mk(mode, strict):
        return Retort(debug_trail=getattr(DebugTrail, mode), strict_coercion=strict)
    for i in range(n_specs):
        spec = tg.gen(rng.choice([1, 2, 2, 3]))
        if i % 5 == 0:
            spec = tg.fixed_tuple(2)      # every container provider gets its share
        elif i % 5 == 1:
            spec = tg.mapping(2)
        mode = rng.choice(["ALL", "ALL", "FIRST", "DISABLE"])
        strict = rng.random() < 0.7
        if real0.load("DISABLE", True, spec.hint, None).get("r") == "no-loader" or \
                real0.dump("DISABLE", True, spec.hint, None).get("r") == "no-dumper":
            continue
        try:
            values = [spec.gen(rng) for _ in range(3)]
            data = [real0.dumper("DISABLE", True, spec.hint)(v) for v in values]
        except Exception:  # noqa: BLE001
            continue
        loads = []
        for d in data:
            loads += [("valid", d), ("invalid", morph.corrupt(rng, spec, d))]
        dumps = []
        for v in values:
            dumps += [("typed", v), ("ill-typed", morph.corrupt(rng, spec, v) if isinstance(v, (list, tuple, dict)) and rng.random() < 0.8
                       else morph.wrong_values(rng))]
        rng.shuffle(loads)
        rng.shuffle(dumps)
        warm = mk(mode, strict)
        wl, wd = warm.get_loader(spec.hint), warm.get_dumper(spec.hint)
        for direction, fn, calls in (("load", wl, loads), ("dump", wd, dumps)):
            failed_before = False
            for k, (label, arg) in enumerate(calls):
                if isinstance(arg, (morph.IterDatum, morph.FreshDatum)) or morph.has_iter(_safe_enc(arg)):
                    continue
                fresh = mk(mode, strict)
                ffn = fresh.get_loader(spec.hint) if direction == "load" else fresh.get_dumper(spec.hint)
                got = morph.canon_outcome(morph.run_real(fn, arg))
                want = morph.canon_outcome(morph.run_real(ffn, arg))
                ctx.note_case({"suite": "closure-state", "hint": repr(spec.hint)[:120], "k": k, "dir": direction},
                              nontrivial=failed_before, kind=f"closure-state:{direction}:{mode}:{'after-failure' if failed_before else 'first'}")
                if got != want:
                    ctx.fail(f"closure-state:{direction}:{spec.kind.split(':')[0]}",
                             f"{direction}er of {repr(spec.hint)[:100]} [debug_trail={mode}, strict={strict}], call #{k} ({label}) "
                             f"after {k} earlier calls{' including a failed one' if failed_before else ''}: {str(got)[:160]}; "
                             f"the {direction}er of a fresh retort gives {str(want)[:160]}",
                             {"suite": "closure-state", "hint": repr(spec.hint)[:300], "mode": mode, "strict": strict,
                              "direction": direction, "calls": [[lb, repr(a)[:80]] for lb, a in calls[: k + 1]]})
                    break
                if got["r"] != "ok":
                    failed_before = True


def _safe_enc(v):
    from harness import morph
    try:
        return morph.enc(v)
    except morph.Unencodable:
        return None


# ---------------------------------------------------------------------------
# entry points
# ---------------------------------------------------------------------------

_POOL = None


def get_pool() -> Pool:
    global _POOL
    if _POOL is None:
        _POOL = Pool()
    return _POOL


def per_call_recipe_probe(ctx):
    """get_converter / convert with a per-call `recipe=` work on a throw-away clone: a later recipe-less request on the
    same retort (and on the module-level functions) must behave like a fresh retort, in either order"""
    from dataclasses import dataclass

    from adaptix import conversion as conv_mod
    from adaptix.conversion import ConversionRetort, coercer

    @dataclass
    class PSrc:
        a: int
        b: int

    @dataclass
    class PDst:
        a: int
        b: int

    recipe = [coercer(int, int, lambda x: x * 100)]
    src = PSrc(1, 2)
    fresh = ConversionRetort().get_converter(PSrc, PDst)(src)
    for order in ("custom-first", "plain-first"):
        for api in ("retort.get_converter", "retort.convert", "module"):
            case = {"probe": "per-call-recipe", "order": order, "api": api}
            ctx.note_case(case, nontrivial=True, kind="probe:per-call-recipe")
            try:
                if api == "module":
                    @dataclass
                    class MSrc:
                        a: int
                        b: int

                    @dataclass
                    class MDst:
                        a: int
                        b: int
                    msrc = MSrc(1, 2)
                    if order == "plain-first":
                        conv_mod.get_converter(MSrc, MDst)(msrc)
                    conv_mod.get_converter(MSrc, MDst, recipe=recipe)(msrc)
                    got = conv_mod.get_converter(MSrc, MDst)(msrc)
                    want = (fresh.a, fresh.b)
                    got = (got.a, got.b)
                else:
                    cr = ConversionRetort()
                    if order == "plain-first":
                        cr.get_converter(PSrc, PDst)(src)
                    if api == "retort.convert":
                        cr.convert(src, PDst, recipe=recipe)
                    else:
                        cr.get_converter(PSrc, PDst, recipe=recipe)(src)
                    g = cr.get_converter(PSrc, PDst)(src)
                    got, want = (g.a, g.b), (fresh.a, fresh.b)
            except Exception as e:  # noqa: BLE001
                ctx.fail("history:per-call-recipe:raises", f"{api} ({order}) raised {type(e).__name__}: {e}"[:200], case)
                continue
            if got != want:
                ctx.fail("history:per-call-recipe", f"{api} ({order}): a recipe-less get_converter after a call with recipe=[...] "
                         f"returns {got}, a fresh retort {want}", case)


def converter_history_suite(ctx: Ctx):
    """histories of get_converter / convert calls on ONE conversion retort that differ in the per-call `recipe=` and in the
    converter name: every call must return what the same call returns on a never-used retort (a per-call recipe works on a
    throw-away clone, and is honoured no matter what was requested before)"""
    import itertools
    from dataclasses import dataclass

    from adaptix.conversion import ConversionRetort, coercer

    @dataclass
    class HSrc:
        a: int
        b: int

    @dataclass
    class HDst:
        a: int
        b: int

    recipes = {"plain": None, "x100": [coercer(int, int, lambda x: x * 100)], "neg": [coercer(int, int, lambda x: -x)]}
    ops = [(r, n, api) for r in recipes for n in (None, "named") for api in ("get_converter", "convert") if not (api == "convert" and n)]
    src = HSrc(1, 2)

    def do(retort, op):
        r, n, api = op
        kw = {} if recipes[r] is None else {"recipe": recipes[r]}
        if api == "convert":
            out = retort.convert(src, HDst, **kw)
        else:
            out = retort.get_converter(HSrc, HDst, name=n, **kw)(src)
        return (out.a, out.b)
    want = {op: do(ConversionRetort(), op) for op in ops}
    seqs = [list(p) for k in (1, 2) for p in itertools.product(ops, repeat=k)]
    seqs += [[ctx.rng.choice(ops) for _ in range(ctx.rng.randint(3, 5))] for _ in range(ctx.budget(60, 600))]
    for seq in seqs:
        retort = ConversionRetort()
        case = {"probe": "converter-history", "seq": [list(map(str, op)) for op in seq]}
        ctx.note_case(case, nontrivial=len({op[0] for op in seq}) > 1, kind=f"converter-history:{min(len(seq), 3)}")
        for k, op in enumerate(seq):
            try:
                got = do(retort, op)
            except Exception as e:  # noqa: BLE001
                ctx.fail("history:per-call-recipe:raises", f"call #{k} {op} raised {type(e).__name__}: {e}"[:200], case)
                break
            if got != want[op]:
                ctx.fail("history:per-call-recipe", f"call #{k} {op} after {seq[:k]} returns {got}; on a never-used retort {want[op]}",
                         dict(case, seq=case["seq"][: k + 1]))
                break


def run(ctx: Ctx):
    per_call_recipe_probe(ctx)
    converter_history_suite(ctx)
    pool = get_pool()
    real = Real(pool)
    drv = None
    if ctx.driver_ok:
        try:
            drv = Driver("drv_c11")
        except InfraError:
            drv = None
    thorough = ctx.tier == "thorough"
    suite_hint_eq(ctx, pool, real, drv)
    max_len = 3 if thorough else 2
    cases = list(exhaustive_cases(pool, ctx.rng, max_len))
    if thorough:
        # 17^3 sequences are too many for both directions: keep every third
        cases = [c for k, c in enumerate(cases) if c["gen"] != "exhaustive-3" or k % 3 == ctx.seed % 3]
    run_cases(ctx, pool, real, drv, cases)
    run_cases(ctx, pool, real, drv, list(exhaustive_enum_cases(pool, ctx.rng, 2, ctx.seed)))
    total = ctx.budget(380, 6500)
    for lo in range(0, total, 500):
        run_cases(ctx, pool, real, drv, [random_case(pool, ctx.rng, 12) for _ in range(min(500, total - lo))])
    wide_suite(ctx, pool, real, ctx.budget(250, 4000), directed=True)
    closure_state_suite(ctx, ctx.budget(90, 1500))
    c11_recipes.recipe_state_suite(ctx, ctx.budget(50, 1500), per_form=ctx.budget(1, 3))
    c11_recursion.rec_history_suite(ctx, ctx.budget(60, 800), pair_share=ctx.budget(16, 3))
    ctx.extra["exhaustive"] = False
    ctx.extra["exhaustive_part"] = (f"every sequence of <= {max_len} get_loader (resp. get_dumper) requests over the "
                                    f"{len(Pool.CORE)}-hint core pool, each followed by a probe sweep over the core pool")
    ctx.extra["pool"] = {"hints": len(pool.hints), "classes": len(pool.cls_order)}
    ctx.extra["multi_predicate_recipes"] = {k: v for k, v in sorted(ctx.dist.items())
                                            if "multi-pred" in k or "generated-recipe" in k or k.startswith("cache-run:")}


def search(ctx: Ctx):
    """Directed search after a broken tie: the disagreeing cases first (oracle only), then a larger random budget."""
    pool = get_pool()
    real = Real(pool)
    for dis in ctx.disagreements[:100]:
        c = dis["case"]
        if isinstance(c, dict) and c.get("suite") == "cache-run":
            check_case(ctx, pool, real, c, None, count=False)
        if ctx.failures:
            return
    suite_hint_eq(ctx, pool, real, None)
    if ctx.failures:
        return
    for c in itertools.chain(exhaustive_cases(pool, ctx.rng, 2), exhaustive_enum_cases(pool, ctx.rng, 2, ctx.seed)):
        check_case(ctx, pool, real, c, None)
        if ctx.failures:
            return
    for _ in range(3000):
        check_case(ctx, pool, real, random_case(pool, ctx.rng, 12), None)
        if ctx.failures:
            return
    wide_suite(ctx, pool, real, 1500)
    if not ctx.failures:
        converter_history_suite(ctx)
    if not ctx.failures:
        closure_state_suite(ctx, 1000)
    if not ctx.failures:
        c11_recursion.rec_history_suite(ctx, 1500, pair_share=2, stop_on_failure=True)
    if not ctx.failures:
        c11_recipes.recipe_state_suite(ctx, 1500, per_form=3, stop_on_failure=True)


def replay(ctx: Ctx, case) -> bool:
    pool = get_pool()
    real = Real(pool)
    before = len(ctx.failures)
    suite = case.get("suite")
    if suite == "cache-run":
        check_case(ctx, pool, real, case, None, count=False)
    elif suite == "hint-eq":
        ha, hb = pool.hint_py(case["a"]), pool.hint_py(case["b"])
        if ha == hb and real.raw_norm(ha) != real.raw_norm(hb):
            ctx.fail("norm-congruence", "==-equal hints normalise differently", case)
    elif suite == "wide":
        Wide(pool).check(ctx, real, case, count=False)
    elif suite == "recipe-state":
        return c11_recipes.replay(ctx, case)
    elif suite == "rec-history":
        return c11_recursion.replay(ctx, case)
    elif suite == "wide-norm":
        w = Wide(pool)
        if real.raw_norm(w.hints[case["a"]]) != real.raw_norm(w.hints[case["b"]]):
            ctx.fail("norm-congruence:wide", "==-equal hints normalise differently", case)
    else:
        return False
    return len(ctx.failures) > before
