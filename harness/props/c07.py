"""C07 — strict_coercion only narrows the accepted inputs.

Lean: Props/C07.lean (containers: strict ⊆ lax on acceptance; equal value for union-free types / under NoLaxOverlap;
strict exclusions of iterables and Literal) + Props/C07Leaves.lean (scalar leaves: strict_origins_table by `decide` over
the closures translated from the source AND the origins table parsed from the documentation on every run).
Tie: translator (scalars + documentation table) and the per-mode `load` correspondence in both coercion modes.
Direct oracle (real code only): pairwise strict vs lax retorts on the same datum; the documented strict origins table.
"""
from extract import doctable, scalars
from harness import morph
from harness.core import Ctx

ID = "C07"
PROPS_FILE = "AdaptixProofs/Props/C07.lean"
EXTRA_PROPS_FILES = ["AdaptixProofs/Props/C07Leaves.lean", "AdaptixProofs/Props/C07Narrow.lean"]
LEAN_TARGETS = ["AdaptixProofs.Props.C07", "AdaptixProofs.Props.C07Leaves", "AdaptixProofs.Props.C07Narrow", "drv_morph"]
EXTRACT = [scalars.emit, doctable.emit]
CLAIM = {
    "technique": "Lean 4 proof: fuel induction strict ⊆ lax over the container model + joint symbolic execution of the "
                 "translated strict/lax closure pairs (kernel-checked table, lifted by soundness of the symbolic evaluator) + "
                 "kernel-checked table over the documentation's origins table; model/code correspondence in both coercion modes",
    "text": (
        "Props/C07.lean proves for all worlds, types, data, fuels and debug_trail modes that a strictly accepted datum is "
        "laxly accepted (given the same for the leaves) and loads to the identical value for union-free types and, with unions, "
        "under an explicit no-lax-overlap hypothesis; and that strict iterable/tuple loaders never accept Mapping or str and a "
        "bool/0/1-sensitive strict Literal never accepts a value of another exact type. Props/C07Narrow.lean DISCHARGES the leaf "
        "hypothesis for the closures translated from the source on this run: leaf_narrowing (strict returns v => lax returns the "
        "same v, every scalar, datum and call-site behaviour within the catalogue) by joint symbolic execution of both closures, "
        "and restates the container theorems for the builtin world (builtin_strict_sub_lax_value_unionFree, "
        "builtin_strict_sub_lax_accept). Props/C07Leaves.lean proves, over the strict closures and the 'Allowed strict origins' "
        "table parsed from the documentation on this run, that a strict scalar loader only returns on data of a documented "
        "origin class. The catalogue hypotheses are shown satisfiable (witness_within, witness_joint, witness_identity)."
    ),
    "note": (
        "Assumed about the stdlib (regenerated/validated on every run over the hostile corpus, not proved): the exception "
        "catalogue (which outcome classes a call site shows per datum class) and the identity table (int(x) is x for an exact "
        "int, str(x) for an exact str, Decimal(x) for a Decimal ...); a call expression named in both closures is assumed to do "
        "the same in both (one behaviour function)."
    ),
    "design_ref": "DESIGN.md §4 C07",
}
RULE = ("generated types x valid/corrupted/hostile data x 3 modes, compared pairwise between strict and lax; every scalar x "
        "hostile corpus; non-trivial = strict accepts, or strict and lax differ")
ASSUMPTIONS = ["stdlib exception catalogue (C04) and identity table (int(x) is x for exact ints ...): regenerated from "
               "observations on the hostile corpus on every run",
               "a call expression occurring in both the strict and the lax closure behaves the same in both"]
TRUSTED = ["translator extract/scalars.py and extract/doctable.py"]


def union_overlaps_lax(eng: morph.Engine, spec: morph.Spec, datum, mode) -> bool:
    """is there a union node below whose lax loaders accept the datum (or a sub-datum) in more than one case?
    approximated at the top: any union anywhere => the documented escape clause may apply"""
    return morph.spec_has_union(spec)


def oracle_pair(ctx: Ctx, eng: morph.Engine, rec: morph.LoadRecord):
    for m in morph.MODES:
        st, lx = rec.real[(m, True)], rec.real[(m, False)]
        if "escape" in (st["r"], lx["r"]) or "no-loader" in (st["r"], lx["r"]):
            continue
        case = {"hint": repr(rec.spec.hint)[:300], "ty": rec.spec.ty, "datum": morph.enc(rec.datum), "mode": m, "origin": rec.origin}
        import collections.abc
        if st["r"] == "ok" and (rec.spec.kind.startswith("iter") or rec.spec.kind == "tuple") and \
                (type(rec.datum) is str or isinstance(rec.datum, collections.abc.Mapping)):
            ctx.fail("strict-origin:iterable-from-str-or-mapping",
                     f"strict retort [{m}] loads a {type(rec.datum).__name__} as {repr(rec.spec.hint)[:120]}", case)
        if st["r"] == "ok" and lx["r"] != "ok":
            if morph.has_iter(case["datum"]) and morph.spec_has_union(rec.spec):
                continue
            ctx.fail(f"strict-not-sub-lax:{rec.spec.kind.split(':')[0]}",
                     f"accepted with strict_coercion=True but rejected with False: {repr(rec.spec.hint)[:120]}", case)
        elif st["r"] == "ok" and st != lx and not union_overlaps_lax(eng, rec.spec, rec.datum, m):
            ctx.fail(f"strict-lax-value:{rec.spec.kind.split(':')[0]}",
                     f"strict and lax load different values for a union-free type {repr(rec.spec.hint)[:120]}", case)


def strict_origin_sweep(ctx: Ctx, eng: morph.Engine):
    """documented table on the real loaders: strict accepts only the documented origin classes"""
    from extract import hostile
    table = doctable.parse(__import__("harness.core", fromlist=["REPO"]).REPO)
    pool = scalars.scalar_pool()
    corpus = hostile.corpus()
    for name, allowed in table.items():
        ld_s = eng.real.loader("DISABLE", True, pool[name])
        ld_l = eng.real.loader("DISABLE", False, pool[name])
        for mk in corpus:
            d = mk()
            tag = scalars.tag_of(d)
            out = morph.run_real(ld_s, d)
            ctx.note_case({"s": name, "d": repr(d)[:50]}, nontrivial=out["r"] == "ok", kind=f"origin:{name}:{out['r']}")
            cls = "str" if tag == "enum:str" else tag
            if out["r"] == "ok" and cls not in allowed:
                ctx.fail(f"strict-origin:{name}:{cls}", f"strict loader of {name} accepts a datum of class {cls}: {d!r}; "
                         f"documented allowed strict origins are {allowed}",
                         {"scalar": name, "datum": repr(d)[:120], "tag": tag})
            if out["r"] == "ok":
                lax = morph.run_real(ld_l, mk())
                if lax["r"] != "ok" or morph.canon_outcome(lax) != morph.canon_outcome(out):
                    ctx.fail(f"leaf-narrowing:{name}", f"scalar {name}: strict loads {d!r} but lax gives {lax['r']} / another value",
                             {"scalar": name, "datum": repr(d)[:120]})
    # containers and Literal: no str / dict to a list, no bool where an int Literal is required
    from typing import Literal
    from typing import Any, List
    any_iters = [list[Any], List, list, set, frozenset, tuple[Any, ...], list[object], set[Any]]
    probes = [(h, d) for h in any_iters for d in ("abc", {"a": 1}, "")]
    probes += [(list[int], "12"), (list[str], {"a": 1}), (tuple[int, int], "12"), (tuple[str], {"a": 1}), (set[str], "ab"),
              (Literal[1], True), (Literal[0], False), (Literal[True], 1), (Literal[1, 2], True), (int, True), (int, "1"),
              (float, "1.5"), (str, 1), (bool, 1)]
    for hint, d in probes:
        for m in morph.MODES:
            out = eng.real.load(m, True, hint, d)
            ctx.note_case({"p": repr(hint), "d": repr(d), "m": m}, nontrivial=True, kind="strict-probe:" + out["r"])
            if out["r"] == "ok":
                ctx.fail(f"strict-origin:probe:{hint!r}", f"strict retort accepts {d!r} for {hint!r}", {"hint": repr(hint), "datum": repr(d)})


def mapping_kind_probes(ctx: Ctx):
    """"no dict or str where a list is required" for EVERY kind of Mapping and str - dict subclasses (OrderedDict, defaultdict,
    Counter), non-dict Mappings (MappingProxyType, ChainMap, UserDict, a hand-written Mapping), str subclasses - and every loader
    that iterates its datum: iterables, tuples, abstract collections, and flags loaded by member names"""
    import collections
    import enum
    import types
    from collections.abc import Collection, Iterable, Mapping, Sequence
    from typing import Any

    from adaptix import DebugTrail, Retort, flag_by_member_names

    class HandMapping(Mapping):
        def __init__(self, d):
            self._d = d

        def __getitem__(self, k):
            return self._d[k]

        def __iter__(self):
            return iter(self._d)

        def __len__(self):
            return len(self._d)

    class MyDict(dict):
        pass

    class Perm(enum.Flag):
        A = 1
        B = 2
    base = {"A": 1, "B": 2}
    data = [dict(base), collections.OrderedDict(base), collections.defaultdict(int, base), collections.Counter(base), MyDict(base),
            types.MappingProxyType(base), collections.ChainMap(base), collections.UserDict(base), HandMapping(base), "AB"]
    # (an instance of a str SUBCLASS is deliberately not probed: strict mode tests `type(data) is str` everywhere - the strict str
    # loader itself rejects it - so for strict coercion it is "not a str"; the Mapping exclusion is an isinstance test)
    hints = [list[str], list[Any], tuple[str, str], tuple[str, ...], set[str], frozenset[str], Iterable[str], Sequence[str],
             Collection[Any], collections.deque[str], Perm]
    for m in morph.MODES:
        strict = Retort(strict_coercion=True, debug_trail=getattr(DebugTrail, m), recipe=[flag_by_member_names(Perm)])
        for hint in hints:
            ld = strict.get_loader(hint)
            for d in data:
                out = morph.run_real(ld, d)
                ctx.note_case({"p": repr(hint), "d": type(d).__name__, "m": m}, nontrivial=True,
                              kind=f"strict-mapping-kinds:{type(d).__name__}:{out['r']}")
                if out["r"] == "ok":
                    ctx.fail("strict-origin:mapping-or-str-kind", f"strict retort [{m}] loads a {type(d).__name__} ({d!r:.60}) as "
                             f"{hint!r}", {"hint": repr(hint), "datum_type": type(d).__name__, "mode": m})
                    return


def generic_member_probes(ctx: Ctx):
    """strict origins through generic models: members that mention the class's type variables in another order than declared
    (dict[V, K], tuple[V, K, V]), only some of them, nested, inherited - the strict loader of Index[str, int] accepts exactly the
    data whose positions have the substituted types, and rejects the data with the types swapped"""
    import dataclasses
    from typing import Generic, TypeVar

    from adaptix import DebugTrail, Retort
    K, V, W = TypeVar("K"), TypeVar("V"), TypeVar("W")

    @dataclasses.dataclass
    class Index(Generic[K, V]):
        forward: dict[K, V]
        backward: dict[V, K]
        last: tuple[V, K]
        only_v: list[V]
        nested: dict[V, list[tuple[K, V]]]

    @dataclasses.dataclass
    class Child(Index[W, int], Generic[W]):
        extra: tuple[int, W]
    good = {"forward": {"a": 1}, "backward": {1: "a"}, "last": [1, "a"], "only_v": [1], "nested": {1: [["a", 1]]}}
    swapped_variants = [dict(good, backward={"a": 1}), dict(good, last=["a", 1]), dict(good, only_v=["a"]), dict(good, nested={"a": [[1, "a"]]}),
                        dict(good, nested={1: [[1, "a"]]}), dict(good, forward={1: "a"})]
    for m in morph.MODES:
        r = Retort(strict_coercion=True, debug_trail=getattr(DebugTrail, m))
        for hint, extra_good, extra_bad in ((Index[str, int], {}, None), (Child[str], {"extra": [1, "a"]}, {"extra": ["a", 1]})):
            ld = r.get_loader(hint)
            case = {"probe": "generic-members", "hint": repr(hint), "mode": m}
            ctx.note_case(case, nontrivial=True, kind="generic-members")
            out = morph.run_real(ld, dict(good, **extra_good))
            if out["r"] != "ok":
                ctx.fail("generic-members:well-typed-rejected", f"strict retort [{m}] rejects well-typed data for {hint!r}: {str(out)[:160]}", case)
                return
            bads = [dict(v, **extra_good) for v in swapped_variants] + ([dict(good, **extra_bad)] if extra_bad else [])
            for bad in bads:
                out = morph.run_real(ld, bad)
                if out["r"] == "ok":
                    ctx.fail("strict-origin:generic-member", f"strict retort [{m}] accepts {bad!r:.160} for {hint!r}: a str where the "
                             f"substituted type is int (or the reverse)", dict(case, datum=repr(bad)[:200]))
                    return


def derived_retort_probes(ctx: Ctx):
    """strict and lax retorts DERIVED from one another (replace / extend, with and without other options in the same call), used
    in either order: the strict one still rejects everything outside the allowed strict origins, whatever its lax sibling has
    already loaded, and the lax one still accepts it"""
    import dataclasses
    import itertools

    from adaptix import DebugTrail, Retort

    @dataclass_point()
    class Point:
        x: int
        y: int
    probes = [(int, "1"), (list[int], "12"), (list[str], {"a": 1}), (tuple[str, str], "ab"), (Point, {"x": "1", "y": "2"}),
              (float, "1.5"), (bool, 1), (dict[str, int], {"a": "1"})]
    derivations = {
        "replace(strict)": lambda r, s: r.replace(strict_coercion=s),
        "replace(strict, hide_traceback)": lambda r, s: r.replace(strict_coercion=s, hide_traceback=False),
        "replace(strict, debug_trail)": lambda r, s: r.replace(strict_coercion=s, debug_trail=DebugTrail.FIRST),
        "replace(strict).extend([])": lambda r, s: r.replace(strict_coercion=s).extend(recipe=[]),
        "replace(hide).replace(strict)": lambda r, s: r.replace(hide_traceback=True).replace(strict_coercion=s),
    }
    for (dname, derive), parent_strict, lax_first in itertools.product(derivations.items(), (True, False), (True, False)):
        parent = Retort(strict_coercion=parent_strict)
        child = derive(parent, not parent_strict)
        strict, lax = (parent, child) if parent_strict else (child, parent)
        case = {"probe": "derived-retorts", "derivation": dname, "parent_strict": parent_strict, "lax_first": lax_first}
        ctx.note_case(case, nontrivial=True, kind="derived-retorts")
        for hint, d in probes:
            outs = {}
            for which in (("lax", "strict") if lax_first else ("strict", "lax")):
                outs[which] = morph.run_real((lax if which == "lax" else strict).get_loader(hint), d)["r"]
            if outs["strict"] == "ok":
                ctx.fail("strict-origin:derived-retort", f"the strict retort of a pair derived by {dname} (parent strict={parent_strict}, "
                         f"{'lax' if lax_first else 'strict'} one used first) accepts {d!r} for {hint!r}", dict(case, hint=repr(hint), datum=repr(d)))
                return
            if outs["lax"] != "ok":
                ctx.fail("lax-derived-retort", f"the lax retort of a pair derived by {dname} (parent strict={parent_strict}, "
                         f"{'lax' if lax_first else 'strict'} one used first) rejects {d!r} for {hint!r}", dict(case, hint=repr(hint), datum=repr(d)))
                return


def dataclass_point():
    import dataclasses
    return dataclasses.dataclass


def literal_matrix(ctx: Ctx, eng: morph.Engine):
    """every Literal over {True, False, 0, 1, 2, 'a', '1'} (non-empty subsets) x look-alike data x modes, strict and lax:
    the strict loader of a bool/0/1-sensitive Literal accepts exactly the data equal to a case OF THE SAME EXACT TYPE;
    otherwise and in lax mode plain `==` membership; strict-accepted => lax-accepted with the same value"""
    import itertools
    from typing import Literal
    pool = [True, False, 0, 1, 2, "a", "1"]
    data = [True, False, 0, 1, 2, -1, 1.0, 0.0, "a", "1", None]
    tg = morph.TypeGen(ctx.rng)
    subsets = [c for k in range(1, len(pool) + 1) for c in itertools.combinations(pool, k)]
    if ctx.tier == "quick":
        subsets = [c for c in subsets if len(c) <= 3] + ctx.rng.sample([c for c in subsets if len(c) > 3], 12)
    cases = []
    for vals in subsets:
        spec = tg.from_hint_literal(Literal[vals])
        for d in data:
            for m in morph.MODES:
                for s in (True, False):
                    cases.append((spec, d, m, s, vals))
    rows = eng.compare_loads([c[:4] for c in cases], suite="literal-matrix")
    by = {}
    for (spec, d, m, s, vals), (_, real, _model) in zip(cases, rows):
        by[(vals, repr(d), m, s)] = real
        sensitive = any(type(v) is bool or (type(v) is int and v in (0, 1)) for v in vals)
        if s and sensitive:
            want = any(type(v) is type(d) and v == d for v in vals)
        else:
            want = any(v == d for v in vals)
        ctx.note_case({"lit": repr(vals), "d": repr(d), "m": m, "s": s}, nontrivial=True, kind=f"literal:{'strict' if s else 'lax'}:{real['r']}")
        got = real["r"] == "ok"
        case = {"hint": f"Literal{list(vals)}", "datum": repr(d), "mode": m, "strict": s}
        if got != want:
            ctx.fail("strict-origin:literal" if s else "lax-literal",
                     f"{'strict' if s else 'lax'} loader of Literal{list(vals)} [{m}] {'accepts' if got else 'rejects'} {d!r} "
                     f"({type(d).__name__})", case)
        elif got and (real["v"] != morph.canon_val(morph.enc(d))):
            ctx.fail("literal-value", f"Literal{list(vals)} loads {d!r} as another value", case)
    for (vals, dr, m, s), real in by.items():
        if s and real["r"] == "ok" and by[(vals, dr, m, False)] != real:
            ctx.fail("strict-not-sub-lax:literal", f"Literal{list(vals)} [{m}]: strict accepts {dr} but lax gives "
                     f"{by[(vals, dr, m, False)]['r']} / another value", {"hint": f"Literal{list(vals)}", "datum": dr, "mode": m})


def run(ctx: Ctx):
    eng = morph.Engine(ctx)
    strict_origin_sweep(ctx, eng)
    literal_matrix(ctx, eng)
    derived_retort_probes(ctx)
    mapping_kind_probes(ctx)
    generic_member_probes(ctx)
    specs = eng.gen_specs(ctx.budget(140, 2000), 3 if ctx.tier == "quick" else 4)
    recs = eng.load_records(specs, suite="load", n_valid=2, n_corrupt=3, n_hostile=2)
    for rec in recs:
        strict_ok = any(rec.real[(m, True)]["r"] == "ok" for m in morph.MODES)
        differ = any(rec.real[(m, True)] != rec.real[(m, False)] for m in morph.MODES)
        ctx.note_case({"t": rec.spec.ty, "d": morph.enc(rec.datum)}, nontrivial=strict_ok or differ,
                      kind=f"pair-{rec.origin}:" + ("differ" if differ else "same"))
        oracle_pair(ctx, eng, rec)
        if differ and len(ctx.samples) < 5:
            ctx.sample({"hint": repr(rec.spec.hint)[:120], "datum": morph.enc(rec.datum),
                        "strict": rec.real[("DISABLE", True)]["r"], "lax": rec.real[("DISABLE", False)]["r"]})


def search(ctx: Ctx):
    eng = morph.Engine(ctx)
    eng.drv = None
    strict_origin_sweep(ctx, eng)
    literal_matrix(ctx, eng)
    derived_retort_probes(ctx)
    mapping_kind_probes(ctx)
    generic_member_probes(ctx)
    if not ctx.failures:
        for rec in eng.load_records(eng.gen_specs(1500, 4), n_valid=2, n_corrupt=4, n_hostile=3):
            oracle_pair(ctx, eng, rec)


def replay(ctx: Ctx, case) -> bool:
    eng = morph.Engine(ctx)
    before = len(ctx.failures)
    strict_origin_sweep(ctx, eng)
    literal_matrix(ctx, eng)
    derived_retort_probes(ctx)
    mapping_kind_probes(ctx)
    generic_member_probes(ctx)
    return len(ctx.failures) > before
