"""Shared harness of the morphing properties (C01 C02 C04 C05 C06 C07 C20).

* a generator of type expressions with their normalised model `Ty`,
* a generator of well-typed values, of corrupted data and the hostile corpus,
* encoders Python value / exception  <->  the JSON form of the Lean model,
* the real-side runners (one Retort per (debug_trail, strict_coercion)),
* the assembly of model requests: class table, call-site outcomes of the
  translated scalar closures observed on the real stdlib, scalar dumper outcomes.
"""
import base64
import collections
import collections.abc
import dataclasses
import datetime
import decimal
import fractions
import io
import ipaddress
import math
import pathlib
import re
import types
import typing
import uuid
from dataclasses import dataclass, field, make_dataclass
from typing import Any, Literal, Optional, Union

from extract import scalars as X

MODES = ("DISABLE", "FIRST", "ALL")

# ---------------------------------------------------------------------------------------
# value encoding
# ---------------------------------------------------------------------------------------

ATOM_TEXT = {
    decimal.Decimal: str, fractions.Fraction: str, complex: repr, uuid.UUID: str,
    datetime.datetime: lambda v: v.isoformat(), datetime.date: lambda v: v.isoformat(),
    datetime.time: lambda v: v.isoformat(),
    datetime.timedelta: lambda v: f"{v.days},{v.seconds},{v.microseconds}",
    ipaddress.IPv4Address: str, ipaddress.IPv6Address: str, ipaddress.IPv4Network: str, ipaddress.IPv6Network: str,
    ipaddress.IPv4Interface: str, ipaddress.IPv6Interface: str,
    pathlib.PosixPath: str, pathlib.PurePosixPath: str, pathlib.PureWindowsPath: str,
    re.Pattern: lambda v: f"{v.pattern!r}/{int(v.flags)}",
    io.BytesIO: lambda v: base64.b64encode(v.getvalue()).decode(),
}


def enc_float(f: float):
    if math.isnan(f):
        return ["f", "nan"]
    if math.isinf(f):
        return ["f", "inf" if f > 0 else "-inf"]
    if f == 0:
        return ["f", "-0"] if math.copysign(1, f) < 0 else ["f", "0", "0"]
    n, d = f.as_integer_ratio()
    e = -(d.bit_length() - 1)
    while n % 2 == 0:
        n //= 2
        e += 1
    return ["f", str(n), str(e)]


class Unencodable(Exception):
    pass


def enc(v, models=None):  # noqa: C901, PLR0911, PLR0912
    """Python value -> JSON form of `Adaptix.Py.Val` (sets/dicts in their actual iteration order)"""
    t = type(v)
    if v is None:
        return ["n"]
    if t is bool:
        return ["b", v]
    if t is int:
        return ["i", str(v)]
    if t is float:
        return enc_float(v)
    if t is str:
        try:
            v.encode("utf-8")
        except UnicodeEncodeError:
            raise Unencodable("surrogate") from None
        return ["s", v]
    if t is bytes:
        return ["y", list(v)]
    if t is bytearray:
        return ["Y", list(v)]
    if t is list:
        return ["l", [enc(x, models) for x in v]]
    if t is tuple:
        return ["t", [enc(x, models) for x in v]]
    if t is set:
        return ["S", [enc(x, models) for x in v]]
    if t is frozenset:
        return ["F", [enc(x, models) for x in v]]
    if t is collections.deque:
        return ["q", [enc(x, models) for x in v]]
    if t is dict or t is collections.defaultdict:
        return ["d", [[enc(k, models), enc(x, models)] for k, x in v.items()]]
    if isinstance(v, IterDatum):
        return ["it", [enc(x, models) for x in v.items]]
    if isinstance(v, FreshDatum):
        return enc(v.make(), models)
    if dataclasses.is_dataclass(v) and not isinstance(v, type):
        return ["o", t.__name__, [[f.name, enc(getattr(v, f.name), models)] for f in dataclasses.fields(v)]]
    for cls, fn in ATOM_TEXT.items():
        if t is cls:
            return ["a", X.type_name(cls), fn(v)]
    return ["x", X.type_name(t)]


class IterDatum:
    """A datum that is an iterator: a fresh one per use (`make()`); `items` for encoding."""

    def __init__(self, items):
        self.items = list(items)

    def make(self):
        return (x for x in self.items)


class FreshDatum:
    """A stateful datum (e.g. BytesIO, whose iteration consumes it): a fresh instance per use."""

    def __init__(self, factory):
        self.factory = factory

    def make(self):
        return self.factory()


def materialise(v):
    """replace IterDatum markers by fresh generators (deep, for containers that can hold them)"""
    if isinstance(v, (IterDatum, FreshDatum)):
        return v.make()
    if type(v) is list:
        return [materialise(x) for x in v]
    if type(v) is tuple:
        return tuple(materialise(x) for x in v)
    if type(v) is dict:
        return {materialise(k): materialise(x) for k, x in v.items()}
    return v


_ADDR = re.compile(r" at 0x[0-9a-fA-F]+")
_ITREPR = re.compile(r"<(generator object|harness\.morph\.IterDatum object|list_iterator object|tuple_iterator object)[^>]*>")


def canon_val(j):
    """canonical form for comparison: sets sorted, memory addresses inside strings masked"""
    if not isinstance(j, list) or not j:
        return j
    k = j[0]
    if k == "s" and " at 0x" in j[1]:
        return ["s", _ADDR.sub(" at 0x?", _ITREPR.sub("<it>", j[1]))]
    if k in ("S", "F"):
        return [k, sorted((canon_val(x) for x in j[1]), key=repr)]
    if k == "it" or (k == "x" and j[1] in ("generator", "list_iterator", "tuple_iterator")):
        return ["it?"]  # an iterator is compared by kind only (the real one is consumed)
    if k in ("l", "t", "q"):
        return [k, [canon_val(x) for x in j[1]]]
    if k == "d":
        return [k, [[canon_val(a), canon_val(b)] for a, b in j[1]]]
    if k == "o":
        return [k, j[1], [[n, canon_val(x)] for n, x in j[2]]]
    return j


# ---------------------------------------------------------------------------------------
# exceptions -> outcome JSON
# ---------------------------------------------------------------------------------------

def enc_trail_el(el, models):
    from adaptix.struct_trail import Attr, ItemKey
    if isinstance(el, ItemKey):
        return ["itemKey", enc(el.key, models)]
    if isinstance(el, Attr):
        return ["attr", el.name]
    if type(el) is int and el >= 0:
        return ["idx", el]
    return ["key", enc(el, models)]


def canon_trail_el(j):
    if j[0] == "key" and j[1][0] == "i" and int(j[1][1]) >= 0:
        return ["idx", int(j[1][1])]
    if j[0] in ("key", "itemKey"):
        return [j[0], canon_val(j[1])]
    return j


def enc_err(e, models):
    from adaptix.load_error import LoadError
    from adaptix.struct_trail import get_trail
    if not isinstance(e, LoadError):
        return {"cls": "<non-LoadError:" + X.exc_name(type(e)) + ">", "trail": [enc_trail_el(x, models) for x in get_trail(e)],
                "input": None, "detail": [], "children": []}
    try:
        inp = enc(e.input_value, models) if hasattr(e, "input_value") else None
    except Unencodable:
        inp = ["x", "unencodable"]
    detail = sorted(map(str, e.fields)) if hasattr(e, "fields") else []
    children = [enc_err(c, models) for c in getattr(e, "exceptions", ())]
    return {"cls": type(e).__name__, "trail": [enc_trail_el(x, models) for x in get_trail(e)],
            "input": inp, "detail": detail, "children": children}


def canon_err(j):
    return {"cls": j["cls"], "trail": [canon_trail_el(x) for x in j["trail"]],
            "input": None if j["input"] is None else canon_val(j["input"]),
            "detail": sorted(j["detail"]), "children": [canon_err(c) for c in j["children"]]}


def canon_outcome(o):
    if o["r"] == "ok":
        return {"r": "ok", "v": canon_val(o["v"])}
    if o["r"] == "err":
        return {"r": "err", "e": canon_err(o["e"])}
    return o


def run_real(fn, arg, models=None):
    """call a real loader/dumper; -> outcome JSON"""
    from adaptix.load_error import LoadError
    try:
        v = fn(arg)
    except LoadError as e:
        return {"r": "err", "e": enc_err(e, models)}
    except Exception as e:  # noqa: BLE001
        return {"r": "escape", "exc": X.exc_name(type(e))}
    try:
        return {"r": "ok", "v": enc(v, models)}
    except Unencodable:
        return {"r": "ok", "v": ["x", "unencodable"]}


# ---------------------------------------------------------------------------------------
# type specs
# ---------------------------------------------------------------------------------------

@dataclass
class Spec:
    hint: Any                       # the Python type hint
    ty: list                        # JSON of `Adaptix.Morph.Ty` (normalised structure)
    gen: Any                        # rng -> well-typed value
    kind: str
    children: list = field(default_factory=list)
    hashable: bool = True
    json_safe: bool = True          # no Any/object below (for the JSON clause of C01)
    overlapping: bool = False       # union whose cases overlap (undefined result by the docs)

    def scalars(self):
        out = set()
        if self.ty[0] == "scalar":
            out.add(self.ty[1])
        for c in self.children:
            out |= c.scalars()
        return out

    def classes(self):
        out = {}
        if self.kind == "model":
            out[self.ty[1]] = self
        for c in self.children:
            out.update(c.classes())
        return out


def _txt(rng):
    return rng.choice(["", "a", "b", "ab", "é", "1", "x y", "0", "None", "a" * 5])


def _int(rng):
    return rng.choice([0, 1, -1, 2, 7, 255, -2 ** 31, 2 ** 53 + 1, 10 ** 20, rng.randrange(-1000, 1000)])


def _float(rng):
    return rng.choice([0.0, -0.0, 1.0, 1.5, -1.5, 0.1, 1e308, 5e-324, float("inf"), float("-inf"), float("nan"),
                       2.0 ** 70, rng.random() * 100, -rng.random()])


def _td(rng):
    return rng.choice([
        datetime.timedelta(0), datetime.timedelta(seconds=1), datetime.timedelta(seconds=-1, microseconds=-500000),
        datetime.timedelta(microseconds=1), datetime.timedelta(seconds=1, microseconds=1),
        datetime.timedelta(days=-1, microseconds=5), datetime.timedelta(days=365 * 100, microseconds=999999),
        datetime.timedelta(seconds=rng.randrange(-10 ** 6, 10 ** 6), microseconds=rng.randrange(10 ** 6)),
        datetime.timedelta(seconds=-rng.randrange(1, 10 ** 4), microseconds=-rng.randrange(10 ** 6)),
    ])


SCALAR_GEN = {
    "none": lambda r: None,
    "int": _int,
    "float": _float,
    "str": _txt,
    "bool": lambda r: r.random() < 0.5,
    "decimal": lambda r: r.choice([decimal.Decimal("1"), decimal.Decimal("0"), decimal.Decimal("-1.50"), decimal.Decimal("1E+3"),
                                   decimal.Decimal("NaN"), decimal.Decimal("Infinity"), decimal.Decimal("-0"),
                                   decimal.Decimal(r.randrange(-999, 999)) / 7]),
    "fraction": lambda r: r.choice([fractions.Fraction(0), fractions.Fraction(1), fractions.Fraction(-3, 4),
                                    fractions.Fraction(r.randrange(-50, 50), r.randrange(1, 50))]),
    "complex": lambda r: r.choice([0j, 1 + 0j, 1 + 2j, -1.5j, complex(r.randrange(-5, 5), r.randrange(-5, 5))]),
    "datetime": lambda r: r.choice([datetime.datetime(2020, 1, 2, 3, 4, 5), datetime.datetime(1, 1, 1),
                                    datetime.datetime(9999, 12, 31, 23, 59, 59, 999999),
                                    datetime.datetime(2020, 1, 2, tzinfo=datetime.timezone.utc),
                                    datetime.datetime(2021, 6, 7, 8, 9, 10, 123, tzinfo=datetime.timezone(datetime.timedelta(hours=-3, minutes=-30)))]),
    "date": lambda r: r.choice([datetime.date(2020, 1, 2), datetime.date(1, 1, 1), datetime.date(9999, 12, 31)]),
    "time": lambda r: r.choice([datetime.time(3, 4, 5), datetime.time(0), datetime.time(23, 59, 59, 999999),
                                datetime.time(1, 2, tzinfo=datetime.timezone.utc)]),
    "timedelta": _td,
    "bytes": lambda r: r.choice([b"", b"a", b"abc", b"\x00\xff", bytes(r.randrange(256) for _ in range(r.randrange(6)))]),
    "bytearray": lambda r: bytearray(r.choice([b"", b"a", b"abc", b"\x00\xff"])),
    "uuid": lambda r: uuid.UUID(int=r.getrandbits(128)),
    "ipv4address": lambda r: ipaddress.IPv4Address(r.getrandbits(32)),
    "ipv6address": lambda r: ipaddress.IPv6Address(r.getrandbits(128)),
    "ipv4network": lambda r: r.choice([ipaddress.IPv4Network("1.2.3.0/30"), ipaddress.IPv4Network("10.0.0.0/31")]),
    "ipv4interface": lambda r: ipaddress.IPv4Interface("1.2.3.4/24"),
    "purepath": lambda r: pathlib.PurePosixPath(r.choice(["/a/b", "a", ".", "a b/é"])),
    "path": lambda r: pathlib.PosixPath(r.choice(["/a/b", "a", "."])),
    "pattern": lambda r: re.compile(r.choice(["a+", "", "[a-z]*", "(x|y)"])),
}

def _bytesio(r):
    """a stream with content and a position anywhere in it (a dumper must read the whole content and leave the position)"""
    b = io.BytesIO(r.choice([b"", b"a", b"abcd", b"\x00\xff\x10", bytes(r.randrange(256) for _ in range(r.randrange(1, 9)))]))
    b.seek(r.randrange(len(b.getvalue()) + 1))
    return b


# stateful scalars: generated only on request (TypeGen(stateful=True)); `==` on them is identity
STATEFUL_GEN = {"bytesio": _bytesio}

UNHASHABLE_SCALARS = {"bytearray", "bytesio"}
# JSON-representable dict keys after dumping are strings only
STR_DUMP_SCALARS = {"str", "decimal", "fraction", "complex", "datetime", "date", "time", "bytes", "uuid", "ipv4address",
                    "ipv6address", "ipv4network", "ipv4interface", "purepath", "path", "pattern"}

ITER_KINDS = [
    # (make hint, factory, dumpList, python factory, hashable result)
    (lambda t: list[t], "list", True, list, False),
    (lambda t: typing.List[t], "list", True, list, False),
    (lambda t: tuple[t, ...], "tuple", False, tuple, True),
    (lambda t: set[t], "set", False, set, False),
    (lambda t: frozenset[t], "frozenset", False, frozenset, True),
    (lambda t: collections.deque[t], "deque", False, collections.deque, False),
    (lambda t: collections.abc.Iterable[t], "tuple", False, tuple, True),
    (lambda t: collections.abc.Sequence[t], "tuple", False, tuple, True),
    (lambda t: collections.abc.Collection[t], "tuple", False, tuple, True),
    (lambda t: collections.abc.MutableSequence[t], "list", False, list, False),
    (lambda t: collections.abc.Set[t], "frozenset", False, frozenset, True),
    (lambda t: collections.abc.MutableSet[t], "set", False, set, False),
]


def has_nan(v, depth=0) -> bool:
    """does the value contain something that is not equal to itself (float / Decimal / complex NaN), at any tuple depth?"""
    if isinstance(v, (tuple, frozenset)) and depth < 6:
        return any(has_nan(x, depth + 1) for x in v)
    try:
        return bool(v != v)
    except Exception:  # noqa: BLE001  (Decimal sNaN refuses comparison)
        return True


def _is_hashable(v) -> bool:
    try:
        hash(v)
        return True
    except TypeError:
        return False


def class_key(cls) -> str:
    """name of a ClassDispatcher key / a value class, as the model sees it"""
    if dataclasses.is_dataclass(cls):
        return cls.__name__
    if isinstance(cls, type):
        return X.type_name(cls)
    return repr(cls)


class TypeGen:
    def __init__(self, rng, user_leaves=False, stateful=False):
        self.rng = rng
        self.user_leaves = user_leaves
        self.stateful = stateful
        self.n_models = 0
        self.model_specs: dict[str, Spec] = {}

    def scalar(self, name=None):
        if name is None and self.stateful and self.rng.random() < 0.15:
            name = self.rng.choice(list(STATEFUL_GEN))
        name = name or self.rng.choice(list(SCALAR_GEN))
        tp = X.scalar_pool()[name]
        return Spec(hint=tp if tp is not type(None) else None, ty=["scalar", name],
                    gen=SCALAR_GEN.get(name) or STATEFUL_GEN[name], kind="scalar:" + name,
                    hashable=name not in UNHASHABLE_SCALARS)

    def user_leaf(self):
        name = self.rng.choice(list(USER_LEAVES))
        cls, _, g = USER_LEAVES[name]
        return Spec(hint=cls, ty=["scalar", name], gen=g, kind="scalar:" + name, hashable=False, json_safe=False)

    def any(self):
        def g(r):
            return r.choice([None, 1, "a", [1, "b"], {"k": [None]}, (1, 2), 1.5, True])
        return Spec(hint=self.rng.choice([Any, object]), ty=["any"], gen=g, kind="any", hashable=False, json_safe=False)

    def literal(self):
        pool = [None, True, False, 0, 1, 2, -1, "a", "b", "", "1"]
        n = self.rng.randint(1, 6)
        vals = []
        for v in self.rng.sample(pool, n):
            if not any(type(v) is type(w) and v == w for w in vals):
                vals.append(v)
        hint = Literal[tuple(vals)]
        return self.from_hint_literal(hint)

    def from_hint_literal(self, hint):
        from adaptix._internal.type_tools import normalize_type
        norm = normalize_type(hint)
        vals = list(norm.args) if norm.origin is Literal else None
        if vals is None:  # Literal[None] normalises to None
            return self.scalar("none")
        overlap = any(v == w and type(v) is not type(w) for i, v in enumerate(vals) for w in vals[i + 1:])
        return Spec(hint=hint, ty=["literal", [enc(v) for v in vals]], gen=lambda r, vals=vals: r.choice(vals),
                    kind="literal", overlapping=overlap)

    def iterable(self, depth):
        mk, factory, dump_list, pyf, hashable_result = self.rng.choice(ITER_KINDS)
        need_hashable = factory in ("set", "frozenset")
        el = self.gen(depth - 1, hashable=need_hashable)

        def g(r, el=el, pyf=pyf, need_hashable=need_hashable):
            xs = [el.gen(r) for _ in range(r.choice([0, 1, 2, 3]))]
            if need_hashable:
                # NaN (float, Decimal, complex; also inside tuples) is not equal to itself: whether two of them are "the same
                # element" of a set depends on object identity, which no dump / load / JSON trip preserves
                xs = [x for x in xs if not has_nan(x)]
            return pyf(xs)
        return Spec(hint=mk(el.hint), ty=["iter", factory, dump_list, el.ty], gen=g, kind="iter:" + factory, children=[el],
                    hashable=hashable_result and el.hashable, json_safe=el.json_safe, overlapping=el.overlapping)

    def iter_matrix(self):
        """every iterable spelling x every kind of as-is element (int, str, bool, Any, Literal, Optional[int]) and one dumped
        element (decimal): the shortcuts the providers take for as-is elements live exactly here"""
        out = []
        elems = [self.scalar("int"), self.scalar("str"), self.scalar("bool"), self.any(), self.from_hint_literal(Literal["a", 1]),
                 self.union_from(Optional[int], [self.scalar("int"), self.scalar("none")]), self.scalar("decimal")]
        for mk, factory, dump_list, pyf, hashable_result in ITER_KINDS:
            for el in elems:
                if factory in ("set", "frozenset") and not el.hashable:
                    continue

                def g(r, el=el, pyf=pyf, need_hashable=factory in ("set", "frozenset")):
                    xs = [el.gen(r) for _ in range(r.choice([0, 1, 2, 3]))]
                    if need_hashable:
                        xs = [x for x in xs if not has_nan(x) and _is_hashable(x)]
                    return pyf(xs)
                out.append(Spec(hint=mk(el.hint), ty=["iter", factory, dump_list, el.ty], gen=g, kind="iter:" + factory, children=[el],
                                hashable=hashable_result and el.hashable, json_safe=el.json_safe, overlapping=el.overlapping))
        return out

    def fixed_tuple(self, depth, hashable=False):
        els = [self.gen(depth - 1, hashable=hashable) for _ in range(self.rng.randint(1, 3))]
        return Spec(hint=tuple[tuple(e.hint for e in els)], ty=["tuple", [e.ty for e in els]],
                    gen=lambda r, els=els: tuple(e.gen(r) for e in els), kind="tuple", children=els,
                    hashable=all(e.hashable for e in els), json_safe=all(e.json_safe for e in els),
                    overlapping=any(e.overlapping for e in els))

    def asis_tuple_matrix(self):
        """fixed-length tuples with as-is elements (Any / object, bool, str) before, between and after checked elements - alone
        and as element of a list, value of a dict, field of a model: the positional bookkeeping of the tuple loaders and
        dumpers (trail indices, length checks, shortcuts for as-is elements) lives exactly here"""
        int_s, str_s, date_s, dec_s = self.scalar("int"), self.scalar("str"), self.scalar("date"), self.scalar("decimal")

        def any_of(hint):
            a = self.any()
            return Spec(hint=hint, ty=a.ty, gen=a.gen, kind="any", hashable=False, json_safe=False)
        A, Ob = any_of(Any), any_of(object)
        self.n_models += 1
        m = self.model_of(f"M{self.n_models}", [("a0", int_s, True), ("b1", str_s, False)])
        out = []
        for els in ([A, int_s, str_s], [int_s, Ob, int_s], [A, A, date_s], [Ob, int_s], [int_s, str_s, A], [A, m], [A, dec_s, Ob, int_s],
                    [str_s, A, Ob, date_s, int_s], [A], [int_s, self.wrap("list", A), int_s]):
            tp = Spec(hint=tuple[tuple(e.hint for e in els)], ty=["tuple", [e.ty for e in els]],
                      gen=lambda r, els=els: tuple(e.gen(r) for e in els), kind="tuple", children=list(els), hashable=False,
                      json_safe=False)
            out.append(tp)
            out.append(self.wrap(self.rng.choice(["list", "dict", "model"]), tp))
        return out

    def mapping(self, depth):
        k = self.rng.choice([self.scalar("str"), self.scalar("str"), self.scalar("int"), self.scalar("bool"),
                             self.scalar("decimal"), self.scalar("date"), self.scalar("uuid"), self.literal(),
                             self.fixed_tuple(1, hashable=True)])
        while not k.hashable or k.kind == "any":
            k = self.scalar("str")
        v = self.gen(depth - 1)
        mk = self.rng.choice([lambda a, b: dict[a, b], lambda a, b: typing.Dict[a, b],
                              lambda a, b: collections.abc.Mapping[a, b], lambda a, b: collections.abc.MutableMapping[a, b]])

        def g(r, k=k, v=v):
            out = {}
            for _ in range(r.choice([0, 1, 2, 3])):
                key = k.gen(r)
                if has_nan(key):   # NaN keys are never equal to themselves: not a usable mapping key
                    continue
                out[key] = v.gen(r)
            return out
        return Spec(hint=mk(k.hint, v.hint), ty=["dict", k.ty, v.ty], gen=g, kind="dict", children=[k, v], hashable=False,
                    json_safe=k.json_safe and v.json_safe and (k.ty[0] == "scalar" and k.ty[1] in STR_DUMP_SCALARS),
                    overlapping=k.overlapping or v.overlapping)

    def union(self, depth, hashable=False):
        n = self.rng.choice([2, 2, 3])
        if self.rng.random() < 0.5:
            inner = self.gen(depth - 1, hashable=hashable, no_union=True)
            cases = [inner, self.scalar("none")]
            self.rng.shuffle(cases)
        else:
            cases = []
            for _ in range(n):
                cases.append(self.gen(depth - 1, hashable=hashable, no_union=True))
        hint = Union[tuple(c.hint for c in cases)]
        return self.union_from(hint, cases)

    def union_from(self, hint, cases):
        """order and merging of cases follow the real normaliser"""
        from adaptix._internal.type_tools import normalize_type
        norm = normalize_type(hint)
        if norm.origin is not Union:
            # collapsed to a single case (duplicates)
            for c in cases:
                if normalize_type(c.hint) == norm:
                    return c
            return cases[0]
        ordered = []
        for arg in norm.args:
            if arg.origin is Literal:
                ordered.append(self.from_hint_literal(Literal[tuple(arg.args)]))
                continue
            if arg.origin is None and not any(c.kind == "scalar:none" for c in cases):
                ordered.append(self.scalar("none"))      # the None of a `Literal[..., None]` hint becomes a case of its own
                continue
            for c in cases:
                if normalize_type(c.hint) == arg:
                    ordered.append(c)
                    break
            else:
                raise RuntimeError(f"cannot align union case {arg} of {hint}")

        def g(r, ordered=ordered):
            return r.choice(ordered).gen(r)
        key_classes = [type(None) if arg.origin is None else object if arg.origin is Any else arg.origin for arg in norm.args]
        keys = [class_key(k) for k in key_classes]
        sp = Spec(hint=hint, ty=["union", [c.ty for c in ordered], keys], gen=g, kind="union", children=ordered,
                  hashable=all(c.hashable for c in ordered), json_safe=all(c.json_safe for c in ordered),
                  overlapping=True)
        sp.dump_ambiguous = self.dump_ambiguous(ordered, key_classes)
        sp.key_classes = key_classes
        return sp

    def dump_ambiguous(self, ordered, key_classes) -> bool:
        """documented limitation of the union dumper: it dispatches on the runtime class only, so two cases whose
        values have the same class (List[int] / List[str], two tuples, tuple vs Sequence) cannot be told apart"""
        import random
        r = random.Random(0)
        table = {}
        for i, k in enumerate(key_classes):
            table[k] = i   # a later case replaces an earlier one with the same key
        for i, c in enumerate(ordered):
            if c.kind == "literal":
                continue
            for _ in range(3):
                try:
                    vc = type(c.gen(r))
                except Exception:  # noqa: BLE001
                    continue
                pick = None
                for parent in vc.__mro__:
                    if parent in table:
                        pick = table[parent]
                        break
                if pick is None:
                    for k, j in table.items():
                        if isinstance(k, type):
                            try:
                                if issubclass(vc, k):
                                    pick = j
                                    break
                            except TypeError:
                                pass
                if pick != i:
                    return True
        return False

    def model(self, depth):
        self.n_models += 1
        name = f"M{self.n_models}"
        n = self.rng.randint(1, 4)
        specs = []
        for i in range(n):
            fs = self.gen(depth - 1)
            fname = self.rng.choice(["a", "b", "c", "d", "x", "value", "items", "data", "key", "id"]) + str(i)
            required = self.rng.random() < 0.6
            specs.append((fname, fs, required))
        return self.model_of(name, specs)

    def model_of(self, name, specs, base=None, own=None):
        """dataclass model from (field name, spec, required) triples; with `base`, a subclass of that dataclass declaring
        only the `own` triples (specs = all fields, inherited first)"""
        fields_ = []
        # dataclass: fields without default first
        specs.sort(key=lambda t: not t[2])
        dflts = {}
        for fname, fs, required in (specs if own is None else own):
            if required:
                fields_.append((fname, fs.hint))
            else:
                dv = fs.gen(self.rng)
                dflts[fname] = dv
                try:
                    hash(dv)
                    fields_.append((fname, fs.hint, dataclasses.field(default=dv)))
                except TypeError:
                    fields_.append((fname, fs.hint, dataclasses.field(default_factory=lambda dv=dv: _copy(dv))))
        cls = make_dataclass(name, fields_, bases=(base,) if base is not None else ())
        cls.__module__ = __name__
        spec = Spec(hint=cls, ty=["model", name],
                    gen=lambda r, cls=cls, specs=specs: cls(**{fn: fs.gen(r) for fn, fs, _ in specs}),
                    kind="model", children=[fs for _, fs, _ in specs], hashable=False,
                    json_safe=all(fs.json_safe for _, fs, _ in specs), overlapping=any(fs.overlapping for _, fs, _ in specs))
        spec.fields = [{"name": fn, "ty": fs.ty, "required": req, "default": (["n"] if req else enc(dflts[fn]))}
                       for fn, fs, req in specs]
        spec.field_specs = specs
        spec.cls = cls
        self.model_specs[name] = spec
        return spec

    def generic_model(self):
        """A generic dataclass requested bare or parametrized.  The class is annotated with TypeVars only; the field specs (the
        logical types sent to the model and used by every oracle) are what the documentation says the type variables stand
        for, computed here and never read back from adaptix: the explicit argument, or - for the bare class - Any (no bound),
        the bound (a bare generic bound with ITS implicit parameters: list -> list[Any]) or the union of the constraints."""
        from typing import Dict, Generic, List, TypeVar
        rng = self.rng
        self.n_models += 1
        name = f"GM{self.n_models}"
        int_s, str_s, none_s = self.scalar("int"), self.scalar("str"), self.scalar("none")
        bare = rng.random() < 0.6
        tvs, args, fields_, specs = [], [], [], []

        def any_dict():
            a = self.any()
            return Spec(hint=dict[Any, Any], ty=["dict", a.ty, a.ty], gen=lambda r: {k: a.gen(r) for k in r.sample(["k", "q", "z"], r.choice([0, 1, 2]))},
                        kind="dict", children=[a, a], hashable=False, json_safe=False)
        for i in range(rng.choice([1, 2, 2, 3])):
            decl = rng.choice(["free", "bound-int", "bound-list", "bound-list", "bound-dict", "bound-list-int", "constraints"])
            tv_name = f"T{self.n_models}_{i}"
            if decl == "free":
                tv, implicit = TypeVar(tv_name), self.any()
                explicit = rng.choice([int_s, str_s, self.wrap("list", int_s)])
            elif decl == "bound-int":
                tv, implicit, explicit = TypeVar(tv_name, bound=int), int_s, int_s
            elif decl == "bound-list":
                tv, implicit = TypeVar(tv_name, bound=rng.choice([list, List])), self.wrap("list", self.any())
                explicit = self.wrap("list", rng.choice([int_s, str_s]))
            elif decl == "bound-dict":
                tv, implicit = TypeVar(tv_name, bound=rng.choice([dict, Dict])), any_dict()
                explicit = self.wrap("dict", int_s)
            elif decl == "bound-list-int":
                tv, implicit = TypeVar(tv_name, bound=rng.choice([list[int], List[int]])), self.wrap("list", int_s)
                explicit = implicit
            else:
                tv, implicit = TypeVar(tv_name, int, str), self.union_from(Union[int, str], [int_s, str_s])
                explicit = rng.choice([int_s, str_s])
            arg = implicit if bare else explicit
            shape = rng.choice(["T", "T", "T", "list", "dict", "opt"])
            if shape == "opt" and arg.kind in ("any", "union"):
                shape = "T"
            if shape == "T":
                hint, fs = tv, arg
            elif shape == "list":
                hint, fs = list[tv], self.wrap("list", arg)
            elif shape == "dict":
                hint, fs = dict[str, tv], self.wrap("dict", arg)
            else:
                hint, fs = Optional[tv], self.union_from(Optional[arg.hint], [arg, none_s])
            tvs.append(tv)
            args.append(arg)
            fields_.append((f"g{i}", hint))
            specs.append((f"g{i}", fs, True))
            self.generic_decls = getattr(self, "generic_decls", collections.Counter())
            self.generic_decls[("bare:" if bare else "parametrized:") + decl] += 1
        cls = make_dataclass(name, fields_, bases=(Generic[tuple(tvs)],))
        cls.__module__ = __name__
        spec = Spec(hint=cls if bare else cls[tuple(a.hint for a in args)], ty=["model", name],
                    gen=lambda r, cls=cls, specs=specs: cls(**{fn: fs.gen(r) for fn, fs, _ in specs}),
                    kind="model", children=[fs for _, fs, _ in specs], hashable=False,
                    json_safe=all(fs.json_safe for _, fs, _ in specs), overlapping=any(fs.overlapping for _, fs, _ in specs))
        spec.fields = [{"name": fn, "ty": fs.ty, "required": True, "default": ["n"]} for fn, fs, _ in specs]
        spec.field_specs = specs
        spec.cls = cls
        spec.generic = "bare" if bare else "parametrized"
        self.model_specs[name] = spec
        return spec

    def wrap(self, kind, child):
        """a container of the given kind around `child` (explicit, for targeted families)"""
        int_s, str_s = self.scalar("int"), self.scalar("str")
        if kind == "list":
            return Spec(hint=list[child.hint], ty=["iter", "list", True, child.ty],
                        gen=lambda r: [child.gen(r) for _ in range(r.choice([1, 2, 3]))], kind="iter:list", children=[child],
                        hashable=False, json_safe=child.json_safe)
        if kind == "tuple":
            return Spec(hint=tuple[child.hint, int], ty=["tuple", [child.ty, int_s.ty]],
                        gen=lambda r: (child.gen(r), int_s.gen(r)), kind="tuple", children=[child, int_s], hashable=False,
                        json_safe=child.json_safe)
        if kind == "dict":
            return Spec(hint=dict[str, child.hint], ty=["dict", str_s.ty, child.ty],
                        gen=lambda r: {str_s.gen(r): child.gen(r) for _ in range(r.choice([1, 2]))}, kind="dict",
                        children=[str_s, child], hashable=False, json_safe=child.json_safe)
        if kind == "model":
            self.n_models += 1
            return self.model_of(f"M{self.n_models}", [("a0", child, True), ("b1", int_s, False)])
        return child

    def related_union(self):
        """Union of two classes of ONE inheritance chain K0 <- K1 <- ... (dataclasses, every class adds a field); values are
        instances of the cases AND of their strict subclasses, which the union dumper must dispatch to the NEAREST ancestor
        among the cases (ClassDispatcher walks the MRO)"""
        rng = self.rng
        depth = rng.choice([3, 3, 4])
        letters = rng.sample("ABCDEFGHJKLMNPQRSTUVWXYZ", depth)
        chain, specs = [], []
        for lvl in range(depth):
            self.n_models += 1
            fs = rng.choice([self.scalar("int"), self.scalar("str"), self.scalar("bool"), self.scalar("date")])
            own = [(f"f{lvl}", fs, True)]
            specs = specs + own
            name = f"{letters[lvl]}{self.n_models}"
            sp = self.model_of(name, list(specs), base=chain[-1].cls if chain else None, own=own)
            chain.append(sp)
        i, j = sorted(rng.sample(range(depth), 2))
        others = [self.scalar("none")] if rng.random() < 0.3 else ([self.scalar("str")] if rng.random() < 0.3 else [])
        cases = [chain[i], chain[j], *others]
        rng.shuffle(cases)
        sp = self.union_from(Union[tuple(c.hint for c in cases)], cases)
        below = chain[i:]

        def g(r, below=below):
            return r.choice(below).gen(r)
        sp.gen = g
        sp.aux = chain          # classes of values that are not cases themselves
        sp.related = True
        return sp

    def literal_union(self):
        """Union with SEVERAL Literal hints (some listing None, which normalises to a nested Union[None, Literal[...]]) next to
        a case whose dumper is not as-is, so the union dumper cannot take the all-as-is shortcut: every member of every Literal
        hint is loaded and dumped by the Literal rule"""
        rng = self.rng
        pool = ["a", "b", "c", "", 0, 1, 2, -1, True, False]
        n_lits = rng.choice([2, 2, 3])
        lits, used = [], []
        for _ in range(n_lits):
            vals = [v for v in rng.sample(pool, rng.randint(1, 3)) if not any(type(v) is type(w) and v == w for w in used)]
            if not vals:
                continue
            used += vals
            if rng.random() < 0.5:
                vals = vals + [None]
            rng.shuffle(vals)
            lits.append(Literal[tuple(vals)])
        others = [self.scalar(rng.choice(["decimal", "bytes", "date", "uuid", "fraction"]))]
        if rng.random() < 0.3:
            others.append(self.scalar("float"))
        hints = lits + [o.hint for o in others]
        rng.shuffle(hints)
        cases = [self.from_hint_literal(h) if h in lits else next(o for o in others if o.hint is h) for h in hints]
        sp = self.union_from(Union[tuple(hints)], cases)
        members = list(used) + ([None] if any(type(None) in map(type, typing.get_args(h)) for h in lits) else [])

        def g(r, members=members, others=others):
            return r.choice(members) if r.random() < 0.75 else r.choice(others).gen(r)
        sp.gen = g
        sp.literal_members = members
        return sp

    def unexpected_union(self):
        """Union[W[U1|U2], W[U3]]: the first case can raise an unexpected (non-LoadError) exception on data the second
        case accepts; every debug_trail mode must then fail"""
        name = self.rng.choice(["user:U1", "user:U2"])
        cls, _, g = USER_LEAVES[name]
        flag = {"poison": False}
        bad = {"user:U1": [U1(-5), U1(-1)], "user:U2": [U2("!boom"), U2("!")]}[name]

        def leaf_gen(r):
            return r.choice(bad) if flag["poison"] else g(r)
        a = Spec(hint=cls, ty=["scalar", name], gen=leaf_gen, kind="scalar:" + name, hashable=False, json_safe=False)
        b = Spec(hint=U3, ty=["scalar", "user:U3"], gen=USER_LEAVES["user:U3"][2], kind="scalar:user:U3", hashable=False,
                 json_safe=False)
        kind = self.rng.choice(["id", "list", "tuple", "dict", "model", "model"])
        ca, cb = self.wrap(kind, a), self.wrap(kind, b)
        sp = self.union_from(Union[ca.hint, cb.hint], [ca, cb])

        def poison_gen(r):
            flag["poison"] = True
            try:
                return ca.gen(r)
            finally:
                flag["poison"] = False
        sp.poison_gen = poison_gen
        return sp

    def gen(self, depth, hashable=False, no_union=False):
        while True:
            sp = self._gen(depth, hashable, no_union)
            if no_union and sp.kind == "any":
                continue   # Union[Any, ...] is Any: not a meaningful union case
            return sp

    def _gen(self, depth, hashable=False, no_union=False):
        r = self.rng.random()
        if self.user_leaves and not hashable and self.rng.random() < 0.12:
            return self.user_leaf()
        if depth <= 0 or r < 0.28:
            s = self.scalar()
            while hashable and not s.hashable:
                s = self.scalar()
            return s
        if r < 0.34:
            return self.literal()
        if r < 0.38 and not hashable:
            return self.any()
        if r < 0.58:
            if hashable:
                return self.fixed_tuple(depth, hashable=True)
            return self.iterable(depth)
        if r < 0.68:
            return self.fixed_tuple(depth, hashable=hashable)
        if r < 0.78 and not hashable:
            return self.mapping(depth)
        if r < 0.90 and not no_union:
            return self.union(depth, hashable=hashable)
        if not hashable:
            return self.model(depth)
        return self.scalar("int")


def _copy(v):
    import copy
    return copy.deepcopy(v)


# a hand-written recursive family
@dataclass
class Tree:
    value: int
    children: list["Tree"] = field(default_factory=list)
    parent_name: Optional[str] = None


@dataclass
class BinTree:
    value: int
    left: Optional["BinTree"] = None
    right: Optional["BinTree"] = None


def bintree_spec():
    """a model with TWO fields leading back to it through identical locations (Optional[BinTree]); meant to be requested through
    an enclosing type (list / Optional / dict / model field), where the recursion stubs of both fields are pending at once"""
    int_s = Spec(hint=int, ty=["scalar", "int"], gen=_int, kind="scalar:int")
    none_s = Spec(hint=None, ty=["scalar", "none"], gen=lambda r: None, kind="scalar:none")

    def g(r, depth=3):
        def sub():
            return g(r, depth - 1) if depth > 0 and r.random() < 0.6 else None
        return BinTree(value=_int(r), left=sub(), right=sub())
    spec = Spec(hint=BinTree, ty=["model", "BinTree"], gen=g, kind="model", hashable=False)
    opt = Spec(hint=Optional[BinTree], ty=["union", [["model", "BinTree"], none_s.ty], ["BinTree", "NoneType"]],
               gen=lambda r: None, kind="union", children=[none_s])
    spec.children = [int_s, opt, opt]
    spec.fields = [
        {"name": "value", "ty": int_s.ty, "required": True, "default": ["n"]},
        {"name": "left", "ty": opt.ty, "required": False, "default": ["n"]},
        {"name": "right", "ty": opt.ty, "required": False, "default": ["n"]},
    ]
    spec.field_specs = [("value", int_s, True), ("left", opt, False), ("right", opt, False)]
    spec.cls = BinTree
    return spec


def tree_spec():
    int_s = Spec(hint=int, ty=["scalar", "int"], gen=_int, kind="scalar:int")
    str_s = Spec(hint=str, ty=["scalar", "str"], gen=_txt, kind="scalar:str")
    none_s = Spec(hint=None, ty=["scalar", "none"], gen=lambda r: None, kind="scalar:none")

    def g(r, depth=2):
        return Tree(value=_int(r), children=[g(r, depth - 1) for _ in range(r.choice([0, 1, 2]) if depth > 0 else 0)],
                    parent_name=r.choice([None, "p"]))
    spec = Spec(hint=Tree, ty=["model", "Tree"], gen=g, kind="model", hashable=False)
    opt = Spec(hint=Optional[str], ty=["union", [str_s.ty, none_s.ty], ["str", "NoneType"]], gen=lambda r: r.choice([None, "p"]), kind="union",
               children=[str_s, none_s])
    lst = Spec(hint=list[Tree], ty=["iter", "list", True, ["model", "Tree"]], gen=lambda r: [], kind="iter:list", children=[],
               hashable=False)
    spec.children = [int_s, lst, opt]
    spec.fields = [
        {"name": "value", "ty": int_s.ty, "required": True, "default": ["n"]},
        {"name": "children", "ty": lst.ty, "required": False, "default": ["l", []]},
        {"name": "parent_name", "ty": opt.ty, "required": False, "default": ["n"]},
    ]
    spec.field_specs = [("value", int_s, True), ("children", lst, False), ("parent_name", opt, False)]
    spec.cls = Tree
    return spec


# ---------------------------------------------------------------------------------------
# user leaves: types served by loader(U, fn) / dumper(U, fn) of the harness's own recipe. Their functions may raise
# LoadError subclasses (a rejection) or anything else (an unexpected error that must escape in every mode).
# In the model they are scalars `user:<name>` whose outcome rows are computed by calling the same function.
# ---------------------------------------------------------------------------------------

@dataclass(frozen=True)
class U1:
    v: Any


@dataclass(frozen=True)
class U2:
    v: Any


@dataclass(frozen=True)
class U3:
    v: Any


def _u1_load(data):
    """ints 0..100; a negative int is an unexpected ValueError, a big one a ValueLoadError"""
    from adaptix.load_error import TypeLoadError, ValueLoadError
    if type(data) is not int:
        raise TypeLoadError(int, data)
    if data < 0:
        raise ValueError("negative")
    if data > 100:
        raise ValueLoadError("too big", data)
    return U1(data)


def _u2_load(data):
    """strs; one starting with '!' is an unexpected KeyError; a list is an unexpected IndexError/TypeError"""
    from adaptix.load_error import TypeLoadError
    if type(data) is list:
        return U2(data[0][0])
    if type(data) is not str:
        raise TypeLoadError(str, data)
    if data.startswith("!"):
        raise KeyError(data)
    return U2(data)


def _u3_load(data):
    """anything but a dict (unexpected TypeError) and None (a rejection)"""
    from adaptix.load_error import TypeLoadError
    if data is None:
        raise TypeLoadError(object, data)
    if type(data) is dict:
        raise TypeError("dict")
    return U3(data)


USER_LEAVES = {
    "user:U1": (U1, _u1_load, lambda r: U1(r.choice([0, 1, 5, 100]))),
    "user:U2": (U2, _u2_load, lambda r: U2(r.choice(["", "a", "xyz"]))),
    "user:U3": (U3, _u3_load, lambda r: U3(r.choice([0, -5, "a", "!b", 500, (1, 2)]))),
}


def _user_dump(x):
    return x.v


def scalar_hint(name):
    if name in USER_LEAVES:
        return USER_LEAVES[name][0]
    return X.scalar_pool()[name]


def user_leaf_out(name, v):
    from adaptix.load_error import LoadError
    try:
        return ["ok", enc(USER_LEAVES[name][1](v))]
    except Unencodable:
        return ["ok", ["x", "unencodable"]]
    except LoadError as e:
        return ["err", type(e).__name__]
    except Exception as e:  # noqa: BLE001
        return ["escape", X.exc_name(type(e))]


# ---------------------------------------------------------------------------------------
# real side
# ---------------------------------------------------------------------------------------

class Real:
    def __init__(self):
        from adaptix import DebugTrail, Retort, dumper, loader
        recipe = []
        for cls, fn, _ in USER_LEAVES.values():
            recipe += [loader(cls, fn), dumper(cls, _user_dump)]
        self.retorts = {(m, s): Retort(debug_trail=getattr(DebugTrail, m), strict_coercion=s, recipe=recipe)
                        for m in MODES for s in (True, False)}
        self.table = X.closure_table()

    def loader(self, mode, strict, hint):
        return self.retorts[(mode, strict)].get_loader(hint)

    def dumper(self, mode, strict, hint):
        return self.retorts[(mode, strict)].get_dumper(hint)

    def load(self, mode, strict, hint, datum):
        from adaptix import ProviderNotFoundError
        try:
            ld = self.loader(mode, strict, hint)
        except ProviderNotFoundError:
            return {"r": "no-loader"}
        except Exception as e:  # noqa: BLE001  (the library crashed while BUILDING the loader: an outcome, not a harness fault)
            return {"r": "escape", "exc": X.exc_name(type(e)), "at": "loader-creation"}
        return run_real(ld, materialise(datum))

    def dump(self, mode, strict, hint, value):
        from adaptix import ProviderNotFoundError
        try:
            dm = self.dumper(mode, strict, hint)
        except ProviderNotFoundError:
            return {"r": "no-dumper"}
        except Exception as e:  # noqa: BLE001
            return {"r": "escape", "exc": X.exc_name(type(e)), "at": "dumper-creation"}
        return run_real(dm, value)


# ---------------------------------------------------------------------------------------
# model request assembly
# ---------------------------------------------------------------------------------------

def sub_values(v, lax_chars=False, acc=None, depth=0):
    """every sub-value a leaf loader can be handed (incl. dict keys; chars of short strs / ints of bytes in lax mode)"""
    if acc is None:
        acc = []
    acc.append(v)
    if depth > 8:
        return acc
    t = type(v)
    if t in (list, tuple, set, frozenset, collections.deque):
        for x in v:
            sub_values(x, lax_chars, acc, depth + 1)
    elif t is dict:
        for k, x in v.items():
            sub_values(k, lax_chars, acc, depth + 1)
            sub_values(x, lax_chars, acc, depth + 1)
    elif isinstance(v, IterDatum):
        for x in v.items:
            sub_values(x, lax_chars, acc, depth + 1)
    elif dataclasses.is_dataclass(v) and not isinstance(v, type):
        for f in dataclasses.fields(v):
            sub_values(getattr(v, f.name), lax_chars, acc, depth + 1)
    elif lax_chars and t is str and len(v) > 1:
        for ch in sorted(set(v))[:64]:
            if ch != v:
                acc.append(ch)
    elif t in (bytes, bytearray):
        for b in sorted(set(v))[:64]:
            acc.append(b)
    return acc


def is_leafish(v):
    return not isinstance(v, IterDatum)


def site_rows(real: Real, spec: Spec, datum, strict, cache):
    rows = []
    names = spec_scalars_deep(spec)
    seen = set()
    for v0 in sub_values(datum, lax_chars=not strict):
        v = v0
        try:
            ev = enc(v)
        except Unencodable:
            continue
        key0 = repr(ev)
        for s in names:
            key = (s, strict, key0)
            if key in seen:
                continue
            seen.add(key)
            if key in cache:
                rows.append(cache[key])
                continue
            if s in USER_LEAVES:
                continue
            tc = real.table[(s, strict)]
            log, _final = X.site_outcomes(tc, materialise(v))
            outs = {}
            for site, (kind, payload) in log.items():
                if kind == "raises":
                    outs[site] = ["raises", payload]
                else:
                    try:
                        outs[site] = [kind, enc(payload)]
                    except Unencodable:
                        outs[site] = [kind, ["x", "unencodable"]]
            row = {"scalar": s, "strict": strict, "datum": ev, "outs": outs}
            if len(cache) < 200000:
                cache[key] = row
            rows.append(row)
    return rows


def leaf_rows(spec: Spec, datum):
    names = [s for s in spec_scalars_deep(spec) if s in USER_LEAVES]
    rows, seen = [], set()
    if not names:
        return rows
    for v in sub_values(datum, lax_chars=True):
        try:
            ev = enc(v)
        except Unencodable:
            continue
        for s in names:
            key = (s, repr(ev))
            if key in seen:
                continue
            seen.add(key)
            rows.append({"scalar": s, "datum": ev, "out": user_leaf_out(s, materialise(v))})
    return rows


def spec_scalars_deep(spec: Spec, seen=None):
    seen = seen if seen is not None else set()
    out = set()
    if id(spec) in seen:
        return out
    seen.add(id(spec))
    if spec.ty[0] == "scalar":
        out.add(spec.ty[1])
    for c in spec.children:
        out |= spec_scalars_deep(c, seen)
    return out


def spec_classes_deep(spec: Spec, seen=None, out=None):
    seen = seen if seen is not None else set()
    out = out if out is not None else {}
    if id(spec) in seen:
        return out
    seen.add(id(spec))
    if spec.kind == "model":
        out[spec.ty[1]] = spec
    for c in [*spec.children, *getattr(spec, "aux", [])]:
        spec_classes_deep(c, seen, out)
    return out


def dump_rows(real: Real, spec: Spec, value, cache):
    rows = []
    names = [s for s in spec_scalars_deep(spec)]
    r0 = real.retorts[("DISABLE", True)]
    seen = set()
    for v in sub_values(value, lax_chars=True):
        try:
            ev = enc(v)
        except Unencodable:
            continue
        for s in names:
            key = (s, repr(ev))
            if key in seen:
                continue
            seen.add(key)
            if key not in cache:
                dm = r0.get_dumper(scalar_hint(s))
                try:
                    out = ["ok", enc(dm(v))]
                except Unencodable:
                    out = ["ok", ["x", "unencodable"]]
                except Exception as e:  # noqa: BLE001
                    out = ["raises", X.exc_name(type(e))]
                cache[key] = {"scalar": s, "value": ev, "out": out}
            rows.append(cache[key])
    return rows


def classes_json(spec: Spec):
    return {name: s.fields for name, s in spec_classes_deep(spec).items()}


VALUE_CLASSES = [type(None), bool, int, float, str, bytes, bytearray, list, tuple, set, frozenset, collections.deque, dict,
                 *ATOM_TEXT]


def union_keys_deep(ty, acc=None):
    acc = acc if acc is not None else set()
    if ty[0] == "union":
        acc.update(ty[2])
        for t in ty[1]:
            union_keys_deep(t, acc)
    elif ty[0] == "iter":
        union_keys_deep(ty[3], acc)
    elif ty[0] == "tuple":
        for t in ty[1]:
            union_keys_deep(t, acc)
    elif ty[0] == "dict":
        union_keys_deep(ty[1], acc)
        union_keys_deep(ty[2], acc)
    return acc


_KEY_CLASSES = {}


def key_class(name):
    if "int" not in _KEY_CLASSES:
        for c in [*VALUE_CLASSES, object, collections.abc.Iterable, collections.abc.Sequence, collections.abc.Collection,
                  collections.abc.MutableSequence, collections.abc.Set, collections.abc.MutableSet, collections.abc.Mapping,
                  collections.abc.MutableMapping, collections.abc.Reversible, pathlib.PurePath, pathlib.Path,
                  pathlib.PosixPath, pathlib.PurePosixPath, pathlib.PureWindowsPath]:
            _KEY_CLASSES[class_key(c)] = c
    return _KEY_CLASSES.get(name)


def mros_json(spec: Spec):
    out = {}
    for name, s in spec_classes_deep(spec).items():
        out[name] = [class_key(c) for c in s.cls.__mro__]
    for cls in ATOM_TEXT:
        out[X.type_name(cls)] = [X.type_name(c) for c in cls.__mro__]
    for cls, _, _ in USER_LEAVES.values():
        out[cls.__name__] = [class_key(c) for c in cls.__mro__]
    return out


def supers_json(spec: Spec):
    """value class -> union dispatcher keys it is a (virtual) subclass of"""
    keys = set()
    seen = set()

    def walk(sp):
        if id(sp) in seen:
            return
        seen.add(id(sp))
        union_keys_deep(sp.ty, keys)
        for c in sp.children:
            walk(c)
    walk(spec)
    key_class("int")  # initialise the key table
    classes = {class_key(c): c for c in VALUE_CLASSES}
    for name, s in spec_classes_deep(spec).items():
        classes[name] = s.cls
        _KEY_CLASSES[name] = s.cls
    for cls, _, _ in USER_LEAVES.values():
        classes[cls.__name__] = cls
        _KEY_CLASSES[cls.__name__] = cls
    out = {}
    for cname, c in classes.items():
        sup = []
        for k in keys:
            kc = _KEY_CLASSES.get(k)
            if isinstance(kc, type):
                try:
                    if issubclass(c, kc):
                        sup.append(k)
                except TypeError:
                    pass
        out[cname] = sup
    return out


def load_request(real, spec, datum, mode, strict, cache, fuel=40):
    return {"op": "load", "trail": mode, "strict": strict, "ty": spec.ty, "datum": enc(datum), "fuel": fuel,
            "classes": classes_json(spec), "sites": site_rows(real, spec, datum, strict, cache),
            "leaves": leaf_rows(spec, datum)}


def dump_request(real, spec, value, mode, cache, fuel=40):
    return {"op": "dump", "trail": mode, "strict": True, "ty": spec.ty, "value": enc(value), "fuel": fuel,
            "classes": classes_json(spec), "dumps": dump_rows(real, spec, value, cache), "mros": mros_json(spec),
            "supers": supers_json(spec)}


# ---------------------------------------------------------------------------------------
# data generators
# ---------------------------------------------------------------------------------------

def wrong_values(rng):
    return rng.choice([None, True, 0, 1, -1, 1.5, float("nan"), "", "a", "1", "abc", b"a", [], [1], ["a"], (), (1, 2),
                       {}, {"a": 1}, {1: 2}, set(), {1}, 10 ** 400, IterDatum([1, 2]), IterDatum([]), object, [[1]], {"a": {"b": 1}},
                       decimal.Decimal("1"), "2020-01-02", "1.5", [None], "é", 2 ** 63, -5, 500, "!boom"])


def corrupt(rng, spec: Spec, value):
    """plant one fault at a random position of the dumped/loadable form of `value`"""
    # work on the *datum* (output of the real dumper), so corruption hits every container kind
    def go(d, depth=0):
        t = type(d)
        if t in (list, tuple) and d and rng.random() < 0.7:
            i = rng.randrange(len(d))
            xs = list(d)
            xs[i] = go(xs[i], depth + 1)
            if rng.random() < 0.15:
                xs.append(wrong_values(rng))
            return t(xs) if t is tuple else xs
        if t is dict and d and rng.random() < 0.7:
            out = dict(d)
            k = rng.choice(list(out))
            r = rng.random()
            if r < 0.15:
                del out[k]
            elif r < 0.25:
                out["__extra__"] = wrong_values(rng)
            elif r < 0.35:
                v = out.pop(k)
                nk = wrong_values(rng)
                try:
                    hash(nk)
                    out[nk] = v
                except TypeError:
                    out[k] = v
            else:
                out[k] = go(out[k], depth + 1)
            return out
        return wrong_values(rng)
    return go(value)


NUMERIC_ATOMS = {"decimal.Decimal", "fractions.Fraction", "complex"}
ITERABLE_ATOMS = {"_io.BytesIO", "ipaddress.IPv4Network", "ipaddress.IPv6Network"}


def faithful(ev, ty_has_literal_or_hash: bool) -> bool:
    """is the encoded datum inside the value universe the Lean model is faithful for?
    (opaque objects, iterable stdlib instances, and numeric stdlib instances where `==` with ints matters are not)"""
    if not isinstance(ev, list) or not ev:
        return True
    k = ev[0]
    if k == "x":
        return False
    if k == "a":
        if ev[1] in ITERABLE_ATOMS:
            return False
        if ev[1] in NUMERIC_ATOMS and ty_has_literal_or_hash:
            return False
        return True
    if k in ("l", "t", "S", "F", "q", "it"):
        return all(faithful(x, ty_has_literal_or_hash) for x in ev[1])
    if k == "d":
        return all(faithful(a, True) and faithful(b, ty_has_literal_or_hash) for a, b in ev[1])
    if k == "o":
        return all(faithful(x, ty_has_literal_or_hash) for _, x in ev[2])
    return True


def has_iter(ev) -> bool:
    if not isinstance(ev, list) or not ev:
        return False
    if ev[0] == "it":
        return True
    if ev[0] in ("l", "t", "S", "F", "q"):
        return any(has_iter(x) for x in ev[1])
    if ev[0] == "d":
        return any(has_iter(a) or has_iter(b) for a, b in ev[1])
    if ev[0] == "o":
        return any(has_iter(x) for _, x in ev[2])
    return False


def spec_dump_ambiguous(spec, seen=None) -> bool:
    seen = seen if seen is not None else set()
    if id(spec) in seen:
        return False
    seen.add(id(spec))
    if getattr(spec, "dump_ambiguous", False):
        return True
    return any(spec_dump_ambiguous(c, seen) for c in spec.children)


def spec_has_union(spec, seen=None) -> bool:
    seen = seen if seen is not None else set()
    if id(spec) in seen:
        return False
    seen.add(id(spec))
    if spec.kind == "union":
        return True
    return any(spec_has_union(c, seen) for c in spec.children)


NUMERIC_SCALARS = {"int", "float", "bool", "decimal", "fraction", "complex"}


def scalars_in(ty, acc=None):
    acc = acc if acc is not None else set()
    k = ty[0]
    if k == "scalar":
        acc.add(ty[1])
    elif k == "literal":
        for v in ty[1]:
            if v[0] in ("i", "b", "f"):
                acc.add("int")
    elif k == "iter":
        scalars_in(ty[3], acc)
    elif k in ("union", "tuple"):
        for t in ty[1]:
            scalars_in(t, acc)
    elif k == "dict":
        scalars_in(ty[1], acc)
        scalars_in(ty[2], acc)
    return acc


def has_numeric_literal(ty) -> bool:
    k = ty[0]
    if k == "literal":
        return any(v[0] in ("i", "b", "f") for v in ty[1])
    if k == "iter":
        return has_numeric_literal(ty[3])
    if k in ("union", "tuple"):
        return any(has_numeric_literal(t) for t in ty[1])
    return False


def numeric_mix(ty) -> bool:
    """a set element / dict key type that can LOAD both a numeric stdlib instance (Decimal, Fraction, complex) and another
    number: Python merges Decimal(1) / complex(1) with 1, the model's `==` does not relate an atom to a number"""
    k = ty[0]
    if k == "iter":
        if ty[1] in ("set", "frozenset"):
            sc = scalars_in(ty[3]) & NUMERIC_SCALARS
            if sc & {"decimal", "fraction", "complex"}:
                return True     # also alone: Decimal('-0') == Decimal('0'), Decimal('1.0') == Decimal('1'): equal, other text
            if has_numeric_literal(ty[3]):
                return True    # a lax Literal[1, ...] accepts Decimal('1') / 1.0 / (1+0j) by ==, which a set then merges with 1
        return numeric_mix(ty[3])
    if k == "dict":
        sc = scalars_in(ty[1]) & NUMERIC_SCALARS
        if sc & {"decimal", "fraction", "complex"}:
            return True
        if has_numeric_literal(ty[1]):
            return True
        return numeric_mix(ty[1]) or numeric_mix(ty[2])
    if k in ("union", "tuple"):
        return any(numeric_mix(t) for t in ty[1])
    return False


def ty_is_eq_sensitive(ty) -> bool:
    """does the type compare data with `==` (Literal membership, set/dict-key insertion)?"""
    k = ty[0]
    if k == "literal":
        return True
    if k == "iter":
        return ty[1] in ("set", "frozenset") or ty_is_eq_sensitive(ty[3])
    if k == "dict":
        return True
    if k in ("union", "tuple"):
        return any(ty_is_eq_sensitive(t) for t in ty[1])
    if k == "model":
        return True   # conservative
    return False


# ---------------------------------------------------------------------------------------
# engine: cases, real outcomes, model outcomes, comparison
# ---------------------------------------------------------------------------------------

CONFIGS = [(m, s) for m in MODES for s in (True, False)]


@dataclass
class LoadRecord:
    spec: Spec
    datum: Any
    origin: str                # valid | corrupt | hostile
    real: dict                 # (mode, strict) -> canonical outcome
    model: dict                # (mode, strict) -> canonical outcome or None
    value: Any = None          # the typed value the datum was dumped from (valid/corrupt)


class Engine:
    def __init__(self, ctx, driver_name="drv_morph"):
        from harness.core import Driver, InfraError
        self.ctx = ctx
        self.real = Real()
        self.drv = None
        if ctx.driver_ok:
            try:
                self.drv = Driver(driver_name)
            except InfraError:
                self.drv = None
        self.site_cache: dict = {}
        self.dump_cache: dict = {}
        from extract import hostile
        self.hostile = hostile.corpus()

    # ---- generation ------------------------------------------------------------------
    def gen_specs(self, n, depth, user_leaves=False, related=False, stateful=False, literal_unions=False, iter_matrix=False,
                  generic_models=False, tuple_matrix=False):
        tg = TypeGen(self.ctx.rng, user_leaves=user_leaves, stateful=stateful)
        out = tg.iter_matrix() if iter_matrix else []
        if tuple_matrix:
            out += tg.asis_tuple_matrix()
        for i in range(n):
            if generic_models and i % 7 == 2:
                sp = tg.generic_model()
                out.append(tg.wrap(self.ctx.rng.choice(["id", "id", "id", "list", "model"]), sp))
                self.ctx.dist[f"generic-model:{sp.generic}"] += 1
            elif user_leaves and i % 9 == 4:
                out.append(tg.unexpected_union())
            elif literal_unions and i % 8 == 6:
                sp = tg.literal_union()
                out.append(tg.wrap(self.ctx.rng.choice(["id", "id", "id", "list", "model"]), sp))
            elif related and i % 8 == 3:
                sp = tg.related_union()
                out.append(tg.wrap(self.ctx.rng.choice(["id", "id", "list", "dict", "model"]), sp))
            elif i % 37 == 11:
                out.append(tg.wrap(self.ctx.rng.choice(["list", "list", "dict", "model", "tuple"]), bintree_spec()))
            else:
                out.append(tree_spec() if i % 37 == 5 else tg.gen(depth))
        return out

    def hostile_datum(self):
        mk = self.ctx.rng.choice(self.hostile)
        v = mk()
        if isinstance(v, io.BytesIO):
            return FreshDatum(mk)
        if isinstance(v, types.GeneratorType) or hasattr(v, "__next__"):
            return IterDatum(list(v))
        return v

    def data_for(self, spec: Spec, n_valid=2, n_corrupt=3, n_hostile=2):
        """-> list of (origin, datum, value)"""
        rng = self.ctx.rng
        out = []
        for _ in range(n_valid):
            try:
                x = spec.gen(rng)
            except Exception:  # noqa: BLE001
                continue
            d = self.real.dump("DISABLE", True, spec.hint, x)
            if d["r"] != "ok":
                continue
            # decode the dumped JSON-form back into a Python datum: simply dump again for the datum object
            datum = self.real.dumper("DISABLE", True, spec.hint)(x)
            out.append(("valid", datum, x))
            for _ in range(n_corrupt):
                out.append(("corrupt", corrupt(rng, spec, datum), x))
        if getattr(spec, "poison_gen", None):
            for _ in range(2):
                x = spec.poison_gen(rng)
                d = self.real.dump("DISABLE", True, spec.hint, x)
                if d["r"] == "ok":
                    out.append(("corrupt", self.real.dumper("DISABLE", True, spec.hint)(x), x))
        for _ in range(n_hostile):
            out.append(("hostile", self.hostile_datum(), None))
        return out

    # ---- loads ------------------------------------------------------------------------
    def load_records(self, specs, configs=CONFIGS, suite="load", **kw):
        ctx = self.ctx
        records, requests, index = [], [], []
        for spec in specs:
            # every loader must exist; a type the library cannot serve is skipped (counted)
            if self.real.load("DISABLE", True, spec.hint, None).get("r") == "no-loader":
                ctx.dist["skipped:no-loader"] += 1
                continue
            for origin, datum, value in self.data_for(spec, **kw):
                try:
                    enc(datum)
                except Unencodable:
                    ctx.dist["skipped:unencodable"] += 1
                    continue
                rec = LoadRecord(spec=spec, datum=datum, origin=origin, real={}, model={}, value=value)
                ev0 = enc(datum)
                # a one-shot iterator is consumed by the first union case that iterates it: a stateful effect the
                # (pure) model cannot exhibit
                in_model = faithful(ev0, ty_is_eq_sensitive(spec.ty)) and not (has_iter(ev0) and spec_has_union(spec)) \
                    and not numeric_mix(spec.ty)
                if not in_model:
                    ctx.dist["outside-model-universe"] += 1
                for (m, s) in configs:
                    rec.real[(m, s)] = canon_outcome(self.real.load(m, s, spec.hint, datum))
                    if self.drv and in_model:
                        requests.append(load_request(self.real, spec, datum, m, s, self.site_cache))
                        index.append((rec, (m, s)))
                records.append(rec)
        if self.drv and requests:
            replies = self.drv.batch(requests)
            n = d = 0
            for (rec, cfg), rep, req in zip(index, replies, requests):
                if "ok" not in rep:
                    ctx.dist["model-declined:" + rep.get("err", "?")[:40]] += 1
                    rec.model[cfg] = None
                    continue
                mo = canon_outcome(rep["ok"])
                rec.model[cfg] = mo
                n += 1
                if mo != rec.real[cfg]:
                    d += 1
                    ctx.disagree(suite, {"hint": repr(rec.spec.hint), "ty": rec.spec.ty, "datum": enc(rec.datum),
                                         "mode": cfg[0], "strict": cfg[1], "origin": rec.origin}, rec.real[cfg], mo)
            ctx.suite(suite, n, d)
        return records

    def compare_loads(self, cases, suite):
        """explicit (spec, datum, mode, strict) cases: real outcome and, when the driver is available, the model's outcome;
        disagreements are recorded under `suite`. -> list of (case, real, model-or-None)"""
        ctx = self.ctx
        out, requests, index = [], [], []
        for spec, datum, m, s in cases:
            real = canon_outcome(self.real.load(m, s, spec.hint, datum))
            row = [(spec, datum, m, s), real, None]
            out.append(row)
            try:
                ev = enc(datum)
            except Unencodable:
                continue
            if self.drv and faithful(ev, ty_is_eq_sensitive(spec.ty)) and not numeric_mix(spec.ty):
                requests.append(load_request(self.real, spec, datum, m, s, self.site_cache))
                index.append(row)
        if self.drv and requests:
            n = d = 0
            for row, rep, req in zip(index, self.drv.batch(requests), requests):
                if "ok" not in rep:
                    ctx.dist["model-declined:" + rep.get("err", "?")[:40]] += 1
                    continue
                row[2] = canon_outcome(rep["ok"])
                n += 1
                if row[2] != row[1]:
                    d += 1
                    spec, datum, m, s = row[0]
                    ctx.disagree(suite, {"hint": repr(spec.hint), "ty": spec.ty, "datum": enc(datum), "mode": m, "strict": s},
                                 row[1], row[2])
            ctx.suite(suite, n, d)
        return out

    # ---- dumps ------------------------------------------------------------------------
    def dump_records(self, specs, suite="dump", n_values=3):
        ctx = self.ctx
        out, requests, index = [], [], []
        for spec in specs:
            if self.real.dump("DISABLE", True, spec.hint, None).get("r") == "no-dumper":
                ctx.dist["skipped:no-dumper"] += 1
                continue
            vals = []
            for _ in range(n_values):
                try:
                    vals.append(("typed", spec.gen(ctx.rng)))
                except Exception:  # noqa: BLE001
                    pass
            if spec.kind.startswith("iter") and vals:
                # "every iterable is dumped as tuple (list for list children)": the same elements in OTHER containers
                x0 = vals[0][1]
                try:
                    elems = list(x0)
                    alts = [tuple(elems), list(elems), collections.deque(elems)]
                    vals.append(("typed-alt", ctx.rng.choice([a for a in alts if type(a) is not type(x0)])))
                except Exception:  # noqa: BLE001
                    pass
            vals.append(("ill-typed", wrong_values(ctx.rng)))
            for origin, x in vals:
                if isinstance(x, IterDatum):
                    continue
                try:
                    enc(x)
                except Unencodable:
                    continue
                rec = {"spec": spec, "value": x, "origin": origin, "real": {}, "model": {}}
                in_model = faithful(enc(x), ty_is_eq_sensitive(spec.ty))
                if not in_model:
                    ctx.dist["outside-model-universe"] += 1
                for m in MODES:
                    rec["real"][m] = canon_outcome(self.real.dump(m, True, spec.hint, x))
                    if self.drv and in_model:
                        requests.append(dump_request(self.real, spec, x, m, self.dump_cache))
                        index.append((rec, m))
                out.append(rec)
        if self.drv and requests:
            replies = self.drv.batch(requests)
            n = d = 0
            for (rec, m), rep in zip(index, replies):
                if "ok" not in rep:
                    ctx.dist["model-declined:" + rep.get("err", "?")[:40]] += 1
                    rec["model"][m] = None
                    continue
                mo = canon_outcome(rep["ok"])
                rec["model"][m] = mo
                n += 1
                ro = rec["real"][m]
                # a failing dumper raises arbitrary exceptions: compare failure as failure, success exactly
                same = (mo == ro) if (mo["r"] == "ok" or ro["r"] == "ok") else True
                if not same:
                    d += 1
                    ctx.disagree(suite, {"hint": repr(rec["spec"].hint), "ty": rec["spec"].ty, "value": enc(rec["value"]),
                                         "mode": m, "origin": rec["origin"]}, ro, mo)
            ctx.suite(suite, n, d)
        return out
