"""Deterministic cooperative scheduler for *real* threads (property C12).

No hook in the library source is needed: every controlled thread installs a
`sys.settrace` tracer that asks for line events only inside the retort's
lookup / creation / caching code

    retort/builtin_mediator.py   BuiltinMediator.cached_call
    morphing/facade/retort.py    AdornedRetort.get_loader / get_dumper
    retort/operating_retort.py   FuncWrapper.set_func, LocatedRequestCallableRecursionResolver.*
    retort/searching_retort.py   SearchingRetort._provide_from_recipe / _create_mediator
    retort/request_bus.py        RecursiveRequestBus.send
    code_tools/compiler.py       ConcurrentCounter.generate_idx

Yield points are located by **function name + AST statement shape** (never by
line number), see `POINT_SPECS`.  At a *scheduling* point the thread parks on
its own semaphore until the controller (the calling thread) grants it the next
step, so exactly one controlled thread runs between two scheduling points and
a schedule -- the list of granted thread ids -- replays deterministically.
*Local* points (effects confined to the running request) are only recorded.

Every point appends one **action** `(tid, kind, detail…)` to a global trace *at
the moment the thread is granted* (so hit/miss is evaluated on the state the
statement is about to see).  The tid sequence of the trace is the schedule fed
to the Lean model, whose labelled transition system must emit the same trace.

Two granularities:
  * mode="points": the located yield points above (used for the model
    correspondence and the bounded-preemption exploration);
  * mode="lines":  *every* line of the traced functions is a scheduling point
    (statement granularity, robust against restructured code; used by the
    directed search and the random stage).

Shared-access statements (`shared_points=True`, used for the workloads in which a thread DERIVES a retort from the
shared one with `extend` / `replace` while other threads use it): besides the classified points above, every
statement of the traced files that touches the CONTENTS of one of the shared caches (`SHARED_ATTRS`, or a local
alias of one) - subscript, `in`, a method of the dict, iteration, a builtin reader such as `dict(x)` / `list(x)`,
unpacking - is a scheduling point of kind `shared`, found by AST shape like the others; every line event inside
the statement's span counts, so a comprehension / loop over a cache yields once per iteration.  In mode="lines"
the code that runs between the harness points `derive` and `derived` is traced *wide*: every line of every
function of the traced files is a scheduling point (its first `WIDE_UNROLL` executions), whatever helper the
cloning code calls.

A lock (`with self._lock` of ConcurrentCounter) is handled as a lock: a thread
arriving at the `with` statement while the lock is held is *not enabled*.
Deadlock / livelock = no enabled thread, or a granted thread that does not
reach its next point within `step_timeout` seconds.
"""
from __future__ import annotations

import ast
import functools
import sys
import threading
import time
import types
from pathlib import Path
from typing import Any, Callable, Optional

# --------------------------------------------------------------------------------------
# locating yield points by AST shape
# --------------------------------------------------------------------------------------

TRACED_FILES = (
    "retort/builtin_mediator.py",
    "morphing/facade/retort.py",
    "retort/operating_retort.py",
    "retort/searching_retort.py",
    "retort/request_bus.py",
    "code_tools/compiler.py",
    "retort/base_retort.py",
    "utils.py",
)
# files of which only the named functions are traced (the rest is general-purpose helper code called all the time)
ONLY_FUNCS = {"utils.py": {"_clone"}}
WIDE_UNROLL = 3     # wide line tracing: executions of one line that are scheduling points
# the shared mutable state of a retort (plain dicts mutated without locks); `PointTable(shared_attrs=...)` may add
# the names found at run time
SHARED_ATTRS = frozenset({"_call_cache", "_loader_cache", "_dumper_cache"})


def _attr_name(node) -> Optional[str]:
    return node.attr if isinstance(node, ast.Attribute) else None


def _is_sub_of_attr(node, attr: str) -> bool:
    return isinstance(node, ast.Subscript) and _attr_name(node.value) == attr


def _m_cc_contains(st):
    return (isinstance(st, ast.If) and isinstance(st.test, ast.Compare) and len(st.test.ops) == 1
            and isinstance(st.test.ops[0], ast.In) and _attr_name(st.test.comparators[0]) == "_call_cache")


def _m_cc_get(st):
    return isinstance(st, ast.Return) and _is_sub_of_attr(st.value, "_call_cache")


def _m_cc_create(st):
    return (isinstance(st, ast.Assign) and isinstance(st.value, ast.Call)
            and isinstance(st.value.func, ast.Name) and st.value.func.id == "func")


def _m_cc_store(st):
    return isinstance(st, ast.Assign) and len(st.targets) == 1 and _is_sub_of_attr(st.targets[0], "_call_cache")


def _m_cache_get(attr):
    return lambda st: isinstance(st, ast.Return) and _is_sub_of_attr(st.value, attr)


def _m_cache_put(attr):
    return lambda st: (isinstance(st, ast.Assign) and len(st.targets) == 1 and _is_sub_of_attr(st.targets[0], attr))


def _m_stub_new(st):
    return (isinstance(st, ast.Assign) and isinstance(st.value, ast.Call)
            and isinstance(st.value.func, ast.Name) and st.value.func.id == "FuncWrapper")


def _m_stub_reuse(st):
    return isinstance(st, ast.Return) and _is_sub_of_attr(st.value, "_loc_to_stub")


def _m_set_func(st):
    return (isinstance(st, ast.Assign) and len(st.targets) == 1 and _attr_name(st.targets[0]) == "__call__"
            and isinstance(st.value, ast.Name))


def _m_with_lock(st):
    return (isinstance(st, ast.With) and len(st.items) == 1
            and _attr_name(st.items[0].context_expr) == "_lock")


def _m_ctr_read(st):
    return (isinstance(st, ast.Assign) and _is_sub_of_attr(st.value, "_name_to_idx"))


def _m_ctr_incr(st):
    return isinstance(st, ast.AugAssign) and _is_sub_of_attr(st.target, "_name_to_idx")


# ---- statements that touch the contents of a shared cache ---------------------------------------------------

import builtins as _builtins

_READERS = (set(dir(_builtins)) | {"copy", "deepcopy"}) - {"getattr", "hasattr", "setattr", "isinstance", "type", "id"}


def _header_exprs(st) -> list:
    """the expressions a statement itself evaluates (for a compound statement: its header, not its body)"""
    if isinstance(st, (ast.For, ast.AsyncFor)):
        return [st.target, st.iter]
    if isinstance(st, (ast.If, ast.While)):
        return [st.test]
    if isinstance(st, (ast.With, ast.AsyncWith)):
        return [i.context_expr for i in st.items]
    if isinstance(st, ast.Match):
        return [st.subject]
    if isinstance(st, (ast.Try, ast.FunctionDef, ast.AsyncFunctionDef, ast.ClassDef)) or \
            type(st).__name__ == "TryStar":
        return []
    return [st]


def _mentions_source(node, attrs) -> bool:
    return any((isinstance(n, ast.Attribute) and n.attr in attrs)
               or (isinstance(n, ast.Constant) and isinstance(n.value, str) and n.value in attrs)
               for n in ast.walk(node))


def _tainted_names(fn, attrs) -> set:
    """local names bound (directly or through another alias) to an expression that mentions a shared cache"""
    tainted: set = set()
    changed = True
    while changed:
        changed = False
        for n in ast.walk(fn):
            if isinstance(n, ast.Assign):
                targets, value = n.targets, n.value
            elif isinstance(n, (ast.AnnAssign, ast.NamedExpr)):
                targets, value = [n.target], n.value
            else:
                continue
            if value is None or isinstance(value, (ast.DictComp, ast.ListComp, ast.SetComp, ast.GeneratorExp)):
                continue        # a new container built FROM a cache is not the cache
            if not (_mentions_source(value, attrs)
                    or any(isinstance(x, ast.Name) and x.id in tainted for x in ast.walk(value))):
                continue
            for t in targets:
                for x in ast.walk(t):
                    if isinstance(x, ast.Name) and x.id not in tainted and isinstance(t, (ast.Name, ast.Tuple)):
                        tainted.add(x.id)
                        changed = True
    return tainted


def _touches_contents(exprs, tainted, attrs) -> bool:
    def sh(e):
        return (isinstance(e, ast.Attribute) and e.attr in attrs) or (isinstance(e, ast.Name) and e.id in tainted)
    for root in exprs:
        for n in ast.walk(root):
            if isinstance(n, ast.Subscript) and sh(n.value):
                return True
            if isinstance(n, ast.Compare) and any(isinstance(op, (ast.In, ast.NotIn)) and sh(c)
                                                  for op, c in zip(n.ops, n.comparators)):
                return True
            if isinstance(n, ast.Attribute) and sh(n.value):                    # x.items() / x.get(..) / x.copy()
                return True
            if isinstance(n, ast.comprehension) and sh(n.iter):
                return True
            if isinstance(n, ast.Call):
                if isinstance(n.func, ast.Name) and n.func.id in _READERS and any(sh(a) for a in n.args):
                    return True                                                  # dict(x), list(x), len(x), copy(x)
                if any(kw.arg is None and sh(kw.value) for kw in n.keywords):    # f(**x)
                    return True
            if isinstance(n, ast.Starred) and sh(n.value):
                return True
            if isinstance(n, ast.Dict) and any(k is None and sh(v) for k, v in zip(n.keys, n.values)):
                return True                                                      # {**x}
    return False


def shared_access_lines(fn, attrs) -> dict:
    """line -> first line of the statement, for every line of the span of every statement of `fn` (nested
    functions included) that touches the contents of a shared cache"""
    tainted = _tainted_names(fn, attrs)
    out: dict = {}
    for st in ast.walk(fn):
        if not isinstance(st, ast.stmt):
            continue
        exprs = _header_exprs(st)
        loop_over = isinstance(st, (ast.For, ast.AsyncFor)) and (
            (isinstance(st.iter, ast.Attribute) and st.iter.attr in attrs)
            or (isinstance(st.iter, ast.Name) and st.iter.id in tainted))         # `for k in self._call_cache:`
        if not exprs or not (loop_over or _touches_contents(exprs, tainted, attrs)):
            continue
        last = max(getattr(e, "end_lineno", st.lineno) or st.lineno for e in exprs)
        for line in range(st.lineno, last + 1):
            out.setdefault(line, st.lineno)
    return out


# (file suffix, class, function, kind, matcher, scheduling?)   scheduling=False -> local, recorded only
POINT_SPECS = [
    ("retort/builtin_mediator.py", "BuiltinMediator", "cached_call", "cc_contains", _m_cc_contains, True),
    ("retort/builtin_mediator.py", "BuiltinMediator", "cached_call", "cc_get", _m_cc_get, True),
    ("retort/builtin_mediator.py", "BuiltinMediator", "cached_call", "create", _m_cc_create, False),
    ("retort/builtin_mediator.py", "BuiltinMediator", "cached_call", "cc_store", _m_cc_store, True),
    ("morphing/facade/retort.py", "AdornedRetort", "get_loader", "lc_get", _m_cache_get("_loader_cache"), True),
    ("morphing/facade/retort.py", "AdornedRetort", "get_loader", "lc_put", _m_cache_put("_loader_cache"), True),
    ("morphing/facade/retort.py", "AdornedRetort", "get_dumper", "lc_get", _m_cache_get("_dumper_cache"), True),
    ("morphing/facade/retort.py", "AdornedRetort", "get_dumper", "lc_put", _m_cache_put("_dumper_cache"), True),
    ("retort/operating_retort.py", "LocatedRequestCallableRecursionResolver", "track_request", "stub_new", _m_stub_new, False),
    ("retort/operating_retort.py", "LocatedRequestCallableRecursionResolver", "track_request", "stub_reuse", _m_stub_reuse, False),
    ("retort/operating_retort.py", "FuncWrapper", "set_func", "stub_bind", _m_set_func, True),
    ("code_tools/compiler.py", "ConcurrentCounter", "generate_idx", "ctr_enter", _m_with_lock, True),
    ("code_tools/compiler.py", "ConcurrentCounter", "generate_idx", "ctr_read", _m_ctr_read, True),
    ("code_tools/compiler.py", "ConcurrentCounter", "generate_idx", "ctr_incr", _m_ctr_incr, True),
]
# kinds that must be found exactly once for the model correspondence to be meaningful
REQUIRED_KINDS = {
    ("BuiltinMediator.cached_call", "cc_contains"), ("BuiltinMediator.cached_call", "cc_get"),
    ("BuiltinMediator.cached_call", "create"), ("BuiltinMediator.cached_call", "cc_store"),
    ("AdornedRetort.get_loader", "lc_get"), ("AdornedRetort.get_loader", "lc_put"),
    ("AdornedRetort.get_dumper", "lc_get"), ("AdornedRetort.get_dumper", "lc_put"),
    ("LocatedRequestCallableRecursionResolver.track_request", "stub_new"),
    ("LocatedRequestCallableRecursionResolver.track_request", "stub_reuse"),
    ("FuncWrapper.set_func", "stub_bind"),
    ("ConcurrentCounter.generate_idx", "ctr_read"), ("ConcurrentCounter.generate_idx", "ctr_incr"),
}
# functions whose every line is a scheduling point in mode="lines"
LINE_FUNCS = {
    "retort/builtin_mediator.py": {"cached_call", "provide"},
    "morphing/facade/retort.py": {"get_loader", "get_dumper", "_make_loader", "_make_dumper", "load", "dump",
                                  "replace", "extend", "_calculate_derived"},
    "retort/operating_retort.py": {"set_func", "track_request", "track_response", "__init__"},
    "retort/searching_retort.py": {"_provide_from_recipe", "_create_mediator", "_facade_provide", "mediator_factory",
                                   "_calculate_derived"},
    "retort/request_bus.py": {"send"},
    "code_tools/compiler.py": {"generate_idx", "_get_unique_id"},
    "retort/base_retort.py": {"_calculate_derived"},
    "utils.py": {"_clone"},
}


class PointTable:
    """(filename, lineno) -> (kind, scheduling) for one source tree."""

    def __init__(self, src_root: Path, shared_attrs=SHARED_ATTRS):
        self.src_root = Path(src_root)
        self.by_line: dict[tuple[str, int], tuple[str, bool, str]] = {}
        self.line_funcs: dict[str, set[str]] = {}
        self.only_funcs: dict[str, set[str]] = {}
        self.shared_attrs = frozenset(shared_attrs)
        self.shared_statements: dict[str, int] = {}     # "file:function+rel" -> number of lines of the span
        self.files: set[str] = set()
        # statement-level preemption everywhere (`Run(wide_all=True)`): file -> number of executions of one line that
        # are scheduling points; filled by the caller from what it DISCOVERED (`add_wide_files`), not from a list
        self.wide_files: dict[str, int] = {}
        self.missing: list[str] = []
        self.ambiguous: list[str] = []
        found: dict[tuple[str, str], int] = {}
        base = self.src_root / "adaptix" / "_internal"
        for suffix in TRACED_FILES:
            path = str((base / suffix).resolve())
            self.files.add(path)
            self.line_funcs[path] = LINE_FUNCS.get(suffix, set())
            if suffix in ONLY_FUNCS:
                self.only_funcs[path] = ONLY_FUNCS[suffix]
            try:
                tree = ast.parse(Path(path).read_text())
            except (OSError, SyntaxError) as e:  # pragma: no cover
                self.missing.append(f"{suffix}: {e}")
                continue
            for cls in [n for n in ast.walk(tree) if isinstance(n, ast.ClassDef)]:
                for fn in [n for n in cls.body if isinstance(n, ast.FunctionDef)]:
                    for (sfx, c, f, kind, matcher, sched) in POINT_SPECS:
                        if sfx != suffix or c != cls.name or f != fn.name:
                            continue
                        for st in ast.walk(fn):
                            if isinstance(st, ast.stmt) and matcher(st):
                                self.by_line[(path, st.lineno)] = (kind, sched, f"{c}.{f}")
                                found[(f"{c}.{f}", kind)] = found.get((f"{c}.{f}", kind), 0) + 1
            # statements touching the contents of a shared cache, in any function of the file (classified points win)
            nested = set()
            for fn in [n for n in ast.walk(tree) if isinstance(n, (ast.FunctionDef, ast.AsyncFunctionDef))]:
                if id(fn) in nested:
                    continue        # analysed with its enclosing function (aliases are visible to closures)
                nested.update(id(n) for n in ast.walk(fn)
                              if n is not fn and isinstance(n, (ast.FunctionDef, ast.AsyncFunctionDef)))
                if suffix in ONLY_FUNCS and fn.name not in ONLY_FUNCS[suffix]:
                    continue
                for line, first in shared_access_lines(fn, self.shared_attrs).items():
                    if (path, line) not in self.by_line:
                        self.by_line[(path, line)] = ("shared", True, f"{fn.name}+{first - fn.lineno}")
                        k = f"{suffix}:{fn.name}+{first - fn.lineno}"
                        self.shared_statements[k] = self.shared_statements.get(k, 0) + 1
        for need in sorted(REQUIRED_KINDS):
            n = found.get(need, 0)
            if n == 0:
                self.missing.append(f"{need[0]}:{need[1]}")
            elif n > 1:
                self.ambiguous.append(f"{need[0]}:{need[1]} x{n}")

    @property
    def complete(self) -> bool:
        return not self.missing and not self.ambiguous

    def add_wide_files(self, paths, unroll: int):
        """source files in which EVERY line of EVERY function is a preemption point of a thread that runs wide in a
        `Run(wide_all=True)`; a file registered twice keeps the larger unrolling"""
        for p in paths:
            p = str(Path(p).resolve())
            self.wide_files[p] = max(self.wide_files.get(p, 0), unroll)

    def wide_ok(self, path: str) -> bool:
        """wide line tracing covers every traced file whose functions are not restricted (`ONLY_FUNCS`)"""
        return path not in self.only_funcs


# --------------------------------------------------------------------------------------
# labels: what an action says (evaluated at grant time, on the state the statement will see)
# --------------------------------------------------------------------------------------

class Namer:
    """Canonical, address-free names for closures / stubs / cache keys of one run."""

    def __init__(self, describe_site: Callable[[Any], str], describe_loc: Callable[[Any], str],
                 describe_type: Callable[[Any], str]):
        self.describe_site = describe_site
        self.describe_loc = describe_loc
        self.describe_type = describe_type
        self._obj_ids: dict[int, str] = {}
        self._keep: list = []      # keep objects alive so id() stays unique during the run
        self._n_clo = 0
        self._n_stub = 0

    def ref(self, obj) -> str:
        k = id(obj)
        got = self._obj_ids.get(k)
        if got is not None:
            return got
        self._keep.append(obj)
        if type(obj).__name__ == "FuncWrapper":
            name = f"s{self._n_stub}"
            self._n_stub += 1
        else:
            name = f"c{self._n_clo}"
            self._n_clo += 1
        self._obj_ids[k] = name
        return name

    def refs_in(self, obj, out: list):
        """closures and stubs occurring in a cached_call argument (in order)."""
        tn = type(obj).__name__
        if tn == "FuncWrapper" or isinstance(obj, _CLOSURE_TYPES):
            out.append(self.ref(obj))
        elif tn in ("OrderedMappingHashWrapper", "MappingHashWrapper"):
            for v in obj.mapping.values():
                self.refs_in(v, out)
        elif isinstance(obj, (tuple, list)):
            for v in obj:
                self.refs_in(v, out)


_CLOSURE_TYPES = (types.FunctionType, types.BuiltinFunctionType, types.MethodType, types.MethodDescriptorType,
                  functools.partial)


# --------------------------------------------------------------------------------------
# the scheduler
# --------------------------------------------------------------------------------------

class Deadlock(Exception):
    pass


# the only places where a thread marked `atomic` parks: its harness points and the entry of a lock-protected section
ATOMIC_SCHED_KINDS = frozenset({"start", "call", "not_found", "derive", "ctr_enter"})


class _TState:
    __slots__ = ("tid", "sem", "thread", "status", "pending_kind", "pending_lock", "result", "exc", "fn",
                 "pending_hint")

    def __init__(self, tid, fn):
        self.tid = tid
        self.fn = fn
        self.sem = threading.Semaphore(0)
        self.thread = None
        self.status = "new"          # new | parked | running | done
        self.pending_kind = None
        self.pending_lock = None
        self.pending_hint = None
        self.result = None
        self.exc = None


class WideMonitor:
    """Line events for the runs with `wide_all=True` through `sys.monitoring` (3.12): LINE events are switched on
    only for the code objects of `table.wide_files` (+ the lock-protected section), so the rest of the interpreter
    runs at full speed - `sys.settrace` pays a Python call per function call of the traced thread, which makes a
    statement-level exploration of a whole request 4-5 times slower.  Code objects are found when they are first
    entered (PY_START, then disabled for that code object).  `start()` / `stop()` bracket a stage; between runs the
    callbacks find no current run and return at once."""
    current: Optional["Run"] = None
    active = False
    _tool = None
    _codes: list = []
    _files: frozenset = frozenset()

    @classmethod
    def start(cls, table: "PointTable") -> bool:
        mon = getattr(sys, "monitoring", None)
        if mon is None or cls.active:
            return cls.active
        for tool in (mon.PROFILER_ID, mon.OPTIMIZER_ID, 3, 4):
            if mon.get_tool(tool) is None:
                break
        else:
            return False
        mon.use_tool_id(tool, "c12-wide")
        cls._tool, cls._codes, cls.active = tool, [], True
        cls._files = frozenset(table.wide_files) | frozenset(table.files)
        mon.register_callback(tool, mon.events.PY_START, cls._py_start)
        mon.register_callback(tool, mon.events.LINE, cls._line)
        mon.set_events(tool, mon.events.PY_START)
        mon.restart_events()
        return True

    @classmethod
    def stop(cls):
        if not cls.active:
            return
        mon = sys.monitoring
        mon.set_events(cls._tool, 0)
        for code in cls._codes:
            mon.set_local_events(cls._tool, code, 0)
        mon.register_callback(cls._tool, mon.events.PY_START, None)
        mon.register_callback(cls._tool, mon.events.LINE, None)
        mon.free_tool_id(cls._tool)
        cls._tool, cls._codes, cls.active, cls.current = None, [], False, None

    @classmethod
    def _py_start(cls, code, _offset):
        if code.co_filename in cls._files:
            sys.monitoring.set_local_events(cls._tool, code, sys.monitoring.events.LINE)
            cls._codes.append(code)
        return sys.monitoring.DISABLE

    @classmethod
    def _line(cls, code, line):
        run = cls.current
        if run is not None:
            run._mon_line(code, line)


class Run:
    """One controlled execution of `fns` (one function per thread; each receives its `Run` handle and tid)."""

    def __init__(self, table: PointTable, namer: Namer, mode: str = "points", step_timeout: float = 5.0,
                 sched_kinds: Optional[set[str]] = None, shared_points: bool = False, wide_all: bool = False):
        self.table = table
        self.namer = namer
        self.mode = mode
        self.step_timeout = step_timeout
        self.sched_kinds = sched_kinds      # None = every scheduling kind of POINT_SPECS (+ harness points)
        self.shared_points = shared_points  # statements touching the contents of a shared cache are scheduling points
        self.wide_all = wide_all            # a thread that runs wide yields at every line of `table.wide_files`
        self.sites: dict[str, int] = {}     # wide_all: "file:function+rel" -> times it was a scheduling point
        self._chooser = None
        self._cur_tid: Optional[int] = None
        self._forced: Optional[int] = None  # a decision already taken (and recorded) by the running thread
        self.actions: list[list] = []       # global action trace
        self.decisions: list[dict] = []     # per scheduling decision: enabled tids, chosen, current before
        self.threads: list[_TState] = []
        self._ctl = threading.Semaphore(0)
        self._cur: Optional[_TState] = None
        self.deadlock: Optional[str] = None
        self.diverged = False
        self._tls = threading.local()

    # ---- called from controlled threads ------------------------------------------------
    def point(self, kind: str, label_fn: Callable[[], list], lock=None, scheduling: bool = True, hint=None):
        """A yield point.  `label_fn()` is evaluated when the thread is granted; `hint` names the statement the thread
        is parked in front of (recorded with a decision that switches away from it)."""
        ts: _TState = self._tls.ts
        if scheduling and getattr(self._tls, "atomic", False) and kind not in ATOMIC_SCHED_KINDS:
            scheduling = False
        if scheduling and (self.sched_kinds is None or kind in self.sched_kinds):
            if self.wide_all and self._chooser is not None and self._cur_tid == ts.tid \
                    and not (lock is not None and lock.locked()):
                # the decision is taken in place (same enabled set, same chooser call as the controller would make;
                # the controller is blocked and every other controlled thread is parked or done): a thread that is
                # allowed to continue does not pay two context switches per statement
                enabled = [o.tid for o in self.threads
                           if o is ts or (o.status == "parked"
                                          and not (o.pending_lock is not None and o.pending_lock.locked()))]
                t = self._chooser(self, enabled, ts.tid)
                if t not in enabled:
                    self.diverged = True
                    t = ts.tid
                self.decisions.append({"enabled": enabled, "cur": ts.tid, "chosen": t,
                                       "kind": kind if t == ts.tid else self.threads[t].pending_kind})
                if t != ts.tid:
                    self.decisions[-1]["preempted_at"] = hint or kind
                    self._forced = t
                scheduling = t != ts.tid
        if scheduling and (self.sched_kinds is None or kind in self.sched_kinds):
            ts.pending_kind = kind
            ts.pending_lock = lock
            ts.pending_hint = hint
            ts.status = "parked"
            self._ctl.release()
            ts.sem.acquire()
            ts.status = "running"
            ts.pending_kind = None
            ts.pending_lock = None
        try:
            lab = label_fn()
        except Exception as e:  # noqa: BLE001  (restructured code: the action is still recorded, as unreadable)
            lab = [f"<unreadable:{type(e).__name__}>"]
        if lab is not None:
            self.actions.append([ts.tid, kind, *lab])

    def wide(self, on: bool):
        """mode="lines": from now on / no longer every line of every function of the traced files is a scheduling
        point for the calling thread (used around the call that derives a retort: whatever the cloning code calls)"""
        self._tls.wide = bool(on)
        self._tls.wide_seen = {}

    def atomic(self):
        """the calling thread is not preempted inside the library: it parks only at its harness points and where it
        takes a lock (a thread that meets a held lock waits, as it would)"""
        self._tls.atomic = True

    def _tracer_global(self, frame, event, arg):
        if event != "call":
            return None
        fn = frame.f_code.co_filename
        if getattr(self._tls, "atomic", False):
            if fn in self.table.files:
                only = self.table.only_funcs.get(fn)
                if only is None or frame.f_code.co_name in only:
                    return self._tracer_local
            return None
        if self.wide_all and getattr(self._tls, "wide", False) and fn in self.table.wide_files:
            return self._tracer_lines
        if fn in self.table.files:
            only = self.table.only_funcs.get(fn)
            if self.mode == "lines":
                if getattr(self._tls, "wide", False) and self.table.wide_ok(fn):
                    return self._tracer_lines
                if frame.f_code.co_name in self.table.line_funcs.get(fn, ()):
                    return self._tracer_lines
                if self.shared_points and (only is None or frame.f_code.co_name in only):
                    return self._tracer_shared_lines
                return None
            if only is not None and frame.f_code.co_name not in only:
                return None
            return self._tracer_local
        return None

    def _tracer_local(self, frame, event, arg):
        if event != "line":
            return self._tracer_local
        hit = self.table.by_line.get((frame.f_code.co_filename, frame.f_lineno))
        if hit is None:
            return self._tracer_local
        kind, sched, _where = hit
        if kind == "shared":
            if not self.shared_points:
                return self._tracer_local
            where = _where
            sys.settrace(None)
            try:
                self.point("shared", lambda: [where])
            finally:
                sys.settrace(self._tracer_global)
            return self._tracer_local
        sys.settrace(None)
        try:
            lock = None
            if kind == "ctr_enter":
                lock = self._with_lock_entry(frame)
                if lock is None:        # the `with` line is reported a second time when the block is left
                    return self._tracer_local
            self.point(kind, lambda: _label(self.namer, kind, frame), lock=lock, scheduling=sched)
        finally:
            sys.settrace(self._tracer_global)
        return self._tracer_local

    def _with_lock_entry(self, frame):
        """the lock a `with self._lock:` line is about to take, or None when the line event is the block's exit"""
        inside = self._tls.__dict__.setdefault("in_with", set())
        if id(frame) in inside:
            inside.discard(id(frame))
            return None
        inside.add(id(frame))
        return frame.f_locals["self"]._lock

    def _tracer_lines(self, frame, event, arg):
        if event != "line":
            return self._tracer_lines
        hit0 = self.table.by_line.get((frame.f_code.co_filename, frame.f_lineno))
        if getattr(self._tls, "wide", False) and not (hit0 is not None and hit0[0] == "ctr_enter"):
            # (the entry of a lock-protected section is always a point: the controller must see the lock)
            # bounded unrolling: the first WIDE_UNROLL executions of a line are scheduling points (the cloning code
            # loops over the whole recipe; a loop over a shared container is met in its first iterations)
            seen = self._tls.wide_seen
            k = (frame.f_code, frame.f_lineno)
            seen[k] = seen.get(k, 0) + 1
            if seen[k] > (self.table.wide_files.get(frame.f_code.co_filename, WIDE_UNROLL) if self.wide_all
                          else WIDE_UNROLL):
                return self._tracer_lines
        sys.settrace(None)
        try:
            code = frame.f_code
            lock = None
            hit = self.table.by_line.get((code.co_filename, frame.f_lineno))
            if hit is not None and hit[0] == "ctr_enter":
                lock = self._with_lock_entry(frame)
            rel = frame.f_lineno - code.co_firstlineno
            if self.wide_all:
                site = f"{code.co_filename.rsplit('/', 1)[-1]}:{code.co_name}+{rel}"
                self.sites[site] = self.sites.get(site, 0) + 1
                self.point("line", lambda: [site], lock=lock, hint=site)
            else:
                self.point("line", lambda: [f"{code.co_name}+{rel}"], lock=lock)
        finally:
            sys.settrace(self._tracer_global)
        return self._tracer_lines

    def _mon_line(self, code, line):
        """`sys.monitoring` LINE event of a `wide_all` run (any thread; only controlled threads react)"""
        tls = self._tls
        if getattr(tls, "ts", None) is None or not getattr(tls, "mon", False):
            return
        fn = code.co_filename
        hit = self.table.by_line.get((fn, line))
        is_lock = hit is not None and hit[0] == "ctr_enter"
        wide = getattr(tls, "wide", False) and not getattr(tls, "atomic", False)
        if not wide:
            if not is_lock:
                return
        elif not is_lock:
            limit = self.table.wide_files.get(fn)
            if limit is None:
                return
            seen = tls.wide_seen
            k = (code, line)
            n = seen[k] = seen.get(k, 0) + 1
            if n > limit:
                return
        lock = None
        if is_lock:
            frame = sys._getframe(1)
            while frame is not None and frame.f_code is not code:      # (callback frames sit in between)
                frame = frame.f_back
            lock = self._with_lock_entry(frame) if frame is not None else None
            if lock is None and not wide:
                return          # the `with` line is reported a second time when the block is left
        if not wide:
            self.point("ctr_enter", lambda: None, lock=lock)
            return
        site = f"{fn.rsplit('/', 1)[-1]}:{code.co_name}+{line - code.co_firstlineno}"
        self.sites[site] = self.sites.get(site, 0) + 1
        self.point("line", lambda: [site], lock=lock, hint=site)

    def _tracer_shared_lines(self, frame, event, arg):
        """mode="lines", a function that is not traced line by line: only its shared-access statements yield"""
        if event != "line":
            return self._tracer_shared_lines
        hit = self.table.by_line.get((frame.f_code.co_filename, frame.f_lineno))
        if hit is None or hit[0] != "shared":
            return self._tracer_shared_lines
        where = hit[2]
        sys.settrace(None)
        try:
            self.point("line", lambda: [where])
        finally:
            sys.settrace(self._tracer_global)
        return self._tracer_shared_lines

    def _body(self, ts: _TState):
        self._tls.ts = ts
        try:
            self.point("start", lambda: None)
            if self.wide_all and WideMonitor.active:
                self._tls.mon = True        # line events arrive through sys.monitoring (`_mon_line`)
                ts.result = ts.fn(self, ts.tid)
            else:
                sys.settrace(self._tracer_global)
                try:
                    ts.result = ts.fn(self, ts.tid)
                finally:
                    sys.settrace(None)
        except BaseException as e:  # noqa: BLE001  (the outcome of the thread *is* the exception)
            ts.exc = e
        ts.status = "done"
        self._ctl.release()

    # ---- controller ---------------------------------------------------------------------
    def _wait(self, what: str):
        if not self._ctl.acquire(timeout=self.step_timeout):
            self.deadlock = what
            raise Deadlock(what)

    def _enabled(self) -> list[int]:
        out = []
        for ts in self.threads:
            if ts.status != "parked":
                continue
            if ts.pending_lock is not None and ts.pending_lock.locked():
                continue
            out.append(ts.tid)
        return out

    def execute(self, fns: list[Callable], chooser: Callable[["Run", list[int], Optional[int]], int]):
        self.threads = [_TState(i, f) for i, f in enumerate(fns)]
        self._chooser = chooser
        if self.wide_all and WideMonitor.active:
            WideMonitor.current = self
        for ts in self.threads:
            ts.thread = threading.Thread(target=self._body, args=(ts,), daemon=True, name=f"c12-t{ts.tid}")
            ts.thread.start()
        try:
            for _ in self.threads:
                self._wait("threads did not reach their start point")
            cur: Optional[int] = None
            while True:
                if all(ts.status == "done" for ts in self.threads):
                    break
                enabled = self._enabled()
                if not enabled:
                    self.deadlock = "no enabled thread: " + ", ".join(
                        f"t{ts.tid}:{ts.status}@{ts.pending_kind}" for ts in self.threads)
                    raise Deadlock(self.deadlock)
                cur_ok = cur if cur in enabled else None
                if self._forced is not None:
                    t, self._forced = self._forced, None
                    cur = self._cur_tid = t
                    self.threads[t].sem.release()
                    self._wait(f"thread {t} granted at '{self.threads[t].pending_kind}' did not reach its next point "
                               f"within {self.step_timeout}s")
                    continue
                t = chooser(self, enabled, cur_ok)
                if t not in enabled:
                    self.diverged = True
                    t = cur_ok if cur_ok is not None else enabled[0]
                self.decisions.append({"enabled": enabled, "cur": cur_ok, "chosen": t,
                                       "kind": self.threads[t].pending_kind})
                if cur_ok is not None and t != cur_ok:
                    self.decisions[-1]["preempted_at"] = self.threads[cur_ok].pending_hint or \
                        self.threads[cur_ok].pending_kind
                cur = self._cur_tid = t
                self.threads[t].sem.release()
                self._wait(f"thread {t} granted at '{self.decisions[-1]['kind']}' did not reach its next point "
                           f"within {self.step_timeout}s")
        except Deadlock:
            pass
        finally:
            if WideMonitor.current is self:
                WideMonitor.current = None
        return self

    @property
    def schedule(self) -> list[int]:
        return [d["chosen"] for d in self.decisions]


# ---- label extraction (reads the frame the statement is about to run in) -----------------

def _label(namer: Namer, kind: str, frame) -> list:
    loc = frame.f_locals
    if kind in ("cc_contains", "cc_get", "create", "cc_store"):
        key = loc["key"]
        site = namer.describe_site(key[0])
        cache = loc["self"]._call_cache
        if kind == "cc_contains":
            refs: list = []
            for a in key[1:]:
                namer.refs_in(a, refs)
            return [site, refs, bool(key in cache)]
        if kind == "cc_get":
            return [site, namer.ref(cache[key])]
        if kind == "create":
            return [site]
        return [site, namer.ref(loc["result"])]
    if kind == "lc_get":
        cache = loc["self"]._loader_cache if frame.f_code.co_name == "get_loader" else loc["self"]._dumper_cache
        tp = loc["tp"]
        return [namer.describe_type(tp), namer.ref(cache[tp]) if tp in cache else None]
    if kind == "lc_put":
        val = loc["loader_"] if "loader_" in loc else loc.get("dumper_", None)
        return [namer.describe_type(loc["tp"]), namer.ref(val) if val is not None else "<unknown>"]
    if kind == "stub_new":
        return [namer.describe_loc(loc["last_loc"])]
    if kind == "stub_reuse":
        return [namer.describe_loc(loc["last_loc"]), namer.ref(loc["self"]._loc_to_stub[loc["last_loc"]])]
    if kind == "stub_bind":
        return [namer.describe_loc(loc["self"]._key), namer.ref(loc["self"]), namer.ref(loc["func"])]
    if kind in ("ctr_enter", "ctr_read", "ctr_incr"):
        return None     # scheduling points inside the lock-protected section; not part of the compared trace
    return []


# --------------------------------------------------------------------------------------
# choosers and bounded-preemption enumeration
# --------------------------------------------------------------------------------------

def default_choice(enabled: list[int], cur: Optional[int]) -> int:
    """non-preemptive: stay on the current thread while it is enabled, else the lowest enabled id."""
    return cur if cur is not None else enabled[0]


def chooser_from_overrides(overrides: dict[int, int]):
    """`overrides[i] = tid`: at the i-th scheduling decision run `tid`; elsewhere the non-preemptive default."""
    def choose(run: Run, enabled, cur):
        i = len(run.decisions)
        if i in overrides:
            return overrides[i]
        return default_choice(enabled, cur)
    return choose


def chooser_from_schedule(schedule: list[int]):
    def choose(run: Run, enabled, cur):
        i = len(run.decisions)
        if i < len(schedule):
            return schedule[i]
        return default_choice(enabled, cur)
    return choose


def chooser_random(rng, switch_prob: float):
    def choose(run: Run, enabled, cur):
        if cur is not None and rng.random() >= switch_prob:
            return cur
        return rng.choice(enabled)
    return choose


def explore_bounded(execute: Callable[[dict[int, int]], Run], max_preemptions: int, deadline: float,
                    max_runs: Optional[int] = None):
    """Stateless exploration of all schedules with at most `max_preemptions` preemptions (switching away from a
    thread that could continue); switches at a thread's end or at a blocked thread are free.
    Yields (overrides, run).  `execute(overrides)` must build a *fresh* system and run it."""
    stack: list[tuple[dict[int, int], int]] = [({}, 0)]
    runs = 0
    while stack:
        if time.time() > deadline or (max_runs is not None and runs >= max_runs):
            return
        overrides, used = stack.pop()
        run = execute(overrides)
        runs += 1
        yield overrides, run
        start = (max(overrides) + 1) if overrides else 0
        for i in range(start, len(run.decisions)):
            d = run.decisions[i]
            for alt in d["enabled"]:
                if alt == d["chosen"]:
                    continue
                cost = 1 if d["cur"] is not None else 0
                if used + cost > max_preemptions:
                    continue
                child = dict(overrides)
                child[i] = alt
                stack.append((child, used + cost))
