"""Data that are instances of SUBCLASSES (and look-alikes) of the builtin types a loader tests for.

The loaders decide with a mix of `type(data) is T`, `isinstance(data, T)` and duck typing; the generated programs of the
three debug_trail modes repeat those tests textually, so the two spellings can drift apart in ONE mode only - and they differ
exactly on instances of subclasses.  This module rewrites ordinary data into such instances:

* `sub_of(rng, v)`         the same value as an instance of a subclass / look-alike of `type(v)`;
* `POOL`                   subclass instances to plant where something else is expected;
* `build(seed, base, ...)` a deterministic rewrite of a datum (a fresh object on every call: defaultdict / Counter data are
                           mutated by `data[key]`, mappingproxy cannot be copied);
* `enc2(v)`                canonical comparison form that keeps "instance of subclass C with base value b" (the model's value
                           universe has no such tag: these data go to the oracles only);
* `show(v)`                a readable form naming the classes, for replays.
"""
import collections
import dataclasses
import enum
import random
import types

from extract import scalars as X
from harness import morph


class SubStr(str):
    __slots__ = ()


class SubInt(int):
    __slots__ = ()


class SubFloat(float):
    __slots__ = ()


class SubBytes(bytes):
    __slots__ = ()


class SubByteArray(bytearray):
    __slots__ = ()


class SubList(list):
    __slots__ = ()


class SubTuple(tuple):
    __slots__ = ()


class SubDict(dict):
    __slots__ = ()


class SubSet(set):
    __slots__ = ()


class SubFrozenSet(frozenset):
    __slots__ = ()


class SubDeque(collections.deque):
    __slots__ = ()


class StrMember(str, enum.Enum):
    EMPTY = ""
    A = "a"
    B = "b"
    AB = "ab"
    ABC = "abc"
    ONE = "1"
    K = "k"


class IntMember(enum.IntEnum):
    ZERO = 0
    ONE = 1
    TWO = 2
    THREE = 3
    MINUS = -1


class IntBits(enum.IntFlag):
    R = 1
    W = 2


class FloatMember(float, enum.Enum):
    HALF = 0.5
    ONE_AND_HALF = 1.5


Pair = collections.namedtuple("Pair", "x y")
Single = collections.namedtuple("Single", "x")
Triple = collections.namedtuple("Triple", "x y z")
_NT = {1: Single, 2: Pair, 3: Triple}

_STR_MEMBERS = {m.value: m for m in StrMember}
_INT_MEMBERS = {m.value: m for m in IntMember}
_FLOAT_MEMBERS = {m.value: m for m in FloatMember}


def _counter(d):
    c = collections.Counter()
    dict.update(c, d)      # Counter.update would add counts; keep the mapping as it is
    return c


def _defaultdict(d):
    out = collections.defaultdict(int)
    out.update(d)
    return out


def sub_of(rng, v):  # noqa: C901, PLR0911, PLR0912
    """the same value as an instance of a subclass (or a collections look-alike) of its type; `v` itself if there is none"""
    t = type(v)
    if t is str:
        opts = [SubStr, SubStr, collections.UserString]
        if v in _STR_MEMBERS:
            opts += [_STR_MEMBERS.get] * 2
        return rng.choice(opts)(v)
    if t is bool:
        return rng.choice([IntMember(int(v)), SubInt(int(v))])   # bool has no subclasses: its nearest relatives
    if t is int:
        opts = [SubInt, SubInt]
        if v in _INT_MEMBERS:
            opts += [_INT_MEMBERS.get] * 2
        if v in (1, 2, 3):
            opts.append(IntBits)
        return rng.choice(opts)(v)
    if t is float:
        opts = [SubFloat, SubFloat]
        if v in _FLOAT_MEMBERS:
            opts.append(_FLOAT_MEMBERS.get)
        return rng.choice(opts)(v)
    if t is bytes:
        return SubBytes(v)
    if t is bytearray:
        return SubByteArray(v)
    if t is list:
        return rng.choice([SubList, SubList, collections.UserList, SubDeque])(v)
    if t is tuple:
        opts = [SubTuple, SubTuple]
        if len(v) in _NT:
            opts += [lambda x: _NT[len(x)](*x)] * 2
        return rng.choice(opts)(v)
    if t is dict:
        return rng.choice([SubDict, SubDict, collections.OrderedDict, _defaultdict, _counter, collections.UserDict,
                           types.MappingProxyType, lambda d: collections.ChainMap(dict(d))])(v)
    if t is set:
        return SubSet(v)
    if t is frozenset:
        return SubFrozenSet(v)
    if t is collections.deque:
        return SubDeque(v)
    return v


POOL = [
    lambda: SubStr("ab"), lambda: SubStr(""), lambda: SubStr("a"), lambda: SubStr("1"), lambda: StrMember.AB, lambda: StrMember.A,
    lambda: StrMember.ONE, lambda: StrMember.EMPTY, lambda: collections.UserString("ab"),
    lambda: SubInt(1), lambda: SubInt(0), lambda: SubInt(7), lambda: IntMember.ONE, lambda: IntMember.ZERO, lambda: IntMember.TWO,
    lambda: IntBits.R | IntBits.W, lambda: SubFloat(1.5), lambda: SubFloat(1.0), lambda: FloatMember.HALF,
    lambda: SubBytes(b"ab"), lambda: SubBytes(b""), lambda: SubByteArray(b"ab"),
    lambda: SubList([1, 2]), lambda: SubList(["a", "b"]), lambda: SubList([]), lambda: collections.UserList([1]),
    lambda: SubTuple((1, 2)), lambda: SubTuple(("a",)), lambda: SubTuple(()), lambda: Pair(1, "a"), lambda: Pair("a", "b"),
    lambda: Single(1), lambda: Triple(1, 2, 3),
    lambda: SubDict({"a": 1}), lambda: SubDict({}), lambda: collections.OrderedDict([("a", 1), ("b", 2)]),
    lambda: _defaultdict({"a": 1}), lambda: collections.defaultdict(list), lambda: collections.Counter("ab"),
    lambda: collections.UserDict({"a": 1}), lambda: types.MappingProxyType({"a": 1}), lambda: collections.ChainMap({"a": 1}),
    lambda: SubSet({1, 2}), lambda: SubSet({"a"}), lambda: SubFrozenSet({1}), lambda: SubFrozenSet({"a", "b"}), lambda: SubDeque([1, 2]),
]


def _count(d):
    t = type(d)
    if t in (list, tuple):
        return 1 + sum(_count(x) for x in d)
    if t is dict:
        return 1 + sum(_count(k) + _count(x) for k, x in d.items())
    if _is_dc(d):
        return 1 + sum(_count(getattr(d, f.name)) for f in dataclasses.fields(d))
    return 1


def _is_dc(d) -> bool:
    return dataclasses.is_dataclass(d) and not isinstance(d, type) and all(hasattr(d, f.name) for f in dataclasses.fields(d))


def n_nodes(base) -> int:
    return _count(base)


def build(seed: int, base, subclass_at=(), plant_at=()):
    """a fresh rewrite of `base` (list / tuple / dict nesting, dataclass instances, over leaves): the nodes numbered `subclass_at`
    (pre-order, keys before values) become same-valued subclass instances, the nodes `plant_at` are replaced by POOL members.
    -> (datum, number of rewritten nodes)"""
    rng = random.Random(seed)
    counter = [0]
    changed = [0]

    def go(x, as_key=False):
        i = counter[0]
        counter[0] += 1
        t = type(x)
        if i in plant_at:
            for _ in range(8):
                y = rng.choice(POOL)()
                if not as_key or _hashable(y):
                    changed[0] += 1
                    counter[0] += _count(x) - 1
                    return y
        if t in (list, tuple):
            y = t([go(e, as_key) for e in x])     # the elements of a tuple key must stay hashable too
        elif t is dict:
            y = {}
            for k, v in x.items():
                y[go(k, as_key=True)] = go(v)
        elif _is_dc(x):     # a typed value (dump side): the same model instance with rewritten field values
            y = dataclasses.replace(x, **{f.name: go(getattr(x, f.name), as_key) for f in dataclasses.fields(x) if f.init})
        else:
            y = x
        if i in subclass_at:
            z = sub_of(rng, y)
            if z is not y and (not as_key or _hashable(z)):
                changed[0] += 1
                return z
        return y
    return go(base), changed[0]


def _hashable(v) -> bool:
    try:
        hash(v)
    except TypeError:
        return False
    return True


# ---- comparison form ---------------------------------------------------------------------------------------------------

def _base_value(v):  # noqa: PLR0911
    """the value of an instance of a subclass as an instance of the exact builtin type, or None"""
    if isinstance(v, str):
        return str.__str__(v)
    if isinstance(v, bool):
        return None
    if isinstance(v, int):
        return int.__int__(v)
    if isinstance(v, float):
        return float.__float__(v)
    if isinstance(v, (bytes, bytearray)):
        return (bytes if isinstance(v, bytes) else bytearray)(memoryview(v))
    if isinstance(v, list):
        return list.copy(v)
    if isinstance(v, tuple):
        return tuple.__getitem__(v, slice(None))
    if isinstance(v, dict):
        return dict(dict.items(v))
    if isinstance(v, (set, frozenset)):
        return (set if isinstance(v, set) else frozenset)(v)
    if isinstance(v, collections.deque):
        return collections.deque(v)
    return None


_EXACT = (str, int, float, bool, bytes, bytearray, list, tuple, dict, set, frozenset, collections.deque, type(None))


def enc2(v, depth=0):  # noqa: PLR0911
    """canonical JSON-able form: morph's encoding for exact builtin types, `["sub", class, base value]` for instances of
    their subclasses, sets sorted"""
    t = type(v)
    if depth > 40:
        return ["x", "deep"]
    if t in (list, tuple, collections.deque):
        return [{list: "l", tuple: "t", collections.deque: "q"}[t], [enc2(x, depth + 1) for x in v]]
    if t in (set, frozenset):
        return ["S" if t is set else "F", sorted((enc2(x, depth + 1) for x in v), key=repr)]
    if t is dict:
        return ["d", [[enc2(k, depth + 1), enc2(x, depth + 1)] for k, x in v.items()]]
    if dataclasses.is_dataclass(v) and not isinstance(v, type):
        return ["o", t.__name__, [[f.name, enc2(getattr(v, f.name, None), depth + 1)] for f in dataclasses.fields(v)]]
    if t not in _EXACT:
        try:
            b = _base_value(v)
        except Exception:  # noqa: BLE001
            b = None
        if b is not None:
            return ["sub", X.type_name(t), enc2(b, depth + 1)]
        if isinstance(v, (collections.UserString, collections.UserList, collections.UserDict)):
            return ["like", X.type_name(t), enc2(v.data, depth + 1)]
    try:
        return morph.canon_val(morph.enc(v))
    except morph.Unencodable:
        return ["x", "unencodable"]


def show(v, depth=0) -> str:
    """repr that names the class of every instance of a subclass / look-alike"""
    t = type(v)
    if depth > 12:
        return "..."
    if t is list:
        return "[" + ", ".join(show(x, depth + 1) for x in v) + "]"
    if t is tuple:
        return "(" + ", ".join(show(x, depth + 1) for x in v) + ("," if len(v) == 1 else "") + ")"
    if t is dict:
        return "{" + ", ".join(f"{show(k, depth + 1)}: {show(x, depth + 1)}" for k, x in v.items()) + "}"
    if t in _EXACT:
        return repr(v)
    if isinstance(v, enum.Enum):
        return f"{t.__name__}.{v.name}"
    try:
        b = _base_value(v)
    except Exception:  # noqa: BLE001
        b = None
    if b is not None:
        return f"{t.__name__}({show(b, depth + 1)})"
    if isinstance(v, (collections.UserString, collections.UserList, collections.UserDict)):
        return f"{t.__name__}({show(v.data, depth + 1)})"
    return repr(v)
