/-
  JSON-lines protocol shared by every model driver.
  One request object per input line, one reply per output line:
    {"ok": <json>}            the model's answer
    {"err": "<message>"}      the request could not be decoded / is outside the model
  The model never guesses: an undecodable request is an "err", which the
  harness counts as a broken tie, not as agreement.
-/
import Lean.Data.Json

namespace Adaptix.Protocol
open Lean

abbrev Handler := Json → Except String Json

def reply (h : Handler) (line : String) : String :=
  match Json.parse line with
  | .error e => (Json.mkObj [("err", Json.str s!"parse: {e}")]).compress
  | .ok j =>
    match h j with
    | .ok r => (Json.mkObj [("ok", r)]).compress
    | .error e => (Json.mkObj [("err", Json.str e)]).compress

partial def loop (h : Handler) (i o : IO.FS.Stream) : IO Unit := do
  let line ← i.getLine
  if line.isEmpty then
    o.flush
    return ()
  if line.trimAscii.isEmpty then
    loop h i o
  else
    o.putStrLn (reply h line)
    loop h i o

def serve (h : Handler) : IO Unit := do
  let i ← IO.getStdin
  let o ← IO.getStdout
  loop h i o

/-! small decoding helpers -/

def field (j : Json) (k : String) : Except String Json :=
  match j.getObjVal? k with
  | .ok v => .ok v
  | .error _ => .error s!"missing field {k}"

def fieldStr (j : Json) (k : String) : Except String String := do
  let v ← field j k
  match v with
  | .str s => .ok s
  | _ => .error s!"field {k}: expected string"

def fieldNat (j : Json) (k : String) : Except String Nat := do
  let v ← field j k
  match v.getNat? with
  | .ok n => .ok n
  | .error _ => .error s!"field {k}: expected nat"

def fieldInt (j : Json) (k : String) : Except String Int := do
  let v ← field j k
  match v.getInt? with
  | .ok n => .ok n
  | .error _ => .error s!"field {k}: expected int"

def fieldBool (j : Json) (k : String) : Except String Bool := do
  let v ← field j k
  match v with
  | .bool b => .ok b
  | _ => .error s!"field {k}: expected bool"

def fieldArr (j : Json) (k : String) : Except String (List Json) := do
  let v ← field j k
  match v with
  | .arr a => .ok a.toList
  | _ => .error s!"field {k}: expected array"

def asArr (j : Json) : Except String (List Json) :=
  match j with
  | .arr a => .ok a.toList
  | _ => .error "expected array"

def asStr (j : Json) : Except String String :=
  match j with
  | .str s => .ok s
  | _ => .error "expected string"

def asNat (j : Json) : Except String Nat :=
  match j.getNat? with
  | .ok n => .ok n
  | .error _ => .error "expected nat"

def asInt (j : Json) : Except String Int :=
  match j.getInt? with
  | .ok n => .ok n
  | .error _ => .error "expected int"

def natJ (n : Nat) : Json := Json.num (JsonNumber.fromNat n)
def intJ (n : Int) : Json := Json.num (JsonNumber.fromInt n)
def listJ (l : List Json) : Json := Json.arr l.toArray

end Adaptix.Protocol
