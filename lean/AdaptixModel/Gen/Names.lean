/-
  C19 — names inside generated code.

  * generated-name families: `prefix ++ field_id`
      loader_gen.py  GenState.v_field_loader / v_raw_field / v_field, `dfl_{field.id}`
      dumper_gen.py  BuiltinModelDumperGen._v_field / _v_dumper / _v_raw_field /
                     _v_accessor_getter / _v_trail_element / _v_access_error
  * fixed names: every identifier the templates spell out verbatim
  * heads: names the generators derive from a fixed basis and a path index
      (`Namer._with_path_suffix`, dumper `GenState._with_path_suffix`): `data_3`, `extra_2_set` …
  The concrete lists are NOT written here: the translator (extract/c19_sites.py)
  regenerates them from the source into `AdaptixModel/Generated/C19Sites.lean`.

  * `BuiltinCascadeNamespace` (code_tools/cascade_namespace.py) and
    `GenState.register_mangled` (conversion/broaching/code_generator.py,
    converter_provider.py `_register_mangled`)
  * `BuiltinNameSanitizer.sanitize` (code_tools/name_sanitizer.py)
  Lean core only.
-/
import AdaptixModel.Gen.Quote

namespace Adaptix.Gen

/-! ## name families -/

def comparable (a b : Str) : Bool := a.isPrefixOf b || b.isPrefixOf a

def pairwiseB {α : Type} (r : α → α → Bool) : List α → Bool
  | [] => true
  | a :: l => l.all (r a) && pairwiseB r l

structure NameSpec where
  /-- prefixes `p`; the generated name is `p ++ field_id` -/
  families : List Str
  /-- identifiers spelled out by the templates -/
  fixed : List Str
  /-- `h`; the generated name is `h ++ anything` (basis + "_" + path index …) -/
  heads : List Str

/-- The decidable separation condition checked on the extracted lists:
    family prefixes are pairwise prefix-incomparable, no fixed name and no builtin
    starts with a family prefix, no head is prefix-comparable with a family prefix. -/
def NameSpec.separated (builtins : List Str) (s : NameSpec) : Bool :=
  pairwiseB (fun p q => !comparable p q) s.families
  && s.families.all (fun p => s.fixed.all (fun n => !p.isPrefixOf n))
  && s.families.all (fun p => s.heads.all (fun h => !comparable p h))
  && s.families.all (fun p => builtins.all (fun b => !p.isPrefixOf b))

/-- no family prefix is a prefix of a keyword: `p ++ field_id` can then never be a keyword, whatever the id
    (every family of the generators ends in `_`, no keyword contains one). -/
def NameSpec.keywordFree (keywords : List Str) (s : NameSpec) : Bool :=
  s.families.all (fun p => keywords.all (fun k => !p.isPrefixOf k))

/-! ## BuiltinCascadeNamespace -/

structure Namespace where
  constants : List (Str × Nat) := []      -- name ↦ identity of the object
  outer : List (Str × Nat) := []
  occupied : List Str := []
  variables : List Str := []
  allowBuiltins : Bool := false

def lookupName (m : List (Str × Nat)) (n : Str) : Option Nat := (m.find? (fun e => e.1 == n)).map (·.2)

/-- `try_add_constant` -/
def Namespace.tryAddConstant (builtins : List Str) (ns : Namespace) (name : Str) (obj : Nat) : Bool × Namespace :=
  if ns.occupied.contains name || ns.variables.contains name || (lookupName ns.outer name).isSome
      || (builtins.contains name && !ns.allowBuiltins) then (false, ns)
  else match lookupName ns.constants name with
    | some o => (o == obj, ns)
    | none => (true, { ns with constants := ns.constants ++ [(name, obj)] })

/-- `try_add_outer_constant` -/
def Namespace.tryAddOuterConstant (builtins : List Str) (ns : Namespace) (name : Str) (obj : Nat) : Bool × Namespace :=
  if (lookupName ns.constants name).isSome || (builtins.contains name && !ns.allowBuiltins) then (false, ns)
  else match lookupName ns.outer name with
    | some o => (o == obj, ns)
    | none => (true, { ns with outer := ns.outer ++ [(name, obj)] })

/-- `try_register_var` -/
def Namespace.tryRegisterVar (builtins : List Str) (ns : Namespace) (name : Str) : Bool × Namespace :=
  if ns.occupied.contains name || (lookupName ns.constants name).isSome || ns.variables.contains name
      || (builtins.contains name && !ns.allowBuiltins) then (false, ns)
  else (true, { ns with variables := ns.variables ++ [name] })

/-- every name `try_add_constant` can refuse: parameters / own name, variables, outer constants, builtins and
    the constants already bound.  Finite — the reason why the `itertools.count` loop of `register_mangled` ends. -/
def Namespace.blockers (builtins : List Str) (ns : Namespace) : List Str :=
  ns.occupied ++ ns.variables ++ ns.outer.map (·.1) ++ builtins ++ ns.constants.map (·.1)

def decimal (n : Nat) : Str := (Nat.toDigits 10 n).map Char.toNat

/-- the `for i in itertools.count(1)` loop of `register_mangled`, bounded by fuel -/
def mangleLoop (builtins : List Str) (ns : Namespace) (base : Str) (obj : Nat) : Nat → Nat → Option (Str × Namespace)
  | 0, _ => none
  | fuel + 1, i =>
    let name := base ++ 95 :: decimal i
    match ns.tryAddConstant builtins name obj with
    | (true, ns') => some (name, ns')
    | (false, _) => mangleLoop builtins ns base obj fuel (i + 1)

/-- `register_mangled(base, obj)`; `base` is already sanitised (and non-empty: `sanitize(base) or "_"`). -/
def registerMangled (builtins : List Str) (ns : Namespace) (base : Str) (obj : Nat) (fuel : Nat) : Option (Str × Namespace) :=
  match ns.tryAddConstant builtins base obj with
  | (true, ns') => some (base, ns')
  | (false, _) => mangleLoop builtins ns base obj fuel 1

/-! ## BuiltinNameSanitizer -/

def isAsciiLetter (c : Nat) : Bool := (65 ≤ c && c ≤ 90) || (97 ≤ c && c ≤ 122)

/-- `_TRANSLATE_MAP`: "." and "[" become "_" -/
def translateChar (c : Nat) : Nat := if c = 46 ∨ c = 91 then 95 else c

/-- `keyword.kwlist` of CPython 3.12 (validated against the running interpreter by the harness) -/
def pyKeywords : List Str :=
  ["False", "None", "True", "and", "as", "assert", "async", "await", "break", "class", "continue",
   "def", "del", "elif", "else", "except", "finally", "for", "from", "global", "if", "import", "in",
   "is", "lambda", "nonlocal", "not", "or", "pass", "raise", "return", "try", "while", "with",
   "yield"].map (fun (s : String) => s.toList.map Char.toNat)

/-- `BuiltinNameSanitizer.sanitize`; `idCont c` is the oracle `("_" + chr(c)).isidentifier()`. -/
def sanitize (idCont : Nat → Bool) (keywords : List Str) (name : Str) : Str :=
  match name with
  | [] => []
  | c :: cs =>
    let r := (if isAsciiLetter c then c else 95) :: (cs.map translateChar).filter idCont
    if keywords.contains r then r ++ [95] else r

/-- `self._name_sanitizer.sanitize(x) or "_"` — how every caller turns arbitrary text (a function name given by
    the user, `stub.__name__`, `func.__name__` of a linked function, a `prefix_{n}` basis) into THE identifier that is
    pasted into the source: converter_provider.py `_make_converter` (`closure_name`, written after `def`) and
    `_register_mangled`; broaching/code_generator.py `GenState.register_mangled` (callee names). -/
def closureName (idCont : Nat → Bool) (keywords : List Str) (name : Str) : Str :=
  match sanitize idCont keywords name with
  | [] => [95]
  | r => r

/-- `register_mangled(base, obj)` as it is really called: `base` is raw text, sanitised first. -/
def registerMangledRaw (idCont : Nat → Bool) (keywords builtins : List Str) (ns : Namespace) (raw : Str) (obj : Nat)
    (fuel : Nat) : Option (Str × Namespace) :=
  registerMangled builtins ns (closureName idCont keywords raw) obj fuel

/-- shape of an identifier: ASCII letter or `_`, then identifier characters -/
def IdentShaped (idCont : Nat → Bool) : Str → Prop
  | [] => False
  | h :: t => (isAsciiLetter h = true ∨ h = 95) ∧ ∀ c ∈ t, idCont c = true

/-! ## interpolation sites (data regenerated by the translator) -/

/-- How the value interpolated at one site of a code template is produced. -/
inductive SiteClass
  | fixed          -- constant text of the generator itself
  | reprQuoted     -- `!r` / `repr(..)` of a key, name or literal: rendered by `pyRepr`
  | reprContainer  -- `str(list(path))`: a container whose elements are rendered by `repr`
  | literalExpr    -- result of `get_literal_expr` / `get_literal_from_factory` (repr-based renderer)
  | genName        -- member of a generated-name family or a path-suffixed generator variable
  | familyDef      -- `prefix_{field_id}`: the definition of a family member
  | fieldId        -- a field id (validated `str.isidentifier`) inside a comment line
  | guardedIdent   -- attribute name used verbatim under an `.isidentifier()` guard
  | kwargName      -- parameter name used as `name=` under a `can_be_keyword_arg_name` guard
  | paramName      -- name of an `inspect.Parameter` (validated identifier, not a keyword)
  | sanitised      -- output of `NameSanitizer.sanitize`
  | intIndex       -- an integer (index, length, path counter)
  | astNode        -- produced by `ast.unparse` from an AST built by the generator
  | fragment       -- code text assembled only from sites of the classes above
  | raw            -- anything else: user-controlled text pasted into code
  deriving DecidableEq, Repr

structure Site where
  file : String
  line : Nat
  func : String
  kind : String     -- fstring | template | concat | join | format
  conv : String     -- "r", "s", "a" or ""
  expr : String     -- source text of the interpolated expression
  cls : SiteClass
  /-- for `reprQuoted` sites inside a template: the template character before the site is
      neither an identifier character nor a quote (no `f'..'`/`b'..'` prefix, no implicit
      concatenation), and the character after it is not a quote (no `'''`). -/
  ctxOk : Bool
  deriving Repr

def Site.safe (s : Site) : Bool := s.cls != SiteClass.raw && s.ctxOk

end Adaptix.Gen
