/-
  C19 — Python string quoting as used by every `!r` interpolation of the code
  generators (loader_gen.py, dumper_gen.py, broaching/code_generator.py,
  converter_provider.py, code_tools/utils.py:get_literal_expr).

  * `pyRepr`    = CPython `unicode_repr` (Objects/unicodeobject.c), i.e. `repr(str)`.
  * `lexString` = lexing + unescaping of a plain (non-raw, non-f, non-bytes,
                  single-quoted) string literal as done by CPython's tokenizer and
                  `_PyUnicode_DecodeUnicodeEscapeInternal`.

  A Python `str` is modelled as the list of its code points (`Nat`, every element
  `< 0x110000`; lone surrogates are legal members of a Python str and therefore of
  the model).  `str.isprintable` of one non-ASCII character is a PARAMETER
  (`printable`): it is a table of the Unicode database of the running interpreter.
  Lean core only.
-/
namespace Adaptix.Gen

/-- A Python `str`: its code points. -/
abbrev Str := List Nat

/-- Well-formed Python string: every code point is below `0x110000`. -/
def Str.WF (s : Str) : Prop := ∀ c ∈ s, c < 0x110000

/-! ## `repr(str)` -/

/-- lowercase hex digit of `d < 16` (`Py_hexdigits`) -/
def hexDigit (d : Nat) : Nat := if d < 10 then 48 + d else 87 + d

def hex2 (c : Nat) : Str := [hexDigit (c / 16 % 16), hexDigit (c % 16)]

def hex4 (c : Nat) : Str :=
  [hexDigit (c / 4096 % 16), hexDigit (c / 256 % 16), hexDigit (c / 16 % 16), hexDigit (c % 16)]

def hex8 (c : Nat) : Str :=
  [hexDigit (c / 268435456 % 16), hexDigit (c / 16777216 % 16), hexDigit (c / 1048576 % 16),
   hexDigit (c / 65536 % 16), hexDigit (c / 4096 % 16), hexDigit (c / 256 % 16),
   hexDigit (c / 16 % 16), hexDigit (c % 16)]

/-- `unicode_repr`, the per-character part; `q` is the chosen quote character.
    Order of the tests as in CPython:  quote/backslash, `\t \n \r`, other C0 and DEL
    as `\xNN`, remaining ASCII verbatim, non-ASCII verbatim iff printable, otherwise
    `\xNN` / `\uNNNN` / `\UNNNNNNNN` by magnitude. -/
def escChar (printable : Nat → Bool) (q c : Nat) : Str :=
  if c = q ∨ c = 92 then [92, c]
  else if c = 9 then [92, 116]
  else if c = 10 then [92, 110]
  else if c = 13 then [92, 114]
  else if c < 32 ∨ c = 127 then 92 :: 120 :: hex2 c
  else if c < 127 then [c]
  else if printable c then [c]
  else if c ≤ 255 then 92 :: 120 :: hex2 c
  else if c ≤ 65535 then 92 :: 117 :: hex4 c
  else 92 :: 85 :: hex8 c

/-- `unicode_repr`, quote choice: `"` iff the string has a `'` and no `"`. -/
def chooseQuote (s : Str) : Nat := if s.contains 39 && !s.contains 34 then 34 else 39

def reprBody (printable : Nat → Bool) (q : Nat) (s : Str) : Str := s.flatMap (escChar printable q)

/-- `repr(s)` -/
def pyRepr (printable : Nat → Bool) (s : Str) : Str :=
  chooseQuote s :: (reprBody printable (chooseQuote s) s ++ [chooseQuote s])

/-! ## String-literal lexing -/

def hexVal (c : Nat) : Option Nat :=
  if 48 ≤ c ∧ c ≤ 57 then some (c - 48)
  else if 97 ≤ c ∧ c ≤ 102 then some (c - 87)
  else if 65 ≤ c ∧ c ≤ 70 then some (c - 55)
  else none

/-- exactly `n` hex digits, most significant first -/
def hexRun : Nat → Str → Option (Nat × Str)
  | 0, cs => some (0, cs)
  | _ + 1, [] => none
  | n + 1, c :: cs =>
    match hexVal c with
    | none => none
    | some d =>
      match hexRun n cs with
      | none => none
      | some (v, r) => some (d * 16 ^ n + v, r)

def octVal (c : Nat) : Option Nat := if 48 ≤ c ∧ c ≤ 55 then some (c - 48) else none

/-- up to two further octal digits after the first one (value `d0`) -/
def lexOctal (d0 : Nat) (cs : Str) : Nat × Str :=
  match cs with
  | [] => (d0, [])
  | c1 :: cs1 =>
    match octVal c1 with
    | none => (d0, cs)
    | some d1 =>
      match cs1 with
      | [] => (d0 * 8 + d1, [])
      | c2 :: cs2 =>
        match octVal c2 with
        | none => (d0 * 8 + d1, cs1)
        | some d2 => ((d0 * 8 + d1) * 8 + d2, cs2)

/-- One escape sequence, the input starting right after the backslash.  Result: the
    decoded characters and the remaining input; `none` = the literal is rejected by
    Python or is outside the model (`\N{name}` needs the Unicode name table). -/
def lexEscape : Str → Option (Str × Str)
  | [] => none
  | c :: cs =>
    if c = 10 then some ([], cs)              -- backslash-newline: line continuation
    else if c = 92 then some ([92], cs)
    else if c = 39 then some ([39], cs)
    else if c = 34 then some ([34], cs)
    else if c = 97 then some ([7], cs)
    else if c = 98 then some ([8], cs)
    else if c = 102 then some ([12], cs)
    else if c = 110 then some ([10], cs)
    else if c = 114 then some ([13], cs)
    else if c = 116 then some ([9], cs)
    else if c = 118 then some ([11], cs)
    else if c = 120 then
      match hexRun 2 cs with
      | none => none
      | some (v, r) => some ([v], r)
    else if c = 117 then
      match hexRun 4 cs with
      | none => none
      | some (v, r) => some ([v], r)
    else if c = 85 then
      match hexRun 8 cs with
      | none => none
      | some (v, r) => if v < 0x110000 then some ([v], r) else none
    else if c = 78 ∨ c = 0 ∨ c = 13 ∨ (0xD800 ≤ c ∧ c ≤ 0xDFFF) then none
    else
      match octVal c with
      | some d => some ([(lexOctal d cs).1], (lexOctal d cs).2)
      | none => some ([92, c], cs)           -- unknown escape: kept verbatim (SyntaxWarning only)

/-- Body of a literal delimited by `q`, fuel-indexed (one unit per decoded item).
    A raw newline, carriage return or NUL ends the literal with an error; a raw lone
    surrogate cannot occur in source text at all. -/
def lexBody (q : Nat) : Nat → Str → Option (Str × Str)
  | 0, _ => none
  | _ + 1, [] => none
  | f + 1, c :: cs =>
    if c = q then some ([], cs)
    else if c = 92 then
      match lexEscape cs with
      | none => none
      | some (out, cs') =>
        match lexBody q f cs' with
        | none => none
        | some (s, r) => some (out ++ s, r)
    else if c = 10 ∨ c = 13 ∨ c = 0 ∨ (0xD800 ≤ c ∧ c ≤ 0xDFFF) then none
    else
      match lexBody q f cs with
      | none => none
      | some (s, r) => some (c :: s, r)

/-- Lex one plain string literal at the head of the input: `(value, remaining input)`.
    Triple-quoted literals are outside the model (`none`); `repr` never produces them. -/
def lexString : Str → Option (Str × Str)
  | [] => none
  | q :: cs =>
    if q = 39 ∨ q = 34 then
      match cs with
      | a :: b :: _ => if a = q ∧ b = q then none else lexBody q cs.length cs
      | _ => lexBody q cs.length cs
    else none

end Adaptix.Gen
