/-
  C19 — token skeleton of generated code.

  The generators (loader_gen.py, dumper_gen.py, basic_gen.py, converter_provider.py;
  broaching/code_generator.py through `ast.unparse`) assemble source text from
    * fixed template text (keywords, fixed identifiers, punctuation, layout),
    * `!r`-quoted keys / names / literals              (`Piece.key`,   rendered by `pyRepr`),
    * generated names `prefix ++ field_id`             (`Piece.gname`),
    * integers (indices, lengths, path suffixes)       (`Piece.int`),
    * comments (`# suffix to path` header).
  `render` is the character-level text; `lexToks` is a tokenizer for the lexical
  fragment of Python these programs use (identifiers, integers, plain string
  literals, one-character operators, comments, NEWLINE with the indentation of the
  next line).  `skelTok` forgets what may depend on names and keys.
  The harness validates `lexToks` against CPython's `tokenize` on the real generated
  sources and checks that those sources decompose into well-formed pieces.
  Lean core only.
-/
import AdaptixModel.Gen.Quote
import AdaptixModel.Gen.Names

namespace Adaptix.Gen

inductive Tok
  | name (s : Str)
  | num (s : Str)
  | str (s : Str)
  | op (c : Nat)
  | nl (indent : Nat)
  | comment
  deriving DecidableEq, Repr

def isDigit (c : Nat) : Bool := 48 ≤ c && c ≤ 57
/-- CPython's tokenizer treats every non-ASCII character as a potential identifier character -/
def isIdStart (c : Nat) : Bool := isAsciiLetter c || c == 95 || 128 ≤ c
def isIdCont (c : Nat) : Bool := isIdStart c || isDigit c

/-- one-character operators / delimiters: ( ) [ ] { } : , . = + - * / % < > ! & | ^ ~ @ ; -/
def opChars : List Nat :=
  [40, 41, 91, 93, 123, 125, 58, 44, 46, 61, 43, 45, 42, 47, 37, 60, 62, 33, 38, 124, 94, 126, 64, 59]

def isOpChar (c : Nat) : Bool := opChars.contains c

/-- fuel-indexed tokenizer (one unit of fuel per token or skipped blank) -/
def lexToks : Nat → Str → Option (List Tok)
  | 0, _ => none
  | _ + 1, [] => some []
  | f + 1, c :: cs =>
    if c = 32 then lexToks f cs
    else if c = 10 then
      match lexToks f (cs.dropWhile (· == 32)) with
      | none => none
      | some ts => some (Tok.nl (cs.takeWhile (· == 32)).length :: ts)
    else if c = 35 then
      match lexToks f (cs.dropWhile (· != 10)) with
      | none => none
      | some ts => some (Tok.comment :: ts)
    else if c = 39 ∨ c = 34 then
      match lexString (c :: cs) with
      | none => none
      | some (s, rest) =>
        match lexToks f rest with
        | none => none
        | some ts => some (Tok.str s :: ts)
    else if isIdStart c then
      match lexToks f (cs.dropWhile isIdCont) with
      | none => none
      | some ts => some (Tok.name (c :: cs.takeWhile isIdCont) :: ts)
    else if isDigit c then
      match lexToks f (cs.dropWhile isIdCont) with
      | none => none
      | some ts => some (Tok.num (c :: cs.takeWhile isIdCont) :: ts)
    else if isOpChar c then
      match lexToks f cs with
      | none => none
      | some ts => some (Tok.op c :: ts)
    else none

def tokenize (s : Str) : Option (List Tok) := lexToks (s.length + 1) s

/-- How CPython's PARSER reads a NAME token: text listed in `keyword.kwlist` is a keyword and can never stand where
    a name is expected (`def class(` is a syntax error) — the tokenizer itself does not tell them apart. -/
def Tok.isKeyword (keywords : List Str) : Tok → Bool
  | .name w => keywords.contains w
  | _ => false

/-- `def {closure_name}(` — the head of every generated function definition
    (converter_provider.py `_produce_code`: `def {closure_name}{no_types_signature}:`;
    `str(Signature)` starts with "("). -/
def defHeader (cn : Str) : Str := [100, 101, 102, 32] ++ cn ++ [40]

/-- `{name}(` — a call of a registered function (`ast.Call(func=ast.Name(name), …)` unparsed). -/
def callHead (cn : Str) : Str := cn ++ [40]

/-! ## pieces -/

inductive Piece
  | op (c : Nat)
  | sp
  | nl (k : Nat)
  | word (w : Str)
  | gname (pre id : Str)
  | key (k : Str)
  | int (digits : Str)
  | comment (text : Str)
  deriving DecidableEq, Repr

def Piece.render (printable : Nat → Bool) : Piece → Str
  | .op c => [c]
  | .sp => [32]
  | .nl k => 10 :: List.replicate k 32
  | .word w => w
  | .gname p i => p ++ i
  | .key k => pyRepr printable k
  | .int d => d
  | .comment t => 35 :: t

def render (printable : Nat → Bool) (ps : List Piece) : Str := ps.flatMap (Piece.render printable)

def identLike (w : Str) : Prop :=
  match w with
  | [] => False
  | h :: t => isIdStart h = true ∧ ∀ c ∈ t, isIdCont c = true

/-- `identLike` as a check (for the extracted name tables) -/
def identLikeB : Str → Bool
  | [] => false
  | h :: t => isIdStart h && t.all isIdCont

/-- every family prefix, fixed name and head of a table is spelled like an identifier (a family `""` or `1_`
    would make `prefix ++ id` something else than one name) -/
def NameSpec.wellSpelled (s : NameSpec) : Bool :=
  s.families.all identLikeB && s.fixed.all identLikeB && s.heads.all identLikeB

/-- a single piece is well formed -/
def Piece.ok : Piece → Prop
  | .op c => isOpChar c = true
  | .sp => True
  | .nl _ => True
  | .word w => identLike w
  | .gname p i => identLike p ∧ ∀ c ∈ i, isIdCont c = true
  | .key k => Str.WF k
  | .int d => match d with
    | [] => False
    | h :: t => isDigit h = true ∧ ∀ c ∈ t, isDigit c = true
  | .comment t => ∀ c ∈ t, c ≠ 10

def Piece.isWordy : Piece → Bool
  | .word _ | .gname _ _ | .int _ => true
  | _ => false

def Piece.isKey : Piece → Bool
  | .key _ => true
  | _ => false

/-- adjacency: two identifier-like pieces need a separator, two string literals are never
    adjacent, a quoted key never directly follows an identifier-like piece (that is the position of a
    string PREFIX: `f'{…}'`, `rb'…'` are read by CPython as ONE prefixed literal whose contents are
    interpreted differently — the character-level lexer below does not model prefixes, so such
    texts are outside the well-formed fragment; it is the condition `Site.ctxOk` the translator
    checks on every `!r` site), a comment runs to the end of its line, indentation is part of `nl`. -/
def adjOk : Piece → Piece → Bool
  | a, b =>
    !(a.isWordy && b.isWordy) && !(a.isKey && b.isKey) && !(a.isWordy && b.isKey)
    && (match a, b with
        | .comment _, .nl _ => true
        | .comment _, _ => false
        | .nl _, .sp => false
        | _, _ => true)

def WFList : List Piece → Prop
  | [] => True
  | [a] => a.ok
  | a :: b :: t => a.ok ∧ adjOk a b = true ∧ WFList (b :: t)

def Piece.toTok : Piece → Option Tok
  | .op c => some (.op c)
  | .sp => none
  | .nl k => some (.nl k)
  | .word w => some (.name w)
  | .gname p i => some (.name (p ++ i))
  | .key k => some (.str k)
  | .int d => some (.num d)
  | .comment _ => some .comment

/-- `_parenthesize(parentheses, elements)` of code_tools/utils.py for elements that are strings
    (`parentheses[0] + ", ".join(map(repr, elements)) + parentheses[1]`): how `get_literal_expr` writes a list /
    tuple / set of keys (`known_keys = {'a', 'b'}` in the closure preamble, container defaults, trail elements). -/
def keySeqTail (close : Nat) : List Str → List Piece
  | [] => [.op close]
  | k :: t => .op 44 :: .sp :: .key k :: keySeqTail close t

def keySeq (opn close : Nat) : List Str → List Piece
  | [] => [.op opn, .op close]
  | k :: t => .op opn :: .key k :: keySeqTail close t

/-- the tokens such a literal must have: the bracket, the strings separated by single commas, the bracket -/
def keySeqToks (opn close : Nat) : List Str → List Tok
  | [] => [.op opn, .op close]
  | k :: t => .op opn :: .str k :: (t.flatMap (fun k' => [Tok.op 44, Tok.str k']) ++ [.op close])

/-! ## skeleton -/

inductive Skel
  | gen (pre : Str)      -- a generated name of family `pre`
  | fixed (w : Str)      -- a fixed identifier / keyword
  | num (d : Str)
  | str
  | op (c : Nat)
  | nl (indent : Nat)
  | comment
  deriving DecidableEq, Repr

def skelTok (fams : List Str) : Tok → Skel
  | .name w =>
    match fams.find? (fun p => p.isPrefixOf w) with
    | some p => .gen p
    | none => .fixed w
  | .num d => .num d
  | .str _ => .str
  | .op c => .op c
  | .nl k => .nl k
  | .comment => .comment

def skeleton (fams : List Str) (ts : List Tok) : List Skel := ts.map (skelTok fams)

/-- two pieces have the same shape: equal up to key contents, field ids and comment text -/
def sameShape : Piece → Piece → Prop
  | .op c, .op c' => c = c'
  | .sp, .sp => True
  | .nl k, .nl k' => k = k'
  | .word w, .word w' => w = w'
  | .gname p _, .gname p' _ => p = p'
  | .key _, .key _ => True
  | .int d, .int d' => d = d'
  | .comment _, .comment _ => True
  | _, _ => False

/-- two programs have the same shape: same length, piecewise same shape -/
def sameShapeList : List Piece → List Piece → Prop
  | [], [] => True
  | a :: t, b :: t' => sameShape a b ∧ sameShapeList t t'
  | _, _ => False

end Adaptix.Gen
