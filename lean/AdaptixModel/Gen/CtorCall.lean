/-
  C19 — the constructor call of a generated model loader.

  `BuiltinModelLoaderGen._gen_constructor_call` (morphing/model/loader_gen.py) writes

      constructor(
          f_a,                      positional parameter
          name=f_b,                 keyword: the parameter NAME is pasted as a token ...
          **{'class': f_c},         ... or passed as data when it can not be written as one
          **packed_fields,
          **extra_1,
      )

  A parameter (`Param(field_id, name, kind)` of the InputShape) has a name of its own: for a pydantic
  field with an alias, an attrs private attribute or a hand-made shape it is NOT the field id.  The legal
  domain of `name` is `str.isidentifier()` (Param._validate) — keywords and identifiers the parser
  rewrites (NFKC) included.  The decision "token or data" is `can_be_keyword_arg_name(param.name)`
  (code_tools/utils.py); the same decision is taken for converters in
  conversion/broaching/code_generator.py `_gen_function_call` on `arg.key` (= `param.name`,
  model_coercer_provider.py `_make_constructor_call`).

  `idStart` / `idCont` (`str.isidentifier` of one character at the head / inside a name) and `nfkc`
  (`unicodedata.normalize("NFKC", ·)`) are oracle parameters: tables of the interpreter's Unicode database.
  Lean core only.
-/
import AdaptixModel.Gen.Skeleton

namespace Adaptix.Gen

/-- `ParamKind` of model_tools/definitions.py -/
inductive PKind
  | posOnly | posOrKw | kwOnly
  deriving DecidableEq, Repr

/-- one `Param` of the input shape together with what the generator knows about its field -/
structure CParam where
  fieldId : Str
  name : Str
  kind : PKind
  /-- `field.id in self._skipped_fields or self._is_packed_field(field)`: no argument is written for it -/
  leftOut : Bool
  deriving Repr

/-- `str.isidentifier()`: the head is `_` or XID_Start, every other character XID_Continue -/
def isIdentifier (idStart idCont : Nat → Bool) : Str → Bool
  | [] => false
  | h :: t => idStart h && t.all idCont

/-- `can_be_keyword_arg_name(name)` of code_tools/utils.py:
    `name.isidentifier() and not keyword.iskeyword(name) and unicodedata.normalize("NFKC", name) == name` -/
def canBeKeywordArgName (idStart idCont : Nat → Bool) (keywords : List Str) (nfkc : Str → Str) (name : Str) : Bool :=
  isIdentifier idStart idCont name && !keywords.contains name && nfkc name == name

/-- `f_` — `GenState.v_field(field)` is `f_{field.id}` -/
def fieldVarPrefix : Str := [102, 95]

def constructorWord : Str := "constructor".toList.map Char.toNat
def packedFieldsWord : Str := "packed_fields".toList.map Char.toNat

/-- one argument line.  `byKw` is `param.kind == ParamKind.KW_ONLY or has_skipped_params`;
    `canKw` is the decision taken on the parameter name. -/
def ctorArg (canKw : Str → Bool) (ind : Nat) (byKw : Bool) (p : CParam) : List Piece :=
  if byKw then
    if canKw p.name then
      -- f"{param.name}={value},"
      [.nl ind, .word p.name, .op 61, .gname fieldVarPrefix p.fieldId, .op 44]
    else
      -- f"**{{{param.name!r}: {value}}},"
      [.nl ind, .op 42, .op 42, .op 123, .key p.name, .op 58, .sp, .gname fieldVarPrefix p.fieldId, .op 125, .op 44]
  else
    -- f"{value},"
    [.nl ind, .gname fieldVarPrefix p.fieldId, .op 44]

/-- the `for param in self._shape.params` loop; the Bool is `has_skipped_params`.
    (The branch `elif param.kind == ParamKind.POS_ONLY and has_skipped_params: raise ValueError` of the source
    can never be taken: `has_skipped_params` alone already selects the first branch.  Modelled as it is.) -/
def ctorArgs (canKw : Str → Bool) (ind : Nat) : Bool → List CParam → List Piece
  | _, [] => []
  | gap, p :: ps =>
    if p.leftOut then ctorArgs canKw ind true ps
    else ctorArg canKw ind (p.kind == .kwOnly || gap) p ++ ctorArgs canKw ind gap ps

/-- `**packed_fields,` and `**{state.v_extra},` and the closing parenthesis -/
def ctorTail (ind : Nat) (hasPacked : Bool) (extra : Option Str) : List Piece :=
  (if hasPacked then [.nl (ind + 4), .op 42, .op 42, .word packedFieldsWord, .op 44] else [])
  ++ (match extra with
      | some v => [.nl (ind + 4), .op 42, .op 42, .word v, .op 44]
      | none => [])
  ++ [.nl ind, .op 41]

/-- `constructor(` … `)`; `ind` is the indentation of the statement the call belongs to -/
def ctorCall (canKw : Str → Bool) (ind : Nat) (hasPacked : Bool) (extra : Option Str) (ps : List CParam) : List Piece :=
  .word constructorWord :: .op 40 :: (ctorArgs canKw (ind + 4) false ps ++ ctorTail ind hasPacked extra)

/-! ## what a call delivers (the parser's reading of the tokens) -/

/-- one element of a call as the callee sees it -/
inductive Arg
  | pos (value : Str)               -- a positional argument (the variable that is passed)
  | kw (key : Str) (value : Str)    -- the callee receives `value` under exactly the key `key`
  | unpack (mapping : Str)          -- `**mapping`
  deriving DecidableEq, Repr

/-- The argument list up to the closing parenthesis, read the way CPython's parser reads it:
    * `NAME = NAME ,`            a keyword argument — a syntax error when NAME is a keyword, and the key the callee
                                 receives is the NFKC-normalised identifier (PEP 3131), not the text of the token;
    * `** { STRING : NAME } ,`   the key is the value of the string literal, untouched;
    * `NAME ,`  /  `** NAME ,`   positional / unpacked mapping.
    Newlines inside the parentheses are insignificant (removed by the caller).  Everything else is outside the
    fragment (`none`).  The ordering rules of the grammar (no positional argument after a keyword) are not modelled. -/
def parseArgs (keywords : List Str) (nfkc : Str → Str) : List Tok → Option (List Arg)
  | [.op 41] => some []
  | .name v :: .op 44 :: rest => (parseArgs keywords nfkc rest).map (Arg.pos v :: ·)
  | .name k :: .op 61 :: .name v :: .op 44 :: rest =>
    if keywords.contains k then none else (parseArgs keywords nfkc rest).map (Arg.kw (nfkc k) v :: ·)
  | .op 42 :: .op 42 :: .op 123 :: .str s :: .op 58 :: .name v :: .op 125 :: .op 44 :: rest =>
    (parseArgs keywords nfkc rest).map (Arg.kw s v :: ·)
  | .op 42 :: .op 42 :: .name v :: .op 44 :: rest => (parseArgs keywords nfkc rest).map (Arg.unpack v :: ·)
  | _ => none

def Tok.isNl : Tok → Bool
  | .nl _ => true
  | _ => false

/-- `NAME (` arguments `)`: the callee and what it receives -/
def parseCall (keywords : List Str) (nfkc : Str → Str) (ts : List Tok) : Option (Str × List Arg) :=
  match ts.filter (fun t => !t.isNl) with
  | .name f :: .op 40 :: rest => (parseArgs keywords nfkc rest).map (fun as => (f, as))
  | _ => none

/-! ## the call plan the shape asks for (spec side: no decision about spelling in it) -/

/-- every parameter that is not left out receives the variable of ITS field: by position while that is possible,
    under exactly its own name otherwise (keyword-only, or some earlier parameter was left out) -/
def expectedArgs : Bool → List CParam → List Arg
  | _, [] => []
  | gap, p :: ps =>
    if p.leftOut then expectedArgs true ps
    else (if p.kind == .kwOnly || gap then Arg.kw p.name (fieldVarPrefix ++ p.fieldId)
          else Arg.pos (fieldVarPrefix ++ p.fieldId)) :: expectedArgs gap ps

def expectedTail (hasPacked : Bool) (extra : Option Str) : List Arg :=
  (if hasPacked then [Arg.unpack packedFieldsWord] else [])
  ++ (match extra with
      | some v => [Arg.unpack v]
      | none => [])

end Adaptix.Gen
