/-
  C19 — how the converter (broaching) code generator allocates the names of the objects its body refers to.

  conversion/broaching/code_generator.py
    * `GenState`                       namespace + one counter per prefix
    * `GenState.register_next_id`      `prefix_<counter>`, then `register_mangled` (the numbered name is only a BASIS:
                                       when it is taken — e.g. by a user function that is called `constant_0` — the
                                       mangling loop moves on to `constant_0_1`)
    * `GenState.register_mangled`      `Names.lean: registerMangledRaw`
    * `BuiltinBroachingCodeGenerator._gen_plan_element_dispatch` and the four `_gen_*_element` methods: the ORDER in
      which a broaching plan asks for names (`planRegs`): a function element registers its own name first and its
      arguments afterwards, left to right; an accessor element its target first
  Every piece of text in here that comes from the user (`func.__name__`, the `__name__` of the destination model) is an
  arbitrary string.  Lean core only.
-/
import AdaptixModel.Gen.Names

namespace Adaptix.Gen

/-- `GenState`: the namespace and `_prefix_counter` (a `defaultdict(lambda: 0)`) -/
structure GenSt where
  ns : Namespace
  counters : List (Str × Nat) := []

/-- `self._prefix_counter[prefix]` -/
def counterOf (cs : List (Str × Nat)) (p : Str) : Nat := (lookupName cs p).getD 0

/-- `self._prefix_counter[prefix] += 1` -/
def bumpCounter : List (Str × Nat) → Str → List (Str × Nat)
  | [], p => [(p, 1)]
  | (q, n) :: t, p => if q == p then (q, n + 1) :: t else (q, n) :: bumpCounter t p

/-- `f"{prefix}_{number}"` -/
def nextIdBase (pre : Str) (number : Nat) : Str := pre ++ 95 :: decimal number

/-- `GenState.register_next_id(prefix, obj)` -/
def registerNextId (idCont : Nat → Bool) (keywords builtins : List Str) (st : GenSt) (pre : Str) (obj fuel : Nat) :
    Option (Str × GenSt) :=
  let number := counterOf st.counters pre
  let counters := bumpCounter st.counters pre
  (registerMangledRaw idCont keywords builtins st.ns (nextIdBase pre number) obj fuel).map
    (fun r => (r.1, { ns := r.2, counters := counters }))

/-- one request for a name -/
inductive Reg
  /-- `register_mangled(func.__name__, func)`: `raw` is user text -/
  | mangled (raw : Str) (obj : Nat)
  /-- `register_next_id(prefix, obj)` -/
  | nextId (pre : Str) (obj : Nat)
  deriving Repr, DecidableEq

def Reg.obj : Reg → Nat
  | .mangled _ o => o
  | .nextId _ o => o

def regStep (idCont : Nat → Bool) (keywords builtins : List Str) (st : GenSt) (r : Reg) (fuel : Nat) :
    Option (Str × GenSt) :=
  match r with
  | .mangled raw obj =>
    (registerMangledRaw idCont keywords builtins st.ns raw obj fuel).map (fun x => (x.1, { st with ns := x.2 }))
  | .nextId pre obj => registerNextId idCont keywords builtins st pre obj fuel

/-- the requests of one generated function, served in order; the names handed out, in the same order -/
def allocNames (idCont : Nat → Bool) (keywords builtins : List Str) : List Reg → GenSt → Nat → Option (List Str × GenSt)
  | [], st, _ => some ([], st)
  | r :: rs, st, fuel =>
    match regStep idCont keywords builtins st r fuel with
    | none => none
    | some (n, st1) =>
      match allocNames idCont keywords builtins rs st1 fuel with
      | none => none
      | some (ns, st2) => some (n :: ns, st2)

/-! ## the broaching plan: which names are asked for, in which order -/

def constantPrefix : Str := [99, 111, 110, 115, 116, 97, 110, 116]       -- "constant"
def funcPrefix : Str := [102, 117, 110, 99]                              -- "func"
def accessorPrefix : Str := [97, 99, 99, 101, 115, 115, 111, 114]        -- "accessor"

/-- the prefixes `register_next_id` is called with, in source order (compared with the list the translator reads
    from code_generator.py: `next_id_prefixes_modelled`) -/
def modelledNextIdPrefixes : List Str := [constantPrefix, funcPrefix, accessorPrefix]

/-- `BroachingPlan`, reduced to what decides names.
    * `const literal obj`: `ConstantElement`; `literal` = `get_literal_expr(value) is not None`
    * `func transparent literalFactory name obj args`: `FunctionElement`;
        `transparent` = the `as_is_stub` / `as_is_stub_with_ctx` shapes (only the first argument is generated),
        `literalFactory` = `not args and get_literal_from_factory(func) is not None`,
        `name` = `getattr(func, "__name__", None)`
    * `accessor custom target`: `AccessorElement`; `custom = some getter` for an accessor that is neither a
        `DescriptorAccessor` nor an `ItemAccessor` -/
inductive Plan
  | param (name : Str)
  | const (literal : Bool) (obj : Nat)
  | func (transparent literalFactory : Bool) (name : Option Str) (obj : Nat) (args : List Plan)
  | accessor (custom : Option Nat) (target : Plan)

mutual
/-- `_gen_plan_element_dispatch`: the requests in the order the generator makes them -/
def planRegs : Plan → List Reg
  | .param _ => []
  | .const literal obj => if literal then [] else [.nextId constantPrefix obj]
  | .func transparent literalFactory name obj args =>
    if transparent then planRegsHead args
    else if literalFactory then []
    else (match name with
          | some raw => Reg.mangled raw obj
          | none => Reg.nextId funcPrefix obj) :: planRegsList args
  | .accessor custom target =>
    planRegs target ++ (match custom with
                        | some getter => [Reg.nextId accessorPrefix getter]
                        | none => [])
/-- `_gen_function_call`: the arguments left to right -/
def planRegsList : List Plan → List Reg
  | [] => []
  | a :: t => planRegs a ++ planRegsList t
/-- the `as_is_stub` shapes: `self._gen_plan_element_dispatch(state, element.args[0].element)` -/
def planRegsHead : List Plan → List Reg
  | [] => []
  | a :: _ => planRegs a
end

/-- `produce_code`: the namespace starts with the parameters and the function's own name occupied and the signature
    variable as an outer constant; the body then asks for its names -/
def planNames (idCont : Nat → Bool) (keywords builtins : List Str) (occupied : List Str) (outer : List (Str × Nat))
    (plan : Plan) (fuel : Nat) : Option (List Str × GenSt) :=
  allocNames idCont keywords builtins (planRegs plan) { ns := { occupied := occupied, outer := outer } } fuel

end Adaptix.Gen
