/-!
# The literal renderer (`code_tools/utils.py`: `get_literal_expr`, `_get_complex_literal_expr`)

Defaults of fields, the values compared by `omit_default` sieves and the constants of converters are written into
the generated function as *source text* when `get_literal_expr` finds a literal form, and are captured as namespace
constants when it answers `None`.  The function is pure; this file follows it branch by branch on an abstract
Python value and produces the *expression tree* of the text (the harness parses the real text with `ast.parse` and
compares trees, so the quoting rules of `repr` stay outside the model).

Core Lean only.
-/
namespace Adaptix.Gen.Literal

abbrev Str := List Nat

/-- values `get_literal_expr` renders with `repr`: `type(obj) in (int, str, bytes)` and finite floats (by their repr) -/
inductive Leaf where
  | int (n : Int)
  | str (s : Str)
  | bytes (b : List Nat)
  | float (repr : Str)
  deriving DecidableEq, Repr, Inhabited

/-- A Python object as far as the renderer can tell objects apart. -/
inductive PyVal where
  | leaf (l : Leaf)
  | bytearray (b : List Nat)
  | nonfinite                       -- float inf / -inf / nan
  | builtin (name : Str)            -- the object IS `builtins.<name>` (None, True, int, len, ValueError ...)
  | opaque (tag : Nat)              -- any other object: Decimal, date, Enum member, instance of a subclass of int / list ...
  | list (xs : List PyVal)
  | tuple (xs : List PyVal)
  | set (xs : List PyVal)           -- elements in the order `_try_sort` yields them
  | frozenset (xs : List PyVal)
  | slice (a b c : PyVal)
  | range (a b c : Int)
  | dict (ks vs : List PyVal)       -- keys and values in insertion order (equal lengths)
  deriving Repr, Inhabited

/-- the only callables a rendered literal ever applies -/
inductive Ctor where
  | set | frozenset | slice | range | bytearray
  deriving DecidableEq, Repr, Inhabited

/-- expression tree of the rendered text (`ast.parse(text, mode="eval")`, a negative number folded into its constant) -/
inductive Expr where
  | const (l : Leaf)
  | name (id : Str)
  | list (es : List Expr)
  | tuple (es : List Expr)
  | set (es : List Expr)
  | dict (ks vs : List Expr)
  | call (f : Ctor) (args : List Expr)
  deriving Repr, Inhabited

mutual
/-- `get_literal_expr`: `none` = no literal form (the caller captures the object as a constant) -/
def toExpr : PyVal → Option Expr
  | .leaf l => some (.const l)
  | .bytearray b => some (.call .bytearray [.const (.bytes b)])
  | .nonfinite => none
  | .builtin n => some (.name n)
  | .opaque _ => none
  | .list xs => (toExprs xs).map .list
  | .tuple xs => (toExprs xs).map .tuple
  | .set xs =>
    match xs with
    | [] => some (.call .set [])
    | _ :: _ => (toExprs xs).map .set
  | .frozenset xs =>
    match xs with
    | [] => some (.call .frozenset [])
    | _ :: _ => (toExprs xs).map (fun es => .call .frozenset [.set es])
  | .slice a b c =>
    match toExpr a, toExpr b, toExpr c with
    | some a', some b', some c' => some (.call .slice [a', b', c'])
    | _, _, _ => none
  | .range a b c => some (.call .range [.const (.int a), .const (.int b), .const (.int c)])
  | .dict ks vs =>
    match toExprs ks, toExprs vs with
    | some ks', some vs' => some (.dict ks' vs')
    | _, _ => none
/-- `_parenthesize`: every element must have a literal form (`_provide_lit_expr` raises otherwise) -/
def toExprs : List PyVal → Option (List Expr)
  | [] => some []
  | x :: xs =>
    match toExpr x, toExprs xs with
    | some e, some es => some (e :: es)
    | _, _ => none
end

/-- what Python's `set()`, `frozenset(...)`, `slice(...)`, `range(...)`, `bytearray(...)` build from evaluated arguments -/
def applyCtor : Ctor → List PyVal → PyVal
  | .set, [] => .set []
  | .frozenset, [] => .frozenset []
  | .frozenset, [.set xs] => .frozenset xs
  | .slice, [a, b, c] => .slice a b c
  | .range, [.leaf (.int a), .leaf (.int b), .leaf (.int c)] => .range a b c
  | .bytearray, [.leaf (.bytes b)] => .bytearray b
  | _, _ => .opaque 0

mutual
/-- evaluation of an expression tree in a scope where every builtin name denotes its builtin -/
def eval : Expr → PyVal
  | .const l => .leaf l
  | .name n => .builtin n
  | .list es => .list (evals es)
  | .tuple es => .tuple (evals es)
  | .set es => .set (evals es)
  | .dict ks vs => .dict (evals ks) (evals vs)
  | .call f args => applyCtor f (evals args)
def evals : List Expr → List PyVal
  | [] => []
  | e :: es => eval e :: evals es
end

mutual
/-- does the object consist of renderable leaves only? (the specification of "has a literal form") -/
def renderable : PyVal → Bool
  | .leaf _ => true
  | .bytearray _ => true
  | .nonfinite => false
  | .builtin _ => true
  | .opaque _ => false
  | .list xs => renderables xs
  | .tuple xs => renderables xs
  | .set xs => renderables xs
  | .frozenset xs => renderables xs
  | .slice a b c => renderable a && renderable b && renderable c
  | .range _ _ _ => true
  | .dict ks vs => renderables ks && renderables vs
def renderables : List PyVal → Bool
  | [] => true
  | x :: xs => renderable x && renderables xs
end

mutual
/-- builtin names an expression mentions -/
def Expr.names : Expr → List Str
  | .const _ => []
  | .name n => [n]
  | .list es => Expr.namesL es
  | .tuple es => Expr.namesL es
  | .set es => Expr.namesL es
  | .dict ks vs => Expr.namesL ks ++ Expr.namesL vs
  | .call _ args => Expr.namesL args
def Expr.namesL : List Expr → List Str
  | [] => []
  | e :: es => e.names ++ Expr.namesL es
end

mutual
/-- builtin objects a value contains -/
def PyVal.builtins : PyVal → List Str
  | .builtin n => [n]
  | .list xs => PyVal.builtinsL xs
  | .tuple xs => PyVal.builtinsL xs
  | .set xs => PyVal.builtinsL xs
  | .frozenset xs => PyVal.builtinsL xs
  | .slice a b c => a.builtins ++ b.builtins ++ c.builtins
  | .dict ks vs => PyVal.builtinsL ks ++ PyVal.builtinsL vs
  | _ => []
def PyVal.builtinsL : List PyVal → List Str
  | [] => []
  | x :: xs => x.builtins ++ PyVal.builtinsL xs
end

end Adaptix.Gen.Literal
