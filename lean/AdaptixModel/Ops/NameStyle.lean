/-
  JSON op of the name-style model (wired into the C03 driver).
    {"op":"ns_convert", "name":[code points], "style":"camel_Snake" | …}
        -> {"r":"ok","s":[…]} | {"r":"notSnake"} | {"r":"noMatch"}
-/
import AdaptixModel.Protocol
import AdaptixModel.Layout.NameStyle

namespace Adaptix.Ops.NameStyle
open Lean Adaptix.Protocol Adaptix.Layout.NameStyle

def styleOf : String → Except String Style
  | "lower_snake" => .ok .lowerSnake | "camel_Snake" => .ok .camelSnake
  | "Pascal_Snake" => .ok .pascalSnake | "UPPER_SNAKE" => .ok .upperSnake
  | "lower-kebab" => .ok .lowerKebab | "camel-Kebab" => .ok .camelKebab
  | "Pascal-Kebab" => .ok .pascalKebab | "UPPER-KEBAB" => .ok .upperKebab
  | "lowercase" => .ok .lower | "camelCase" => .ok .camel
  | "PascalCase" => .ok .pascal | "UPPERCASE" => .ok .upper
  | "lower.dot" => .ok .lowerDot | "camel.Dot" => .ok .camelDot
  | "Pascal.Dot" => .ok .pascalDot | "UPPER.DOT" => .ok .upperDot
  | s => .error s!"unknown style {s}"

def handle (j : Json) : Except String Json := do
  let v ← field j "name"
  let name ← match v with
    | .arr xs => xs.toList.mapM fun x => match x.getNat? with
        | .ok n => .ok n
        | .error _ => .error "name: expected naturals"
    | _ => .error "name: expected array"
  let st ← styleOf (← fieldStr j "style")
  match convert name st with
  | .ok s => return Json.mkObj [("r", "ok"), ("s", Json.arr (s.map (fun n => Json.num (JsonNumber.fromNat n))).toArray)]
  | .notSnake => return Json.mkObj [("r", "notSnake")]
  | .noMatch => return Json.mkObj [("r", "noMatch")]

end Adaptix.Ops.NameStyle
