/-
  JSON ops of C20 (allocation provenance).  Not an executable of its own: the coordinator wires
  `Adaptix.Ops.C20.handle` into the morph driver.

    {"op":"load_prov", "trail":…, "strict":…, "ty":…, "datum":…, "classes":…, "sites":…,
     "fuel":…, "default_prov": {"Cls.field": "fresh" | "const", …}}
    {"op":"dump_prov", … "value":…, "dumps":…, "mros":…, "supers":…}
        -> {"r":"ok","v":<ptree>} | {"r":"err","e":…} | {"r":"escape","exc":…} | {"r":"diverge"}
    {"op":"load_alloc" | "dump_alloc", …, "start": n}
        -> {"r":"ok","v":<atree>,"next":n'} | …

  <ptree> is the value encoding of Ops/Morph.lean with the provenance letter inserted as second
  array element: "f" (fresh) | "a" (argument) | "c" (retort / class constant), e.g.
  ["l","f",[["i","a","1"]]].  In an <atree> a fresh node carries its allocation id (a number)
  instead of "f".  A default not listed in "default_prov" is `fresh`.
-/
import AdaptixModel.Ops.Morph
import AdaptixModel.Morph.Prov

namespace Adaptix.Ops.C20
open Lean Adaptix.Protocol Adaptix.Py Adaptix.Morph Adaptix.Ops.Morph

def provJ : Prov → Json
  | .fresh => Json.str "f"
  | .arg => Json.str "a"
  | .const => Json.str "c"

/-- a node given its annotation (already JSON) and its encoded children -/
def encNode (ann : Json) (sh : Shape) (ks : List Json) : Json :=
  match sh with
  | .none => listJ ["n", ann]
  | .bool b => listJ ["b", ann, Json.bool b]
  | .int i => listJ ["i", ann, encInt i]
  | .float .nan => listJ ["f", ann, "nan"]
  | .float (.inf false) => listJ ["f", ann, "inf"]
  | .float (.inf true) => listJ ["f", ann, "-inf"]
  | .float .negZero => listJ ["f", ann, "-0"]
  | .float (.fin m e) => listJ ["f", ann, encInt m, encInt e]
  | .str s => listJ ["s", ann, Json.str s]
  | .bytes b => listJ ["y", ann, listJ (b.map natJ)]
  | .bytearray b => listJ ["Y", ann, listJ (b.map natJ)]
  | .list => listJ ["l", ann, listJ ks]
  | .tuple => listJ ["t", ann, listJ ks]
  | .set => listJ ["S", ann, listJ ks]
  | .frozenset => listJ ["F", ann, listJ ks]
  | .deque => listJ ["q", ann, listJ ks]
  | .iter => listJ ["it", ann, listJ ks]
  | .dict => listJ ["d", ann, listJ ((pairUp ks).map fun (k, v) => listJ [k, v])]
  | .obj c names => listJ ["o", ann, Json.str c, listJ ((names.zip ks).map fun (n, v) => listJ [Json.str n, v])]
  | .atom k t => listJ ["a", ann, Json.str k, Json.str t]
  | .opaque t => listJ ["x", ann, Json.str t]

partial def encPVal : PVal → Json
  | .node p sh ks => encNode (provJ p) sh (ks.map encPVal)

partial def encAVal : AVal → Json
  | .node p i sh ks =>
    encNode (match i with | some n => natJ n | none => provJ p) sh (ks.map encAVal)

def encOutcomeWith {α : Type} (enc : α → List (String × Json)) : Outcome α → Json
  | .ok v => Json.mkObj (("r", "ok") :: enc v)
  | .err e => Json.mkObj [("r", "err"), ("e", encErr e)]
  | .escape x => Json.mkObj [("r", "escape"), ("exc", Json.str x)]
  | .diverge => Json.mkObj [("r", "diverge")]

def decProv : String → Except String Prov
  | "fresh" => .ok .fresh
  | "const" => .ok .const
  | s => .error s!"bad default provenance {s}"

def handle : Protocol.Handler := fun j => do
  let op ← fieldStr j "op"
  let cfg : Cfg := { trail := ← decTrail (← fieldStr j "trail"), strict := ← fieldBool j "strict" }
  let ty ← decTy (← field j "ty")
  let fuel ← (fieldNat j "fuel" <|> pure 64)
  let classes ← (do
      match (← field j "classes") with
      | .obj kvs => kvs.toList.mapM fun (k, v) => do return (k, ← (← asArr v).mapM decField)
      | _ => throw "classes: expected object") <|> pure []
  let siteRows ← (do (← fieldArr j "sites").mapM decSiteRow) <|> pure []
  let dumpRows ← (do (← fieldArr j "dumps").mapM decDumpRow) <|> pure []
  let mros ← (do
      match (← field j "mros") with
      | .obj kvs => kvs.toList.mapM fun (k, v) => do return (k, ← (← asArr v).mapM asStr)
      | _ => throw "mros: expected object") <|> pure []
  let W : World := {
    classes := fun c => (classes.find? (fun p => p.1 == c)).map (·.2),
    scalarLoad := scalarLoad siteRows [], scalarDump := scalarDump dumpRows }
  let supers ← (do
      match (← field j "supers") with
      | .obj kvs => kvs.toList.mapM fun (k, v) => do return (k, ← (← asArr v).mapM asStr)
      | _ => throw "supers: expected object") <|> pure []
  let clsOf (x : Val) : String := match x with | .obj c _ => c | v => v.tag
  let DW : DumpWorld := {
    mro := pyMro mros,
    supers := fun x => match supers.find? (fun p => p.1 == clsOf x) with | some p => p.2 | none => [] }
  let dprov ← match j.getObjVal? "default_prov" with
    | .ok (.obj kvs) => kvs.toList.mapM fun (k, v) => do return (k, ← decProv (← asStr v))
    | .ok _ => throw "default_prov: expected object"
    | .error _ => pure []
  let dp (cls fld : String) : Prov :=
    match dprov.find? (fun p => p.1 == cls ++ "." ++ fld) with
    | some p => p.2
    | none => .fresh
  let start ← (fieldNat j "start" <|> pure 0)
  let encP (p : PVal) : List (String × Json) := [("v", encPVal p)]
  let encA (r : AVal × Nat) : List (String × Json) := [("v", encAVal r.1), ("next", natJ r.2)]
  match op with
  | "load_prov" =>
    return encOutcomeWith encP (loadP W cfg dp fuel ty (← decVal (← field j "datum")))
  | "dump_prov" =>
    return encOutcomeWith encP (dumpP W DW cfg fuel ty (← decVal (← field j "value")))
  | "load_alloc" =>
    return encOutcomeWith encA (loadA W cfg dp start fuel ty (← decVal (← field j "datum")))
  | "dump_alloc" =>
    return encOutcomeWith encA (dumpA W DW cfg start fuel ty (← decVal (← field j "value")))
  | _ => throw s!"unknown op {op}"

end Adaptix.Ops.C20
