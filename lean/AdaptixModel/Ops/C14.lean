import AdaptixModel.Protocol
import AdaptixModel.Conv.CoerceSpec
import AdaptixModel.Conv.Hierarchy

namespace Adaptix.Ops.C14
open Lean Adaptix.Protocol Adaptix.Conv

partial def decTy (j : Json) : Except String Ty := do
  let t ← fieldStr j "t"
  match t with
  | "any" => return .any
  | "none" => return .none
  | "cls" => return .cls (← fieldNat j "c") (← (← fieldArr j "a").mapM decTy)
  | "opq" => return .opaque (← fieldNat j "n")
  | "iter" =>
    let kn ← fieldStr j "k"
    match IterKind.ofName kn with
    | some k => return .iter k (← decTy (← field j "e"))
    | none => throw s!"unknown iterable origin {kn}"
  | "ftuple" => return .ftuple (← (← fieldArr j "es").mapM decTy)
  | "map" =>
    let kn ← fieldStr j "k"
    match MapKind.ofName kn with
    | some k => return .map k (← decTy (← field j "key")) (← decTy (← field j "val"))
    | none => throw s!"unknown mapping origin {kn}"
  | "union" => return .union (← (← fieldArr j "a").mapM decTy)
  | "tag" => return .tagged (← fieldNat j "m") (← decTy (← field j "e"))
  | _ => throw s!"bad type node {t}"

partial def decVal (j : Json) : Except String Val := do
  let t ← fieldStr j "v"
  match t with
  | "none" => return .none
  | "atom" => return .atom (← fieldNat j "c") (← fieldInt j "p")
  | "seq" =>
    let kn ← fieldStr j "k"
    match Conc.ofName kn with
    | some k => return .seq k (← (← fieldArr j "xs").mapM decVal)
    | none => throw s!"unknown container {kn}"
  | "dict" =>
    let kvs ← (← fieldArr j "kv").mapM fun p => do
      match ← asArr p with
      | [k, v] => return (← decVal k, ← decVal v)
      | _ => throw "bad dict item"
    return .dict kvs
  | "obj" =>
    let fs ← (← fieldArr j "f").mapM fun p => do
      match ← asArr p with
      | [n, v] => return (← asNat n, ← decVal v)
      | _ => throw "bad object field"
    return .obj (← fieldNat j "c") fs
  | _ => throw s!"bad value node {t}"

partial def encVal : Val → Json
  | .none => Json.mkObj [("v", "none")]
  | .atom c p => Json.mkObj [("v", "atom"), ("c", natJ c), ("p", intJ p)]
  | .seq k xs => Json.mkObj [("v", "seq"), ("k", k.name), ("xs", listJ (xs.map encVal))]
  | .dict kvs => Json.mkObj [("v", "dict"), ("kv", listJ (kvs.map fun (k, v) => listJ [encVal k, encVal v]))]
  | .obj c fs => Json.mkObj [("v", "obj"), ("c", natJ c), ("f", listJ (fs.map fun (n, v) => listJ [natJ n, encVal v]))]

def decField (j : Json) : Except String Field := do
  return { name := ← fieldNat j "n", ty := ← decTy (← field j "ty"), required := ← fieldBool j "req" }

partial def decPred (j : Json) : Except String FieldPred := do
  let k ← fieldStr j "k"
  match k with
  | "any" => return .any
  | "names" => return .names (← (← fieldArr j "names").mapM asNat)
  | "ty_cls" => return .tyCls (← fieldNat j "c")
  | "under" => return .under (← fieldNat j "owner") (← decPred (← field j "p"))
  | "or" => return .or (← decPred (← field j "a")) (← decPred (← field j "b"))
  | "and" => return .and (← decPred (← field j "a")) (← decPred (← field j "b"))
  | "not" => return .not (← decPred (← field j "a"))
  | _ => throw s!"bad field predicate {k}"

def decPolicy (j : Json) : Except String Policy := do
  let k ← fieldStr j "k"
  match k with
  | "builtin" => return .builtin
  | "allow_all" => return .allowAll
  | "forbid_all" => return .forbidAll
  | "allow_names" => return .allowNames (← (← fieldArr j "names").mapM asNat)
  | "rules" =>
    return .rules (← (← fieldArr j "rules").mapM fun r => do
      return { pred := ← decPred (← field r "pred"), allow := ← fieldBool r "allow" })
  | _ => throw s!"bad policy {k}"

def decRecipe (j : Json) : Except String (List Prov) := do
  match j.getObjVal? "recipe" with
  | .error _ => return builtinRecipe
  | .ok r =>
    (← asArr r).mapM fun n => do
      let s ← asStr n
      match Prov.ofName s with
      | some p => return p
      | none => throw s!"unknown provider {s}"

def decWorld (j : Json) (policy : Policy) (recipe : List Prov) : Except String Cfg := do
  let subPairs ← (← fieldArr j "sub").mapM fun p => do
    match ← asArr p with
    | [a, b] => return (← asNat a, ← asNat b)
    | _ => throw "bad sub pair"
  let shapes ← (← fieldArr j "shapes").mapM fun s => do
    let c ← fieldNat s "c"
    let a ← (← fieldArr s "a").mapM decTy
    let fs ← (← fieldArr s "fields").mapM decField
    return (c, a, fs)
  let defaults ← (← fieldArr j "defaults").mapM fun d => do
    match ← asArr d with
    | [c, n, v] => return (← asNat c, ← asNat n, ← decVal v)
    | _ => throw "bad default"
  return {
    sub := fun a b => subPairs.any fun (x, y) => x == a && y == b
    shape := fun c a => (shapes.find? fun (c', a', _) => c' == c && Ty.beqList a' a).map (·.2.2)
    dflt := fun c n => match defaults.find? fun (c', n', _) => c' == c && n' == n with
      | some (_, _, v) => v
      | none => .none
    policy := policy
    recipe := recipe }

/-! generic class hierarchies (`Conv/Hierarchy.lean`) -/

partial def decPTy (j : Json) : Except String PTy := do
  let p ← fieldStr j "p"
  match p with
  | "var" => return .var (← fieldNat j "v")
  | "const" => return .const (← decTy (← field j "t"))
  | "gen1" => return .gen1 (← fieldNat j "c") (← decPTy (← field j "e"))
  | "iter" =>
    let kn ← fieldStr j "k"
    match IterKind.ofName kn with
    | some k => return .iter k (← decPTy (← field j "e"))
    | none => throw s!"unknown iterable origin {kn}"
  | "map" =>
    let kn ← fieldStr j "k"
    match MapKind.ofName kn with
    | some k => return .map k (← decPTy (← field j "key")) (← decPTy (← field j "val"))
    | none => throw s!"unknown mapping origin {kn}"
  | _ => throw s!"bad parametric type node {p}"

def decHier (j : Json) : Except String Hier := do
  (← asArr j).mapM fun c => do
    let params ← (← fieldArr c "params").mapM asNat
    let base ← match c.getObjVal? "base" with
      | .ok .null => pure none
      | .ok b => do
        let args ← match b.getObjVal? "args" with
          | .ok .null => pure none
          | .ok a => do pure (some (← (← asArr a).mapM decPTy))
          | .error _ => pure none
        pure (some ({ cls := ← fieldNat b "cls", args := args } : HBase))
      | .error _ => pure none
    let own ← (← fieldArr c "own").mapM fun e => do
      return ({ name := ← fieldNat e "n", ann := ← decPTy (← field e "ann"), required := ← fieldBool e "req" } : HField)
    return ({ params := params, base := base, own := own } : HCls)

/-- a case with a `"hier"`: the shapes of its `"targets"` (`{"c": class id, "a": normalised args, "h": index}`) are
    the *declared* ones (`hierShape`), overriding what the world says; the reply also tells whether the two agree -/
def withHier (cfg : Cfg) (c : Json) : Except String (Cfg × Option (Bool × String)) := do
  match c.getObjVal? "hier" with
  | .error _ => return (cfg, none)
  | .ok hj =>
    let H ← decHier hj
    let tgts ← (← fieldArr c "targets").mapM fun t => do
      return (← fieldNat t "c", ← (← fieldArr t "a").mapM decTy, ← fieldNat t "h")
    let shapes := tgts.map fun (c, a, h) => (c, a, hierShape H h a)
    let agree := shapes.all fun (c, a, fs) =>
      match cfg.shape c a with
      | some gs => fieldsBeq fs gs
      | none => false
    let look : Nat → List Ty → Option (List Field) := fun c a =>
      ((shapes.find? fun (c', a', _) => c' == c && Ty.beqList a' a).map (·.2.2)).orElse fun _ => cfg.shape c a
    let cfg' : Cfg := { cfg with shape := look }
    return (cfg', some (agree, toString (repr (shapes.map fun (c, _, fs) => (c, fs)))))

def kindName : Kind → String
  | .asIs => "asis" | .optional => "optional" | .iterable => "iterable" | .dict => "dict" | .model => "model"

def encAnswer (a : Answer) (vals : List Val) : Json :=
  match a with
  | .ok c => Json.mkObj [("r", "ok"), ("kind", kindName c.kind),
      ("out", listJ (vals.map fun v => match c.run v with
        | some w => Json.mkObj [("ok", encVal w)]
        | none => Json.mkObj [("stuck", true)]))]
  | .notFound => Json.mkObj [("r", "not_found")]
  | .outOfFuel => Json.mkObj [("r", "oof")]

def handle : Protocol.Handler := fun j => do
  let op ← fieldStr j "op"
  match op with
  | "coerce_batch" =>
    let policy ← decPolicy (← field j "policy")
    let recipe ← decRecipe j
    let cfg ← decWorld (← field j "world") policy recipe
    let fuel ← (fieldNat j "fuel" <|> pure 64)
    let cases ← fieldArr j "cases"
    let out ← cases.mapM fun c => do
      let src ← decTy (← field c "src")
      let dst ← decTy (← field c "dst")
      let vals ← (← (fieldArr c "vals" <|> pure [])).mapM decVal
      -- a case may carry its own user recipe of policy providers (the world is shared)
      let cfg' ← match c.getObjVal? "policy" with
        | .ok pj => do pure { cfg with policy := ← decPolicy pj }
        | .error _ => pure cfg
      let (cfg'', hinfo) ← withHier cfg' c
      let ans := encAnswer (getConverter cfg'' fuel src dst) vals
      match hinfo with
      | none => return ans
      | some (agree, shown) =>
        return ans.mergeObj (Json.mkObj ([("shapes_agree", Json.bool agree)] ++
          (if agree then [] else [("declared_shapes", Json.str shown)])))
    return listJ out
  | "tables" =>
    -- the tables the specification and the model rely on, for validation against the interpreter
    let conf := Conc.all.flatMap fun c => IterKind.all.map fun k =>
      listJ [Json.str c.name, Json.str k.name, Json.bool (conforms c k)]
    let mconf := MapKind.all.map fun k => listJ [Json.str k.name, Json.bool (mapConforms k)]
    let fac := IterKind.all.map fun k => listJ [Json.str k.name,
      match iterFactory k with | some f => Json.str f.name | none => Json.null]
    let srcOk := IterKind.all.map fun k => listJ [Json.str k.name,
      Json.bool (parseIterSrc (.iter k .any)).isSome]
    return Json.mkObj [("recipe", listJ (builtinRecipe.map fun p => Json.str p.name)),
      ("generated_recipe", listJ (Generated.coercerProviders.map Json.str)),
      ("conforms", listJ conf), ("map_conforms", listJ mconf), ("factory", listJ fac),
      ("iter_src", listJ srcOk),
      ("reserved", Json.mkObj [("none", natJ noneCls), ("list", natJ Conc.list.cls), ("tuple", natJ Conc.tuple.cls),
        ("set", natJ Conc.set.cls), ("frozenset", natJ Conc.frozenset.cls), ("deque", natJ Conc.deque.cls),
        ("dict", natJ dictCls), ("any", natJ anyCls)])]
  | _ => throw s!"unknown op {op}"

end Adaptix.Ops.C14
