import AdaptixModel.Protocol
import AdaptixModel.Types.Generic
import AdaptixModel.Types.GenericWf
import AdaptixModel.Types.GenericTypeVars

/-
  JSON ops of the C16 driver.

  hint      {"tv": n} | {"a": name, "bare": bool} | {"o": origin, "args": [hint…]}
  tvar      {"id": n, "bound": hint|null, "constraints": [hint…]}
  base      {"cls": i, "args": [hint…]|null}
  class     {"params": [n…], "orig": [base…]|null, "bases": [base…], "mro": [i…], "ann": [[key, hint]…]}
  hierarchy {"kind": "dataclass"|"attrs"|"namedtuple"|"typeddict"|"pydantic", "tvars": [tvar…], "classes": [class…]}

  ops: resolve {h, target: base}  ->  {members, spec, wf, prec, ovis, mono, noconf}
       raw     {h, cls}           ->  {members, overridden, orig}
       implicit{tvar}             ->  hint
       typevars{hint, own: n}     ->  the object facts `objOf` assumes for the hint (spelling, parameters, isType, ...)
                                      and what get_type_vars / get_type_vars_of_parametrized / is_generic compute on
                                      them, next to the structural hasTV / isGeneric / tvs; `own` = the type variable
                                      an unsubscribed user generic class is generic in
       parametrize{hint, dict: [[n, hint]…], own: n}  ->  `_parametrize_by_dict` over the object facts (null = KeyError)
                                      and the structural `parametrizeByDict`
-/
namespace Adaptix.Ops.C16
open Lean Adaptix.Protocol Adaptix.Generic

partial def decHint (j : Json) : Except String Hint := do
  match j.getObjVal? "tv" with
  | .ok v => return .tv (← asNat v)
  | .error _ =>
  match j.getObjVal? "a" with
  | .ok n =>
    let bare ← (fieldBool j "bare" <|> pure false)
    return .atom (← asStr n) bare
  | .error _ =>
    let o ← fieldStr j "o"
    let args ← (← fieldArr j "args").mapM decHint
    return args.foldl Hint.app (.con o)

/-- the spine of a curried subscription -/
def spine : Hint → Hint × List Hint
  | .app f a => let (h, as) := spine f; (h, as ++ [a])
  | h => (h, [])

partial def encHint (h : Hint) : Json :=
  match h with
  | .tv v => Json.mkObj [("tv", natJ v)]
  | .atom n b => Json.mkObj [("a", Json.str n), ("bare", Json.bool b)]
  | .con o => Json.mkObj [("o", Json.str o), ("args", listJ [])]
  | .app f a =>
    match spine (.app f a) with
    | (.con o, args) => Json.mkObj [("o", Json.str o), ("args", listJ (args.map encHint))]
    | (hd, args) => Json.mkObj [("head", encHint hd), ("args", listJ (args.map encHint))]

def decOptHints (j : Json) : Except String (Option (List Hint)) :=
  match j with
  | .null => pure none
  | .arr a => do return some (← a.toList.mapM decHint)
  | _ => throw "expected array or null"

def decBase (j : Json) : Except String Base := do
  return { cls := ← fieldNat j "cls", args := ← decOptHints (← field j "args") }

def encBase (b : Base) : Json :=
  Json.mkObj [("cls", natJ b.cls), ("args", match b.args with
    | none => Json.null
    | some as => listJ (as.map encHint))]

def decTVar (j : Json) : Except String (TVar × TVDecl) := do
  let id ← fieldNat j "id"
  let bound ← match (← field j "bound") with
    | .null => pure none
    | b => do pure (some (← decHint b))
  let cs ← (← fieldArr j "constraints").mapM decHint
  return (id, { constraints := cs, bound := bound })

def decMembers (j : Json) : Except String Members := do
  (← asArr j).mapM fun kv => do
    match kv with
    | .arr #[k, t] => return (← asStr k, ← decHint t)
    | _ => throw "expected [key, hint]"

def decCls (j : Json) : Except String Cls := do
  let orig ← match (← field j "orig") with
    | .null => pure none
    | .arr a => do pure (some (← a.toList.mapM decBase))
    | _ => throw "orig: expected array or null"
  return {
    params := ← (← fieldArr j "params").mapM asNat
    ownOrigBases := orig
    bases := ← (← fieldArr j "bases").mapM decBase
    mro := ← (← fieldArr j "mro").mapM asNat
    ownAnn := ← decMembers (← field j "ann") }

def decKind (s : String) : Except String Kind :=
  match s with
  | "dataclass" => pure .dataclass
  | "attrs" => pure .attrs
  | "namedtuple" => pure .namedTuple
  | "typeddict" => pure .typedDict
  | "pydantic" => pure .pydantic
  | _ => throw s!"unknown kind {s}"

def decHierarchy (j : Json) : Except String Hierarchy := do
  return {
    kind := ← decKind (← fieldStr j "kind")
    tvars := ← (← fieldArr j "tvars").mapM decTVar
    classes := ← (← fieldArr j "classes").mapM decCls }

def encMembers (m : Members) : Json :=
  listJ (m.map fun (k, t) => listJ [Json.str k, encHint t])

def spellingName : Spelling → String
  | .typeVar => "TypeVar"
  | .plainClass => "class"
  | .unionTypeClass => "UnionType-class"
  | .bareBuiltin => "bare-builtin"
  | .bareTypingAlias => "bare-typing-alias"
  | .bareUserGeneric => "bare-user-generic"
  | .typingAlias => "typing._GenericAlias"
  | .typingUnion => "typing._UnionGenericAlias"
  | .builtinAlias => "types.GenericAlias"
  | .pep604Union => "types.UnionType"

def handle : Protocol.Handler := fun j => do
  let op ← fieldStr j "op"
  match op with
  | "resolve" =>
    let H ← decHierarchy (← field j "h")
    let tgt ← decBase (← field j "target")
    if tgt.cls ≥ H.classes.length then throw "target class out of range"
    let ms := resolve H tgt
    let spec := ms.map fun (k, _) => listJ [Json.str k, match declaredType H tgt k with
      | some t => encHint t
      | none => Json.null]
    return Json.mkObj [
      ("members", encMembers ms),
      ("spec", listJ spec),
      ("wf", Json.bool (decide (Wf H))),
      ("prec", Json.bool (decide (PrecedenceAgrees H))),
      ("ovis", Json.bool (decide (OverrideVisible H))),
      ("mono", Json.bool (decide (MroMonotone H))),
      ("noconf", Json.bool (decide (NoConflict H)))]
  | "raw" =>
    let H ← decHierarchy (← field j "h")
    let c ← fieldNat j "cls"
    if c ≥ H.classes.length then throw "class out of range"
    let st := rawStorage H c
    return Json.mkObj [
      ("members", encMembers st.members),
      ("overridden", listJ (st.overridden.map Json.str)),
      ("orig", listJ ((origBases H c).map encBase))]
  | "implicit" =>
    let (_, d) ← decTVar (← field j "tvar")
    return encHint d.implicit
  | "typevars" =>
    let t ← decHint (← field j "hint")
    let own ← (fieldNat j "own" <|> pure 0)
    let o := objOf (fun _ => [own]) t
    return Json.mkObj [
      ("spelling", Json.str (spellingName o.spelling)),
      ("parameters", match o.parameters with
        | .absent => Json.str "absent"
        | .descriptor => Json.str "descriptor"
        | .tuple vs => listJ (vs.map natJ)),
      ("isType", Json.bool o.isType),
      ("isBuiltinAlias", Json.bool o.isBuiltinAlias),
      ("isAlias", Json.bool o.isAlias),
      ("hasArgs", Json.bool o.hasArgs),
      ("builtinOrigin", Json.bool o.builtinOrigin),
      ("isTypeVar", Json.bool o.isTypeVar),
      ("typeVars", listJ ((getTypeVars o).map natJ)),
      ("ofParametrized", listJ ((typeVarsOfParametrized o).map natJ)),
      ("isGenericCode", Json.bool (isGenericCode o)),
      ("hasTV", Json.bool t.hasTV),
      ("isGeneric", Json.bool t.isGeneric),
      ("tvs", listJ (t.tvs.map natJ))]
  | "parametrize" =>
    let t ← decHint (← field j "hint")
    let own ← (fieldNat j "own" <|> pure 0)
    let σ ← (← fieldArr j "dict").mapM fun kv => do
      match kv with
      | .arr #[k, h] => return (← asNat k, ← decHint h)
      | _ => throw "expected [tv, hint]"
    return Json.mkObj [
      ("code", match parametrizeByDictCode (fun _ => [own]) σ t with
        | some r => encHint r
        | none => Json.null),
      ("structural", encHint (parametrizeByDict σ t))]
  | _ => throw s!"unknown op {op}"

end Adaptix.Ops.C16
