/-
  JSON operations over the executable predicate model (C10).

  The driver is stateful only for economy: `setup` installs a world (oracle tables) and a list of
  location stacks; the following requests are evaluated against them.

  setup   {"op":"setup","world":W,"stacks":[[loc…]…]}                      → number of stacks
  check   {"op":"check","checker":C}                                      → outcomes of `check` per stack ("T","F","I","Y")
  pred    {"op":"pred","expr":E}                                           → {"exc":…} | {"checker":C,"check":…,"spec":…}
  bound   {"op":"bound","bounding":C,"located":b,"rc":RC,"other_true":[…]} → {"rc":RC',"check":…}
  bound_by_any {"op":"bound_by_any","exprs":[E…]}                          → {"exc":…} | {"checker":C|null}
-/
import AdaptixModel.Protocol
import AdaptixModel.Pred.Bound
import AdaptixModel.Pred.Spec

namespace Adaptix.Ops.C10
open Lean Adaptix.Protocol Adaptix.Pred

/-! ### decoding -/

def decLocClass : String → Except String LocClass
  | "TypeHintLoc" => .ok .typeHintLoc
  | "FieldLoc" => .ok .fieldLoc
  | "InputFieldLoc" => .ok .inputFieldLoc
  | "InputFuncFieldLoc" => .ok .inputFuncFieldLoc
  | "OutputFieldLoc" => .ok .outputFieldLoc
  | "GenericParamLoc" => .ok .genericParamLoc
  | s => .error s!"unknown location class {s}"

def decLoc (j : Json) : Except String Loc := do
  let cls ← decLocClass (← fieldStr j "c")
  let t ← fieldNat j "t"
  let f ← (fieldStr j "f" <|> pure "")
  let g ← (fieldInt j "g" <|> pure 0)
  return { cls := cls, type := t, fieldId := f, genericPos := g }

def decStack (j : Json) : Except String LocStack := do (← asArr j).mapM decLoc

partial def decChecker (j : Json) : Except String Checker := do
  let k ← fieldStr j "k"
  let subs := do (← fieldArr j "cs").mapM decChecker
  match k with
  | "exact_field" => return .exactFieldName (← fieldStr j "v")
  | "re_field" => return .reFieldName (← fieldStr j "v")
  | "exact_type" => return .exactType (← fieldNat j "v")
  | "origin_subclass" => return .originSubclass (← fieldNat j "v")
  | "exact_origin" => return .exactOrigin (← fieldNat j "v")
  | "generic_param" => return .genericParam (← fieldInt j "v")
  | "end" => return .locStackEnd (← subs)
  | "size" => return .size (← fieldInt j "v")
  | "any" => return .any
  | "invert" => return .invert (← decChecker (← field j "c"))
  | "or" => return .or (← subs)
  | "and" => return .and (← subs)
  | "xor" => return .xor (← subs)
  | "user" => return .user (← fieldNat j "v")
  | _ => throw s!"unknown checker kind {k}"

partial def encChecker : Checker → Json
  | .exactFieldName s => Json.mkObj [("k", "exact_field"), ("v", Json.str s)]
  | .reFieldName s => Json.mkObj [("k", "re_field"), ("v", Json.str s)]
  | .exactType n => Json.mkObj [("k", "exact_type"), ("v", natJ n)]
  | .originSubclass o => Json.mkObj [("k", "origin_subclass"), ("v", natJ o)]
  | .exactOrigin o => Json.mkObj [("k", "exact_origin"), ("v", natJ o)]
  | .genericParam p => Json.mkObj [("k", "generic_param"), ("v", intJ p)]
  | .locStackEnd cs => Json.mkObj [("k", "end"), ("cs", listJ (cs.map encChecker))]
  | .size n => Json.mkObj [("k", "size"), ("v", intJ n)]
  | .any => Json.mkObj [("k", "any")]
  | .invert c => Json.mkObj [("k", "invert"), ("c", encChecker c)]
  | .or cs => Json.mkObj [("k", "or"), ("cs", listJ (cs.map encChecker))]
  | .and cs => Json.mkObj [("k", "and"), ("cs", listJ (cs.map encChecker))]
  | .xor cs => Json.mkObj [("k", "xor"), ("cs", listJ (cs.map encChecker))]
  | .user i => Json.mkObj [("k", "user"), ("v", natJ i)]

partial def decExpr (j : Json) : Except String Expr := do
  let k ← fieldStr j "e"
  let sub (name : String) := do decExpr (← field j name)
  match k with
  | "str" => return .str (← fieldStr j "v")
  | "re" => return .re (← fieldStr j "v")
  | "ty" => return .ty (← fieldNat j "v")
  | "any" => return .any
  | "user" => return .user (← fieldNat j "v")
  | "create" => return .create (← sub "a")
  | "P" => return .P
  | "getitem" => return .getitem (← sub "p") (← sub "a")
  | "tuple" => return .getitemTuple (← sub "p") (← (← fieldArr j "items").mapM decExpr)
  | "getattr" => return .getattr (← sub "p") (← fieldStr j "v")
  | "generic_arg" => return .genericArg (← sub "p") (← fieldInt j "pos") (← sub "a")
  | "add" => return .add (← sub "a") (← sub "b")
  | "or" => return .bin .or (← sub "a") (← sub "b")
  | "and" => return .bin .and (← sub "a") (← sub "b")
  | "xor" => return .bin .xor (← sub "a") (← sub "b")
  | "invert" => return .invert (← sub "a")
  | "build" => return .build (← sub "p")
  | _ => throw s!"unknown expression kind {k}"

/-- user-defined checkers the harness knows how to build on both sides -/
inductive UserChecker
  | lenMod (m r : Nat)        -- len(loc_stack) % m == r
  | firstType (t : Obj)       -- loc_stack[0].type == t
  deriving Inhabited

def UserChecker.run : UserChecker → LocStack → Bool
  | .lenMod m r, st => st.length % m == r
  | .firstType t, st => match st.head? with | some l => l.type == t | none => false

def decUser (j : Json) : Except String UserChecker := do
  match ← fieldStr j "k" with
  | "len_mod" => return .lenMod (← fieldNat j "m") (← fieldNat j "r")
  | "first_type" => return .firstType (← fieldNat j "t")
  | k => throw s!"unknown user checker {k}"

def natList (j : Json) (k : String) : Except String (List Nat) := do (← fieldArr j k).mapM asNat
def strList (j : Json) (k : String) : Except String (List String) := do (← fieldArr j k).mapM asStr

def decWorld (j : Json) : Except String World := do
  -- "norm": [[obj, normId, origin, isTV]…]; "ns": objects raising NotSubscribedError; anything else: ValueError
  let normRows ← (← fieldArr j "norm").mapM fun r => do
    match ← asArr r with
    | [o, n, orig, tv] => pure ((← asNat o), (← asNat n), (← asNat orig), (tv == Json.bool true))
    | _ => throw "bad norm row"
  let ns ← natList j "ns"
  let generic ← natList j "generic"
  let param ← natList j "param"
  let protocol ← natList j "protocol"
  let abstract ← natList j "abstract"
  let subclass ← (← fieldArr j "subclass").mapM fun r => do
    match ← asArr r with
    | [a, b] => pure ((← asNat a), (← asNat b))
    | _ => throw "bad subclass row"
  let ident ← strList j "ident"
  let compiles ← strList j "compiles"
  let fullmatch ← (← fieldArr j "fullmatch").mapM fun r => do
    match ← asArr r with
    | [a, b] => pure ((← asStr a), (← asStr b))
    | _ => throw "bad fullmatch row"
  let users ← (← fieldArr j "user").mapM decUser
  let usersA := users.toArray
  return {
    norm := fun o =>
      match normRows.find? (fun r => r.1 == o) with
      | some r => .ok r.2.1
      | none => if ns.contains o then .notSubscribed else .valueError
    normIsTV := fun n => match normRows.find? (fun r => r.2.1 == n) with | some r => r.2.2.2 | none => false
    normOrigin := fun n => match normRows.find? (fun r => r.2.1 == n) with | some r => r.2.2.1 | none => 0
    isGeneric := generic.contains
    isParametrized := param.contains
    isProtocol := protocol.contains
    isAbstract := abstract.contains
    subclassSoft := fun a b => subclass.contains (a, b)
    isIdentifier := ident.contains
    reCompiles := compiles.contains
    reFullmatch := fun k f => fullmatch.contains (k, f)
    user := fun i st => match usersA[i]? with | some u => u.run st | none => false
  }

/-! ### encoding outcomes -/

def excName : PyExc → String
  | .indexError => "IndexError"
  | .typeError => "TypeError"
  | .valueError => "ValueError"
  | .attributeError => "AttributeError"
  | .reError => "error"
  | .outsideModel => "OUTSIDE-MODEL"

def outcomeChar : Outcome → Char
  | .ok true => 'T'
  | .ok false => 'F'
  | .error .indexError => 'I'
  | .error .typeError => 'Y'
  | .error _ => 'X'

def boolChar (b : Bool) : Char := if b then 'T' else 'F'

structure State where
  world : World
  stacks : Array LocStack

def emptyWorld : World :=
  { norm := fun _ => .valueError, normIsTV := fun _ => false, normOrigin := fun _ => 0, isGeneric := fun _ => false,
    isParametrized := fun _ => false, isProtocol := fun _ => false, isAbstract := fun _ => false,
    subclassSoft := fun _ _ => false, isIdentifier := fun _ => false, reCompiles := fun _ => false,
    reFullmatch := fun _ _ => false, user := fun _ _ => false }

def checkAll (s : State) (c : Checker) : String :=
  String.ofList (s.stacks.toList.map fun st => outcomeChar (check s.world c st))

def decRC (j : Json) : Except String RequestChecker := do
  match ← fieldStr j "k" with
  | "always" => return .alwaysTrue
  | "located" => return .located (← decChecker (← field j "c"))
  | "other" => return .other (← fieldNat j "i")
  | k => throw s!"unknown request checker {k}"

def encRC : RequestChecker → Json
  | .alwaysTrue => Json.mkObj [("k", "always")]
  | .located c => Json.mkObj [("k", "located"), ("c", encChecker c)]
  | .other i => Json.mkObj [("k", "other"), ("i", natJ i)]

def step (s : State) (j : Json) : Except String (State × Json) := do
  let op ← fieldStr j "op"
  match op with
  | "setup" =>
    let w ← decWorld (← field j "world")
    let sts ← (← fieldArr j "stacks").mapM decStack
    return ({ world := w, stacks := sts.toArray }, natJ sts.length)
  | "check" =>
    let c ← decChecker (← field j "checker")
    return (s, Json.str (checkAll s c))
  | "pred" =>
    let e ← decExpr (← field j "expr")
    match createChecker s.world e with
    | .error x => return (s, Json.mkObj [("exc", Json.str (excName x))])
    | .ok c =>
      let spec := String.ofList (s.stacks.toList.map fun st => boolChar (specMatches s.world e st))
      return (s, Json.mkObj [("checker", encChecker c), ("check", Json.str (checkAll s c)), ("spec", Json.str spec)])
  | "bound" =>
    let b ← decChecker (← field j "bounding")
    let located ← fieldBool j "located"
    let rc ← decRC (← field j "rc")
    let otherTrue ← natList j "other_true"
    let rc' := processRequestChecker b located rc
    let out := String.ofList (s.stacks.toList.map fun st =>
      outcomeChar (rc'.check s.world (fun i => otherTrue.contains i) st))
    return (s, Json.mkObj [("rc", encRC rc'), ("check", Json.str out)])
  | "bound_by_any" =>
    let es ← (← fieldArr j "exprs").mapM decExpr
    match es.mapM (eval s.world) with
    | .error x => return (s, Json.mkObj [("exc", Json.str (excName x))])
    | .ok vs =>
      match boundByAnyChecker s.world vs with
      | .error x => return (s, Json.mkObj [("exc", Json.str (excName x))])
      | .ok none => return (s, Json.mkObj [("checker", Json.null)])
      | .ok (some c) => return (s, Json.mkObj [("checker", encChecker c)])
  | _ => throw s!"unknown op {op}"

def replyLine (s : State) (line : String) : State × String :=
  match Json.parse line with
  | .error e => (s, (Json.mkObj [("err", Json.str s!"parse: {e}")]).compress)
  | .ok j =>
    match step s j with
    | .ok (s', r) => (s', (Json.mkObj [("ok", r)]).compress)
    | .error e => (s, (Json.mkObj [("err", Json.str e)]).compress)

partial def loop (s : State) (i o : IO.FS.Stream) : IO Unit := do
  let line ← i.getLine
  if line.isEmpty then
    o.flush
    return ()
  if line.trimAscii.isEmpty then
    loop s i o
  else
    let (s', out) := replyLine s line
    o.putStrLn out
    loop s' i o

def serve : IO Unit := do
  let i ← IO.getStdin
  let o ← IO.getStdout
  loop { world := emptyWorld, stacks := #[] } i o

end Adaptix.Ops.C10
