import AdaptixModel.Protocol
import AdaptixModel.Layout.CallPlan
import AdaptixModel.Layout.Default

/-
  JSON ops of the C08 model driver.
    literal_expr          {"v": <val>}                       get_literal_expr (translated term, interpreted)
    literal_from_factory  {"f": <val>}                       get_literal_from_factory
    default_clause        {"kind": "value"|"factory", "v"}   _get_default_clause_expr
    call_plan             {"shape","cfg","inputs","fix"}     _gen_constructor_call + Python binding
    load_model            {"shape","cfg","trail","fields",…} top-level loader structure, constructor call count
-/
namespace Adaptix.Ops.C08
open Lean Adaptix.Protocol Adaptix.Default Adaptix.CallPlan

/-! ### values -/

def decFloat (j : Json) : Except String PyFloat := do
  let k ← fieldStr j "k"
  match k with
  | "nan" => return .nan
  | "inf" => return .inf
  | "-inf" => return .negInf
  | "fin" => return .finite (← fieldStr j "hex")
  | _ => throw s!"bad float kind {k}"

partial def decVal (j : Json) : Except String Val := do
  let t ← fieldStr j "t"
  match t with
  | "none" => return .none
  | "bool" => return .bool (← fieldBool j "v")
  | "int" => return .int (← fieldInt j "v")
  | "float" => return .float (← decFloat j)
  | "str" => return .str (← fieldStr j "v")
  | "bytes" => return .bytes (← (← fieldArr j "v").mapM asNat)
  | "bytearray" => return .bytearray (← (← fieldArr j "v").mapM asNat)
  | "list" => return .list (← (← fieldArr j "xs").mapM decVal)
  | "tuple" => return .tuple (← (← fieldArr j "xs").mapM decVal)
  | "set" => return .set (← (← fieldArr j "xs").mapM decVal)
  | "frozenset" => return .frozenset (← (← fieldArr j "xs").mapM decVal)
  | "dict" =>
    let kvs ← (← fieldArr j "kvs").mapM fun kv => do
      match ← asArr kv with
      | [k, v] => return (← decVal k, ← decVal v)
      | _ => throw "dict item: expected [k, v]"
    return .dict kvs
  | "slice" => return .slice (← decVal (← field j "a")) (← decVal (← field j "b")) (← decVal (← field j "c"))
  | "range" => return .range (← fieldInt j "a") (← fieldInt j "b") (← fieldInt j "c")
  | "builtin" => return .builtin (← fieldStr j "n")
  | "cls" => return .cls (← fieldStr j "n")
  | "opaque" =>
    let eq ← match j.getObjVal? "eq" with
      | .ok .null => pure Option.none
      | .ok e => match e.getInt? with
        | .ok n => pure (some n)
        | .error _ => throw "opaque.eq: expected int or null"
      | .error _ => pure Option.none
    return .opaque (← fieldStr j "cls") (← fieldNat j "id") eq (← fieldBool j "h")
  | _ => throw s!"bad value tag {t}"

def encFloat : PyFloat → Json
  | .nan => Json.mkObj [("t", "float"), ("k", "nan")]
  | .inf => Json.mkObj [("t", "float"), ("k", "inf")]
  | .negInf => Json.mkObj [("t", "float"), ("k", "-inf")]
  | .finite h => Json.mkObj [("t", "float"), ("k", "fin"), ("hex", Json.str h)]

partial def encVal : Val → Json
  | .none => Json.mkObj [("t", "none")]
  | .bool b => Json.mkObj [("t", "bool"), ("v", Json.bool b)]
  | .int i => Json.mkObj [("t", "int"), ("v", intJ i)]
  | .float f => encFloat f
  | .str s => Json.mkObj [("t", "str"), ("v", Json.str s)]
  | .bytes b => Json.mkObj [("t", "bytes"), ("v", listJ (b.map natJ))]
  | .bytearray b => Json.mkObj [("t", "bytearray"), ("v", listJ (b.map natJ))]
  | .list xs => Json.mkObj [("t", "list"), ("xs", listJ (xs.map encVal))]
  | .tuple xs => Json.mkObj [("t", "tuple"), ("xs", listJ (xs.map encVal))]
  | .set xs => Json.mkObj [("t", "set"), ("xs", listJ (xs.map encVal))]
  | .frozenset xs => Json.mkObj [("t", "frozenset"), ("xs", listJ (xs.map encVal))]
  | .dict kvs => Json.mkObj [("t", "dict"), ("kvs", listJ (kvs.map fun (k, v) => listJ [encVal k, encVal v]))]
  | .slice a b c => Json.mkObj [("t", "slice"), ("a", encVal a), ("b", encVal b), ("c", encVal c)]
  | .range a b c => Json.mkObj [("t", "range"), ("a", intJ a), ("b", intJ b), ("c", intJ c)]
  | .builtin n => Json.mkObj [("t", "builtin"), ("n", Json.str n)]
  | .cls n => Json.mkObj [("t", "cls"), ("n", Json.str n)]
  | .opaque c i k h => Json.mkObj [("t", "opaque"), ("cls", Json.str c), ("id", natJ i),
      ("eq", match k with | some n => intJ n | Option.none => Json.null), ("h", Json.bool h)]

/-- symbolic text: runs of literal characters merged into strings -/
def encTxt (t : Txt) : Json :=
  let rec go (acc : List Char) (out : List Json) : List Piece → List Json
    | [] => (if acc.isEmpty then out else Json.mkObj [("s", Json.str (String.ofList acc.reverse))] :: out).reverse
    | .ch c :: rest => go (c :: acc) out rest
    | .reprOf v :: rest =>
      let out := if acc.isEmpty then out else Json.mkObj [("s", Json.str (String.ofList acc.reverse))] :: out
      go [] (Json.mkObj [("repr", encVal v)] :: out) rest
    | .junk :: rest =>
      let out := if acc.isEmpty then out else Json.mkObj [("s", Json.str (String.ofList acc.reverse))] :: out
      go [] (Json.mkObj [("junk", Json.bool true)] :: out) rest
  listJ (go [] [] t)

def encExc : Exc → Json
  | .keyError => "KeyError"
  | .typeError => "TypeError"
  | .indexError => "IndexError"
  | .cannotBeRendered => "_CannotBeRenderedError"

def encLitRes : LitRes → List (String × Json)
  | .text t => [("r", "text"), ("pieces", encTxt t)]
  | .noLiteral => [("r", "none")]
  | .raised c => [("r", "raised"), ("cls", encExc c)]
  | .stuck m => [("r", "stuck"), ("msg", Json.str m)]

/-- The canonical literal expression of a value: the *specification side* of
    `default_true` made executable, so that the harness can compare Python's
    `eval` of the real text with `PyExpr.eval` (validates `render`/`eval`, i.e.
    the trusted reading of Python's parser, on every case). -/
partial def exprOf : Val → Option PyExpr
  | .none => some (.name ['N', 'o', 'n', 'e'])
  | .bool true => some (.name ['T', 'r', 'u', 'e'])
  | .bool false => some (.name ['F', 'a', 'l', 's', 'e'])
  | .builtin n => some (.name n.toList)
  | .list xs => (xs.mapM exprOf).map PyExpr.list
  | .tuple xs => (xs.mapM exprOf).map PyExpr.tuple
  | .set [] => some (.call ['s', 'e', 't'] [])
  | .set xs => (xs.mapM exprOf).map PyExpr.set
  | .frozenset [] => some (.call ['f', 'r', 'o', 'z', 'e', 'n', 's', 'e', 't'] [])
  | .frozenset xs => (xs.mapM exprOf).map fun es => .call ['f', 'r', 'o', 'z', 'e', 'n', 's', 'e', 't'] [.set es]
  | .dict kvs => (kvs.mapM fun (k, v) => do pure (← exprOf k, ← exprOf v)).map PyExpr.dict
  | .slice a b c => do pure (.call ['s', 'l', 'i', 'c', 'e'] [← exprOf a, ← exprOf b, ← exprOf c])
  | .range a b c => some (.call ['r', 'a', 'n', 'g', 'e'] [.atom (.int a), .atom (.int b), .atom (.int c)])
  | v => if v.atomOk then some (.atom v) else Option.none

def specOf (v : Val) : List (String × Json) :=
  match exprOf v with
  | some e => [("spec_text", encTxt e.render), ("spec_eval", encVal (e.eval Generated.pyBuiltins))]
  | Option.none => [("spec_text", Json.null)]

/-! ### call plan -/

def decKind (s : String) : Except String Kind :=
  match s with
  | "POS_ONLY" => .ok .posOnly
  | "POS_OR_KW" => .ok .posOrKw
  | "KW_ONLY" => .ok .kwOnly
  | _ => .error s!"bad kind {s}"

def decDefaultKind (s : String) : Except String DefaultKind :=
  match s with
  | "none" => .ok .noDefault
  | "value" => .ok .value
  | "factory" => .ok .factory
  | "factory_with_self" => .ok .factoryWithSelf
  | _ => .error s!"bad default kind {s}"

def decShape (j : Json) : Except String Shape := do
  let fields ← (← fieldArr j "fields").mapM fun f => do
    pure ({ id := ← fieldStr f "id", required := ← fieldBool f "required",
            dflt := ← decDefaultKind (← fieldStr f "dflt") } : Field)
  let params ← (← fieldArr j "params").mapM fun p => do
    pure ({ fieldId := ← fieldStr p "field", name := ← fieldStr p "name",
            kind := ← decKind (← fieldStr p "kind") } : Param)
  return { fields := fields, params := params, kwargs := ← fieldBool j "kwargs" }

def decCfg (j : Json) : Except String Cfg := do
  let em ← fieldStr j "extra_move"
  let extraMove ← match em with
    | "none" => pure ExtraMove.none
    | "kwargs" => pure ExtraMove.kwargs
    | "saturate" => pure ExtraMove.saturate
    | "targets" => pure (ExtraMove.targets (← (← fieldArr j "targets").mapM asStr))
    | _ => throw s!"bad extra_move {em}"
  return { skipped := ← (← fieldArr j "skipped").mapM asStr,
           useDefaultForOmitted := ← fieldBool j "use_default", extraMove := extraMove }

def decAssoc (j : Json) : Except String (List (String × Int)) := do
  (← asArr j).mapM fun kv => do
    match ← asArr kv with
    | [k, v] => return (← asStr k, ← asInt v)
    | _ => throw "expected [key, value]"

def decInputs (j : Json) : Except String (Inputs Int) := do
  let loaded ← decAssoc (← field j "loaded")
  let dflt ← decAssoc (← field j "dflt")
  let extra ← decAssoc (← field j "extra")
  return { loaded := fun id => loaded.lookup id, dflt := fun id => dflt.lookup id, extra := extra }

def encAssoc (l : List (String × Int)) : Json := listJ (l.map fun (k, v) => listJ [Json.str k, intJ v])

def encArgT : ArgT → Json
  | .pos id => Json.mkObj [("pos", Json.str id)]
  | .kw n id => Json.mkObj [("kw", Json.str n), ("field", Json.str id)]
  | .starPacked => Json.mkObj [("star", "packed")]
  | .starExtra => Json.mkObj [("star", "extra")]

def encArg : Arg Int → Json
  | .pos v => Json.mkObj [("pos", intJ v)]
  | .kw n v => Json.mkObj [("kw", Json.str n), ("v", intJ v)]
  | .starStar kvs => Json.mkObj [("ss", encAssoc kvs)]

def encGenError : GenError → Json
  | .keyError => "KeyError"
  | .valueError => "ValueError"

def encTypeError : TypeError → Json
  | .tooManyPositional => Json.mkObj [("e", "too_many_positional")]
  | .positionalAfterKeyword => Json.mkObj [("e", "positional_after_keyword")]
  | .multipleValues n => Json.mkObj [("e", "multiple_values"), ("name", Json.str n)]
  | .unexpectedKeyword n => Json.mkObj [("e", "unexpected_keyword"), ("name", Json.str n)]
  | .missing n => Json.mkObj [("e", "missing"), ("name", Json.str n)]

def encBind (s : Shape) (r : Except TypeError (Binding Int × Binding Int)) : Json :=
  match r with
  | .error e => Json.mkObj [("type_error", encTypeError e)]
  | .ok (b, ex) =>
    Json.mkObj [("bound", encAssoc (s.params.filterMap fun p => (b.lookup p.name).map fun v => (p.name, v))),
                ("kwargs", encAssoc ex)]

def callPlan (j : Json) : Except String Json := do
  let s ← decShape (← field j "shape")
  let c ← decCfg (← field j "cfg")
  let i ← decInputs (← field j "inputs")
  let fix ← fieldBool j "fix"
  let gen := match genCall fix s c with
    | .ok ts => Json.mkObj [("ok", listJ (ts.map encArgT))]
    | .error e => Json.mkObj [("error", encGenError e)]
  let (plan, bind) := match mkPlan fix s c i with
    | .ok args => (Json.mkObj [("ok", listJ (args.map encArg))], encBind s (bindArgs s.sig args))
    | .error (.gen e) => (Json.mkObj [("error", encGenError e)], Json.null)
    | .error (.unboundLocal id) => (Json.mkObj [("unbound_local", Json.str id)], Json.null)
  return Json.mkObj [("wf_shape", Json.bool (wfShape s)), ("wf_cfg", Json.bool (wfCfg s c)),
    ("gen", gen), ("plan", plan), ("bind", bind)]

def decTrail (s : String) : Except String Trail :=
  match s with
  | "DISABLE" => .ok .disable
  | "FIRST" => .ok .first
  | "ALL" => .ok .all
  | _ => .error s!"bad trail {s}"

/-- field outcomes: ["loaded", v] | ["absent"] | ["failed", errId]; errors are ids,
    a missing required field is reported as -1 - (index of the field) -/
def loadModelOp (j : Json) : Except String Json := do
  let s ← decShape (← field j "shape")
  let c ← decCfg (← field j "cfg")
  let trail ← decTrail (← fieldStr j "trail")
  let fix ← fieldBool j "fix"
  let dflt ← decAssoc (← field j "dflt")
  let extra ← decAssoc (← field j "extra")
  let frs ← (← fieldArr j "fields").mapM fun fr => do
    match ← asArr fr with
    | [id, Json.str "loaded", v] =>
      let id ← asStr id
      match s.field? id with
      | some f => pure (f, (FieldRes.loaded (← asInt v) : FieldRes Int Int))
      | Option.none => throw s!"unknown field {id}"
    | [id, Json.str "absent"] =>
      let id ← asStr id
      match s.field? id with
      | some f => pure (f, FieldRes.absent)
      | Option.none => throw s!"unknown field {id}"
    | [id, Json.str "failed", e] =>
      let id ← asStr id
      match s.field? id with
      | some f => pure (f, FieldRes.failed (← asInt e))
      | Option.none => throw s!"unknown field {id}"
    | _ => throw "bad field outcome"
  let missingErr (id : String) : Int := -1 - (s.fields.findIdx (·.id == id) : Nat)
  let ctorRaises ← (fieldBool j "ctor_raises" <|> pure false)
  let construct (args : List (Arg Int)) : Option (Binding Int × Binding Int) :=
    if ctorRaises then Option.none else (bindArgs s.sig args).toOption
  let (out, calls) := loadModel fix trail missingErr s c (fun id => dflt.lookup id) extra construct frs
  let outJ := match out with
    | .ok (b, ex) => Json.mkObj [("r", "ok"), ("bound", encAssoc (s.params.filterMap fun p => (b.lookup p.name).map fun v => (p.name, v))),
        ("kwargs", encAssoc ex)]
    | .loadError es => Json.mkObj [("r", "load_error"), ("errors", listJ (es.map intJ))]
    | .constructorRaised => Json.mkObj [("r", "constructor_raised")]
  return Json.mkObj [("outcome", outJ), ("calls", natJ calls)]

def identSort : SortOracle := some

def handle : Protocol.Handler := fun j => do
  let op ← fieldStr j "op"
  match op with
  | "literal_expr" =>
    let v ← decVal (← field j "v")
    return Json.mkObj (encLitRes (literalExpr identSort v) ++ specOf v)
  | "literal_from_factory" =>
    let f ← decVal (← field j "f")
    return Json.mkObj (encLitRes (literalFromFactory f))
  | "default_clause" =>
    let kind ← fieldStr j "kind"
    let v ← decVal (← field j "v")
    let d ← match kind with
      | "value" => pure (Default.value v)
      | "factory" => pure (Default.factory v)
      | "factory_with_self" => pure (Default.factoryWithSelf v)
      | "none" => pure Default.noDefault
      | _ => throw s!"bad default kind {kind}"
    return match defaultClause identSort d with
      | some (.inline t) => Json.mkObj [("clause", "inline"), ("pieces", encTxt t)]
      | some (.captured _) => Json.mkObj [("clause", "captured")]
      | some (.callCaptured _) => Json.mkObj [("clause", "call_captured")]
      | Option.none => Json.mkObj [("clause", Json.null)]
  | "ns_constant" =>
    let v ← decVal (← field j "v")
    return match nsConstant identSort v with
      | some (.literal t) => Json.mkObj [("binding", "literal"), ("pieces", encTxt t)]
      | some (.byRef _) => Json.mkObj [("binding", "by_ref")]
      | Option.none => Json.mkObj [("binding", Json.null)]
  | "call_plan" => callPlan j
  | "load_model" => loadModelOp j
  | _ => throw s!"unknown op {op}"

end Adaptix.Ops.C08
