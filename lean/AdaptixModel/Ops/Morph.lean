import AdaptixModel.Protocol
import AdaptixModel.Morph.Load
import AdaptixModel.Morph.Dump
import AdaptixModel.Morph.DumpView
import AdaptixModel.Morph.Scalars

namespace Adaptix.Ops.Morph
open Lean Adaptix.Protocol Adaptix.Py Adaptix.Morph

/-! ### JSON codecs -/

def decInt (j : Json) : Except String Int :=
  match j with
  | .str s => match s.toInt? with
    | some i => .ok i
    | none => .error s!"bad int {s}"
  | _ => asInt j

partial def decVal (j : Json) : Except String Val := do
  let a ← asArr j
  match a with
  | [Json.str "n"] => return .none
  | [Json.str "b", Json.bool b] => return .bool b
  | [Json.str "i", i] => return .int (← decInt i)
  | [Json.str "f", Json.str "nan"] => return .float .nan
  | [Json.str "f", Json.str "inf"] => return .float (.inf false)
  | [Json.str "f", Json.str "-inf"] => return .float (.inf true)
  | [Json.str "f", Json.str "-0"] => return .float .negZero
  | [Json.str "f", m, e] => return .float (.fin (← decInt m) (← decInt e))
  | [Json.str "s", Json.str s] => return .str s
  | [Json.str "y", b] => return .bytes (← (← asArr b).mapM asNat)
  | [Json.str "Y", b] => return .bytearray (← (← asArr b).mapM asNat)
  | [Json.str "l", xs] => return .list (← (← asArr xs).mapM decVal)
  | [Json.str "t", xs] => return .tuple (← (← asArr xs).mapM decVal)
  | [Json.str "S", xs] => return .set (← (← asArr xs).mapM decVal)
  | [Json.str "F", xs] => return .frozenset (← (← asArr xs).mapM decVal)
  | [Json.str "q", xs] => return .deque (← (← asArr xs).mapM decVal)
  | [Json.str "it", xs] => return .iter (← (← asArr xs).mapM decVal)
  | [Json.str "d", kvs] =>
    let ps ← (← asArr kvs).mapM fun p => do
      match (← asArr p) with
      | [k, v] => return (← decVal k, ← decVal v)
      | _ => throw "bad dict pair"
    return .dict ps
  | [Json.str "o", Json.str c, fs] =>
    let ps ← (← asArr fs).mapM fun p => do
      match (← asArr p) with
      | [Json.str n, v] => return (n, ← decVal v)
      | _ => throw "bad field pair"
    return .obj c ps
  | [Json.str "a", Json.str k, Json.str t] => return .atom k t
  | [Json.str "x", Json.str t] => return .opaque t
  | _ => throw s!"bad value {j.compress}"

def encInt (i : Int) : Json := Json.str (toString i)

partial def encVal : Val → Json
  | .none => listJ ["n"]
  | .bool b => listJ ["b", Json.bool b]
  | .int i => listJ ["i", encInt i]
  | .float .nan => listJ ["f", "nan"]
  | .float (.inf false) => listJ ["f", "inf"]
  | .float (.inf true) => listJ ["f", "-inf"]
  | .float .negZero => listJ ["f", "-0"]
  | .float (.fin m e) => listJ ["f", encInt m, encInt e]
  | .str s => listJ ["s", Json.str s]
  | .bytes b => listJ ["y", listJ (b.map natJ)]
  | .bytearray b => listJ ["Y", listJ (b.map natJ)]
  | .list xs => listJ ["l", listJ (xs.map encVal)]
  | .tuple xs => listJ ["t", listJ (xs.map encVal)]
  | .set xs => listJ ["S", listJ (xs.map encVal)]
  | .frozenset xs => listJ ["F", listJ (xs.map encVal)]
  | .deque xs => listJ ["q", listJ (xs.map encVal)]
  | .iter xs => listJ ["it", listJ (xs.map encVal)]
  | .dict kvs => listJ ["d", listJ (kvs.map fun (k, v) => listJ [encVal k, encVal v])]
  | .obj c fs => listJ ["o", Json.str c, listJ (fs.map fun (n, v) => listJ [Json.str n, encVal v])]
  | .atom k t => listJ ["a", Json.str k, Json.str t]
  | .opaque t => listJ ["x", Json.str t]

def decFactory : String → Except String Factory
  | "list" => .ok .list | "tuple" => .ok .tuple | "set" => .ok .set
  | "frozenset" => .ok .frozenset | "deque" => .ok .deque
  | s => .error s!"bad factory {s}"

partial def decTy (j : Json) : Except String Ty := do
  let a ← asArr j
  match a with
  | [Json.str "scalar", Json.str n] => return .scalar n
  | [Json.str "any"] => return .any
  | [Json.str "literal", vs] => return .literal (← (← asArr vs).mapM decVal)
  | [Json.str "union", ts, ks] => return .union (← (← asArr ts).mapM decTy) (← (← asArr ks).mapM asStr)
  | [Json.str "iter", Json.str f, Json.bool dl, t] => return .iter (← decFactory f) dl (← decTy t)
  | [Json.str "tuple", ts] => return .tuple (← (← asArr ts).mapM decTy)
  | [Json.str "dict", k, v] => return .dict (← decTy k) (← decTy v)
  | [Json.str "model", Json.str c] => return .model c
  | _ => throw s!"bad type {j.compress}"

def encTrailEl : TrailEl → Json
  | .idx i => listJ ["idx", natJ i]
  | .key k => listJ ["key", encVal k]
  | .itemKey k => listJ ["itemKey", encVal k]
  | .attr n => listJ ["attr", Json.str n]

partial def encErr : LErr → Json
  | .mk c t i d ch => Json.mkObj [
      ("cls", Json.str c), ("trail", listJ (t.map encTrailEl)),
      ("input", match i with | some v => encVal v | none => Json.null),
      ("detail", listJ (d.map Json.str)), ("children", listJ (ch.map encErr))]

def encOutcome : Outcome Val → Json
  | .ok v => Json.mkObj [("r", "ok"), ("v", encVal v)]
  | .err e => Json.mkObj [("r", "err"), ("e", encErr e)]
  | .escape x => Json.mkObj [("r", "escape"), ("exc", Json.str x)]
  | .diverge => Json.mkObj [("r", "diverge")]

def decTrail : String → Except String DebugTrail
  | "DISABLE" => .ok .disable | "FIRST" => .ok .first | "ALL" => .ok .all
  | s => .error s!"bad debug_trail {s}"

/-! ### the world of one request -/

structure SiteRow where
  scalar : String
  strict : Bool
  datum : Val
  outs : List (String × MiniPy.SiteOut Val)

structure DumpRow where
  scalar : String
  value : Val
  out : Outcome Val

def decSiteOut (j : Json) : Except String (MiniPy.SiteOut Val) := do
  match (← asArr j) with
  | [Json.str "val", v] => return .val (← decVal v)
  | [Json.str "falsy", v] => return .falsy (← decVal v)
  | [Json.str "raises", Json.str e] => return .raises e
  | _ => throw "bad site outcome"

def decSiteRow (j : Json) : Except String SiteRow := do
  let outsJ ← field j "outs"
  let outs ← match outsJ with
    | .obj kvs => kvs.toList.mapM fun (k, v) => do return (k, ← decSiteOut v)
    | _ => throw "outs: expected object"
  return { scalar := ← fieldStr j "scalar", strict := ← fieldBool j "strict",
           datum := ← decVal (← field j "datum"), outs := outs }

def decDumpRow (j : Json) : Except String DumpRow := do
  let o ← asArr (← field j "out")
  let out ← match o with
    | [Json.str "ok", v] => pure (Outcome.ok (← decVal v))
    | [Json.str "raises", Json.str e] => pure (Outcome.escape e)
    | _ => throw "bad dump outcome"
  return { scalar := ← fieldStr j "scalar", value := ← decVal (← field j "value"), out := out }

/-- a scalar leaf: run the TRANSLATED closure of the working tree on the datum, with the call
    sites answered by the outcomes the harness observed on the real stdlib -/
def siteOracle (rows : List SiteRow) : SiteOracle := fun strict s d n =>
  match rows.find? (fun r => r.scalar == s && r.strict == strict && Val.same r.datum d) with
  | some r => (match r.outs.find? (fun p => p.1 == n) with
    | some p => p.2
    | none => .raises "MissingSiteOutcome")
  | none => .raises "MissingSiteOutcome"

/-- a USER leaf (`loader(U, fn)` in the recipe of the harness): no library code at all, its outcome on each
    datum is what the harness's own function does -/
structure LeafRow where
  scalar : String
  datum : Val
  out : Outcome Val

def decLeafRow (j : Json) : Except String LeafRow := do
  let d ← decVal (← field j "datum")
  let o ← asArr (← field j "out")
  let out ← match o with
    | [Json.str "ok", v] => pure (Outcome.ok (← decVal v))
    | [Json.str "err", Json.str c] => pure (Outcome.err (LErr.leaf c d))
    | [Json.str "escape", Json.str e] => pure (Outcome.escape e)
    | _ => throw "bad leaf outcome"
  return { scalar := ← fieldStr j "scalar", datum := d, out := out }

def scalarLoad (rows : List SiteRow) (leaves : List LeafRow) : Bool → String → Val → Outcome Val :=
  fun strict s d =>
    if s.startsWith "user:" then
      match leaves.find? (fun r => r.scalar == s && Val.same r.datum d) with
      | some r => r.out
      | none => .escape "MissingLeafOutcome"
    else scalarLoadGen (siteOracle rows) strict s d

def scalarDump (rows : List DumpRow) (s : String) (x : Val) : Outcome Val :=
  if Generated.Scalars.asIsDumpScalars.contains s then .ok x
  else
    match rows.find? (fun r => r.scalar == s && Val.same r.value x) with
    | some r => r.out
    | none => .escape "MissingDumpOutcome"

def decField (j : Json) : Except String Field := do
  return { name := ← fieldStr j "name", ty := ← decTy (← field j "ty"),
           required := ← fieldBool j "required",
           default := ← (do decVal (← field j "default")) <|> pure Val.none }

def pyMro (mros : List (String × List String)) (x : Val) : List String :=
  match x with
  | .bool _ => ["bool", "int", "object"]
  | .obj c _ => (match mros.find? (fun p => p.1 == c) with | some p => p.2 | none => [c, "object"])
  | .atom k _ => (match mros.find? (fun p => p.1 == k) with | some p => p.2 | none => [k, "object"])
  | v => [v.tag, "object"]

def handle : Protocol.Handler := fun j => do
  let op ← fieldStr j "op"
  let cfg : Cfg := { trail := ← decTrail (← fieldStr j "trail"), strict := ← fieldBool j "strict" }
  let ty ← decTy (← field j "ty")
  let fuel ← (fieldNat j "fuel" <|> pure 64)
  let classes ← (do
      match (← field j "classes") with
      | .obj kvs => kvs.toList.mapM fun (k, v) => do return (k, ← (← asArr v).mapM decField)
      | _ => throw "classes: expected object") <|> pure []
  let siteRows ← (do (← fieldArr j "sites").mapM decSiteRow) <|> pure []
  let dumpRows ← (do (← fieldArr j "dumps").mapM decDumpRow) <|> pure []
  let leafRows ← (do (← fieldArr j "leaves").mapM decLeafRow) <|> pure []
  let mros ← (do
      match (← field j "mros") with
      | .obj kvs => kvs.toList.mapM fun (k, v) => do return (k, ← (← asArr v).mapM asStr)
      | _ => throw "mros: expected object") <|> pure []
  let W : World := {
    classes := fun c => (classes.find? (fun p => p.1 == c)).map (·.2),
    scalarLoad := scalarLoad siteRows leafRows, scalarDump := scalarDump dumpRows }
  let supers ← (do
      match (← field j "supers") with
      | .obj kvs => kvs.toList.mapM fun (k, v) => do return (k, ← (← asArr v).mapM asStr)
      | _ => throw "supers: expected object") <|> pure []
  let clsOf (x : Val) : String := match x with | .obj c _ => c | v => v.tag
  let DW : DumpWorld := {
    mro := pyMro mros,
    supers := fun x => match supers.find? (fun p => p.1 == clsOf x) with | some p => p.2 | none => [] }
  match op with
  | "load" => return encOutcome (load W cfg fuel ty (← decVal (← field j "datum")))
  | "dump" => return encOutcome (dumpTop W DW cfg fuel ty (← decVal (← field j "value")))
  | "roundtrip" =>
    let x ← decVal (← field j "value")
    match dumpTop W DW cfg fuel ty x with
    | .ok d => return Json.mkObj [("dumped", encVal d), ("loaded", encOutcome (load W cfg fuel ty d))]
    | o => return Json.mkObj [("dump_failed", encOutcome o)]
  | _ => throw s!"unknown op {op}"

end Adaptix.Ops.Morph
