import AdaptixModel.Protocol
import AdaptixModel.Gen.Quote
import AdaptixModel.Gen.Names
import AdaptixModel.Gen.Skeleton
import AdaptixModel.Gen.CtorCall
import AdaptixModel.Gen.Broach
import AdaptixModel.Gen.Literal
import AdaptixModel.Generated.C19Sites

/-! JSON ops of the C19 driver.  Strings travel as arrays of code points. -/
namespace Adaptix.Ops.C19
open Lean Adaptix.Protocol Adaptix.Gen

def decStr (j : Json) : Except String Str := do (← asArr j).mapM asNat
def encStr (s : Str) : Json := listJ (s.map natJ)
def fieldS (j : Json) (k : String) : Except String Str := do decStr (← field j k)

def oracle (l : List Nat) : Nat → Bool := fun c => l.contains c

def encTok : Tok → Json
  | .name s => Json.mkObj [("t", "name"), ("s", encStr s)]
  | .num s => Json.mkObj [("t", "num"), ("s", encStr s)]
  | .str s => Json.mkObj [("t", "str"), ("s", encStr s)]
  | .op c => Json.mkObj [("t", "op"), ("c", natJ c)]
  | .nl k => Json.mkObj [("t", "nl"), ("k", natJ k)]
  | .comment => Json.mkObj [("t", "comment")]

def encSkel : Skel → Json
  | .gen p => Json.mkObj [("t", "gen"), ("s", encStr p)]
  | .fixed w => Json.mkObj [("t", "fixed"), ("s", encStr w)]
  | .num d => Json.mkObj [("t", "num"), ("s", encStr d)]
  | .str => Json.mkObj [("t", "str")]
  | .op c => Json.mkObj [("t", "op"), ("c", natJ c)]
  | .nl k => Json.mkObj [("t", "nl"), ("k", natJ k)]
  | .comment => Json.mkObj [("t", "comment")]

def decPiece (j : Json) : Except String Piece := do
  match ← fieldStr j "p" with
  | "op" => return .op (← fieldNat j "c")
  | "sp" => return .sp
  | "nl" => return .nl (← fieldNat j "k")
  | "word" => return .word (← fieldS j "s")
  | "gname" => return .gname (← fieldS j "pre") (← fieldS j "id")
  | "key" => return .key (← fieldS j "s")
  | "int" => return .int (← fieldS j "s")
  | "comment" => return .comment (← fieldS j "s")
  | k => throw s!"bad piece {k}"

def decCParam (j : Json) : Except String CParam := do
  let kind ← match ← fieldStr j "kind" with
    | "po" => pure PKind.posOnly
    | "pk" => pure PKind.posOrKw
    | "kw" => pure PKind.kwOnly
    | k => throw s!"bad parameter kind {k}"
  return { fieldId := ← fieldS j "fid", name := ← fieldS j "name", kind := kind, leftOut := ← fieldBool j "out" }

def encArg : Arg → Json
  | .pos v => Json.mkObj [("k", "pos"), ("v", encStr v)]
  | .kw key v => Json.mkObj [("k", "kw"), ("key", encStr key), ("v", encStr v)]
  | .unpack v => Json.mkObj [("k", "unpack"), ("v", encStr v)]

/-- a finite table as the NFKC oracle: strings that are not listed are their own normal form -/
def tableFn (table : List (Str × Str)) : Str → Str :=
  fun s => match table.find? (fun e => e.1 == s) with
    | some e => e.2
    | none => s

structure NsState where
  ns : Namespace
  out : List Json
  /-- `GenState._prefix_counter` -/
  counters : List (Str × Nat) := []

/-- a broaching plan as the harness describes it (only what decides names, see Gen/Broach.lean) -/
partial def decPlan (j : Json) : Except String Plan := do
  match ← fieldStr j "e" with
  | "param" => return .param (← fieldS j "name")
  | "const" => return .const (← fieldBool j "literal") (← fieldNat j "obj")
  | "func" =>
    let nm ← field j "name"
    let name ← (if nm.isNull then pure none else do pure (some (← decStr nm)))
    let args ← (← fieldArr j "args").mapM decPlan
    return .func (← fieldBool j "transparent") (← fieldBool j "literal_factory") name (← fieldNat j "obj") args
  | "accessor" =>
    let c ← field j "custom"
    let custom ← (if c.isNull then pure none else do pure (some (← asNat c)))
    return .accessor custom (← decPlan (← field j "target"))
  | k => throw s!"bad plan element {k}"

def encReg : Reg → Json
  | .mangled raw obj => Json.mkObj [("k", "mangled"), ("raw", encStr raw), ("obj", natJ obj)]
  | .nextId pre obj => Json.mkObj [("k", "next_id"), ("prefix", encStr pre), ("obj", natJ obj)]

def nsStep (builtins : List Str) (st : NsState) (j : Json) : Except String NsState := do
  let k ← fieldStr j "k"
  match k with
  | "const" =>
    let (ok, ns') := st.ns.tryAddConstant builtins (← fieldS j "name") (← fieldNat j "obj")
    return { st with ns := ns', out := st.out ++ [Json.bool ok] }
  | "outer" =>
    let (ok, ns') := st.ns.tryAddOuterConstant builtins (← fieldS j "name") (← fieldNat j "obj")
    return { st with ns := ns', out := st.out ++ [Json.bool ok] }
  | "var" =>
    let (ok, ns') := st.ns.tryRegisterVar builtins (← fieldS j "name")
    return { st with ns := ns', out := st.out ++ [Json.bool ok] }
  | "mangle" =>
    match registerMangled builtins st.ns (← fieldS j "base") (← fieldNat j "obj") 10000 with
    | some (n, ns') => return { st with ns := ns', out := st.out ++ [encStr n] }
    | none => return { st with out := st.out ++ [Json.null] }
  | "mangle_raw" =>
    -- `register_mangled` on raw text: sanitise-or-underscore first (`idcont` = identifier characters of the text)
    let ic ← fieldS j "idcont"
    match registerMangledRaw (oracle ic) pyKeywords builtins st.ns (← fieldS j "base") (← fieldNat j "obj") 10000 with
    | some (n, ns') => return { st with ns := ns', out := st.out ++ [encStr n] }
    | none => return { st with out := st.out ++ [Json.null] }
  | "next_id" =>
    -- `GenState.register_next_id(prefix, obj)`: `prefix_<counter>` as the BASIS of `register_mangled`
    let ic ← fieldS j "idcont"
    match registerNextId (oracle ic) pyKeywords builtins { ns := st.ns, counters := st.counters }
        (← fieldS j "prefix") (← fieldNat j "obj") 10000 with
    | some (n, g) => return { ns := g.ns, counters := g.counters, out := st.out ++ [encStr n] }
    | none => return { st with out := st.out ++ [Json.null] }
  | _ => throw s!"bad namespace op {k}"

def encSpec (s : NameSpec) : Json :=
  Json.mkObj [("families", listJ (s.families.map encStr)), ("fixed", listJ (s.fixed.map encStr)),
              ("heads", listJ (s.heads.map encStr))]

/-! the literal renderer (`Gen/Literal.lean`) -/
open Adaptix.Gen.Literal in
def decLeafKind (k : String) (j : Json) : Except String (Option Leaf) := do
  match k with
  | "int" => return some (.int (← fieldInt j "v"))
  | "str" => return some (.str (← fieldS j "s"))
  | "bytes" => return some (.bytes (← fieldS j "b"))
  | "float" => return some (.float (← fieldS j "r"))
  | _ => return none

open Adaptix.Gen.Literal in
partial def decVal (j : Json) : Except String PyVal := do
  let k ← fieldStr j "k"
  match ← decLeafKind k j with
  | some l => return .leaf l
  | none =>
  match k with
  | "bytearray" => return .bytearray (← fieldS j "b")
  | "nonfinite" => return .nonfinite
  | "builtin" => return .builtin (← fieldS j "n")
  | "opaque" => return .opaque (← fieldNat j "t")
  | "list" => return .list (← (← fieldArr j "xs").mapM decVal)
  | "tuple" => return .tuple (← (← fieldArr j "xs").mapM decVal)
  | "set" => return .set (← (← fieldArr j "xs").mapM decVal)
  | "frozenset" => return .frozenset (← (← fieldArr j "xs").mapM decVal)
  | "slice" => return .slice (← decVal (← field j "a")) (← decVal (← field j "b")) (← decVal (← field j "c"))
  | "range" => return .range (← fieldInt j "a") (← fieldInt j "b") (← fieldInt j "c")
  | "dict" => return .dict (← (← fieldArr j "ks").mapM decVal) (← (← fieldArr j "vs").mapM decVal)
  | _ => throw s!"bad value kind {k}"

open Adaptix.Gen.Literal in
def encLeaf : Leaf → Json
  | .int n => Json.mkObj [("k", "int"), ("v", intJ n)]
  | .str s => Json.mkObj [("k", "str"), ("s", encStr s)]
  | .bytes b => Json.mkObj [("k", "bytes"), ("b", encStr b)]
  | .float r => Json.mkObj [("k", "float"), ("r", encStr r)]

open Adaptix.Gen.Literal in
def ctorName : Ctor → String
  | .set => "set" | .frozenset => "frozenset" | .slice => "slice" | .range => "range" | .bytearray => "bytearray"

open Adaptix.Gen.Literal in
partial def encExpr : Expr → Json
  | .const l => Json.mkObj [("e", "const"), ("l", encLeaf l)]
  | .name n => Json.mkObj [("e", "name"), ("n", encStr n)]
  | .list es => Json.mkObj [("e", "list"), ("es", listJ (es.map encExpr))]
  | .tuple es => Json.mkObj [("e", "tuple"), ("es", listJ (es.map encExpr))]
  | .set es => Json.mkObj [("e", "set"), ("es", listJ (es.map encExpr))]
  | .dict ks vs => Json.mkObj [("e", "dict"), ("ks", listJ (ks.map encExpr)), ("vs", listJ (vs.map encExpr))]
  | .call f args => Json.mkObj [("e", "call"), ("f", ctorName f), ("args", listJ (args.map encExpr))]

def handle : Protocol.Handler := fun j => do
  let op ← fieldStr j "op"
  match op with
  | "literal" =>
    -- `get_literal_expr(value)`: the expression tree of the text, or null
    let v ← decVal (← field j "v")
    match Adaptix.Gen.Literal.toExpr v with
    | some e => return Json.mkObj [("expr", encExpr e), ("renderable", Json.bool (Adaptix.Gen.Literal.renderable v))]
    | none => return Json.mkObj [("expr", Json.null), ("renderable", Json.bool (Adaptix.Gen.Literal.renderable v))]
  | "repr" =>
    let s ← fieldS j "s"
    let pr ← fieldS j "printable"
    return encStr (pyRepr (oracle pr) s)
  | "lex" =>
    let s ← fieldS j "s"
    match lexString s with
    | none => return Json.null
    | some (v, rest) => return listJ [encStr v, encStr rest]
  | "roundtrip" =>
    -- lexString (repr s ++ rest) as one step (what `repr_lex_roundtrip` is about)
    let s ← fieldS j "s"
    let pr ← fieldS j "printable"
    let rest ← fieldS j "rest"
    match lexString (pyRepr (oracle pr) s ++ rest) with
    | none => return Json.null
    | some (v, r) => return listJ [encStr v, encStr r]
  | "sanitize" =>
    let s ← fieldS j "s"
    let ic ← fieldS j "idcont"
    return encStr (sanitize (oracle ic) pyKeywords s)
  | "keywords" => return listJ (pyKeywords.map encStr)
  | "closure" =>
    -- the identifier written into the source for a function named `s`, and the tokens of `def <it>(`
    let s ← fieldS j "s"
    let ic ← fieldS j "idcont"
    let cn := closureName (oracle ic) pyKeywords s
    return Json.mkObj [("name", encStr cn),
      ("keyword", Json.bool ((Tok.name cn).isKeyword pyKeywords)),
      ("header", match tokenize (defHeader cn) with | none => Json.null | some ts => listJ (ts.map encTok)),
      ("call", match tokenize (callHead cn) with | none => Json.null | some ts => listJ (ts.map encTok))]
  | "ctorcall" =>
    -- the constructor call `_gen_constructor_call` writes for a parameter list: text, what the model lexer makes of
    -- it, the parser's reading of these tokens and the call plan the shape asks for
    let ps ← (← fieldArr j "params").mapM decCParam
    let pr ← fieldS j "printable"
    let ist ← fieldS j "idstart"
    let ic ← fieldS j "idcont"
    let table ← (← fieldArr j "nfkc").mapM (fun e => do
      let pair ← asArr e
      match pair with
      | [a, b] => return (← decStr a, ← decStr b)
      | _ => throw "bad nfkc pair")
    let nfkc := tableFn table
    let ind ← fieldNat j "ind"
    let packed ← fieldBool j "packed"
    let extra ← (do let e ← field j "extra"; if e.isNull then pure none else pure (some (← decStr e)))
    let canKw := canBeKeywordArgName (oracle ist) (oracle ic) pyKeywords nfkc
    let txt := render (oracle pr) (ctorCall canKw ind packed extra ps)
    let lexed := tokenize txt
    let encPlan : Option (Str × List Arg) → Json := fun r => match r with
      | none => Json.null
      | some (f, as) => Json.mkObj [("callee", encStr f), ("args", listJ (as.map encArg))]
    return Json.mkObj [("text", encStr txt),
      ("can_kw", listJ (ps.map (fun p => Json.bool (canKw p.name)))),
      ("lexed", match lexed with | none => Json.null | some ts => listJ (ts.map encTok)),
      ("plan", match lexed with | none => Json.null | some ts => encPlan (parseCall pyKeywords nfkc ts)),
      ("expected", encPlan (some (constructorWord, expectedArgs false ps ++ expectedTail packed extra)))]
  | "idcont_ascii" => return listJ (((List.range 128).filter isIdCont).map natJ)
  | "idstart_ascii" => return listJ (((List.range 128).filter isIdStart).map natJ)
  | "tokenize" =>
    let s ← fieldS j "s"
    let fams ← (← fieldArr j "fams").mapM decStr
    match tokenize s with
    | none => return Json.null
    | some ts => return Json.mkObj [("toks", listJ (ts.map encTok)), ("skel", listJ ((skeleton fams ts).map encSkel))]
  | "render" =>
    let ps ← (← fieldArr j "pieces").mapM decPiece
    let pr ← fieldS j "printable"
    let txt := render (oracle pr) ps
    return Json.mkObj [("text", encStr txt), ("toks", listJ ((ps.filterMap Piece.toTok).map encTok)),
      ("lexed", match tokenize txt with | none => Json.null | some ts => listJ (ts.map encTok))]
  | "keyseq" =>
    -- `_parenthesize(parentheses, strings)`: text, the tokens it must have, and what the model lexer makes of the text
    let ks ← (← fieldArr j "keys").mapM decStr
    let pr ← fieldS j "printable"
    let o ← fieldNat j "open"
    let c ← fieldNat j "close"
    let txt := render (oracle pr) (keySeq o c ks)
    return Json.mkObj [("text", encStr txt), ("toks", listJ ((keySeqToks o c ks).map encTok)),
      ("lexed", match tokenize txt with | none => Json.null | some ts => listJ (ts.map encTok))]
  | "namespace" =>
    let occ ← (← fieldArr j "occupied").mapM decStr
    let allow ← (fieldBool j "allow_builtins" <|> pure false)
    let init : NsState := { ns := { occupied := occ, allowBuiltins := allow }, out := [] }
    let st ← (← fieldArr j "ops").foldlM (nsStep Adaptix.Generated.C19.builtinNames) init
    return listJ st.out
  | "broach" =>
    -- the names `BuiltinBroachingCodeGenerator.produce_code` allocates for a plan: the requests in generation order,
    -- the name handed out for each, and the constants of the final namespace (insertion order) with their objects
    let plan ← decPlan (← field j "plan")
    let occ ← (← fieldArr j "occupied").mapM decStr
    let outer ← (← fieldArr j "outer").mapM decStr
    let ic ← fieldS j "idcont"
    let regs := planRegs plan
    match planNames (oracle ic) pyKeywords Adaptix.Generated.C19.builtinNames occ (outer.map (fun n => (n, 0))) plan
        (10000 + regs.length) with
    | none => return Json.null
    | some (names, g) => return Json.mkObj [("regs", listJ (regs.map encReg)), ("names", listJ (names.map encStr)),
        ("constants", listJ (g.ns.constants.map (fun e => listJ [encStr e.1, natJ e.2])))]
  | "alloc" =>
    -- the same for a bare list of requests (the harness derives it from the recipe of a converter)
    let regs ← (← fieldArr j "regs").mapM (fun r => do
      match ← fieldStr r "k" with
      | "mangled" => return Reg.mangled (← fieldS r "raw") (← fieldNat r "obj")
      | "next_id" => return Reg.nextId (← fieldS r "prefix") (← fieldNat r "obj")
      | k => throw s!"bad request {k}")
    let occ ← (← fieldArr j "occupied").mapM decStr
    let outer ← (← fieldArr j "outer").mapM decStr
    let ic ← fieldS j "idcont"
    match allocNames (oracle ic) pyKeywords Adaptix.Generated.C19.builtinNames regs
        { ns := { occupied := occ, outer := outer.map (fun n => (n, 0)) } } (10000 + regs.length) with
    | none => return Json.null
    | some (names, g) => return Json.mkObj [("names", listJ (names.map encStr)),
        ("constants", listJ (g.ns.constants.map (fun e => listJ [encStr e.1, natJ e.2])))]
  | "specs" =>
    return Json.mkObj [("loader", encSpec Adaptix.Generated.C19.loaderSpec),
      ("dumper", encSpec Adaptix.Generated.C19.dumperSpec),
      ("separated_loader", Json.bool (Adaptix.Generated.C19.loaderSpec.separated Adaptix.Generated.C19.builtinNames)),
      ("separated_dumper", Json.bool (Adaptix.Generated.C19.dumperSpec.separated Adaptix.Generated.C19.builtinNames)),
      ("n_sites", natJ Adaptix.Generated.C19.sites.length),
      ("next_id_prefixes", listJ (Adaptix.Generated.C19.nextIdPrefixes.map encStr)),
      ("next_id_through_mangling", Json.bool Adaptix.Generated.C19.nextIdThroughMangling),
      ("unsafe_sites", listJ ((Adaptix.Generated.C19.sites.filter (fun s => !s.safe)).map
          (fun s => Json.str s!"{s.file}:{s.line} {s.expr}")))]
  | _ => throw s!"unknown op {op}"

end Adaptix.Ops.C19
