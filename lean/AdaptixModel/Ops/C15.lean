import AdaptixModel.Protocol
import AdaptixModel.Types.Normalize
import AdaptixModel.Types.HintVars

/-!
  JSON ops of the C15 model.

  request  {"op": "normalize", "env": ENV, "hint": HINT}          -> NORM
           {"op": "tv_limit",  "env": ENV, "hint": HINT(tv)}      -> {"constraints": bool, "values": [NORM]}
           {"op": "lit_key",   "env": ENV, "v": LIT}              -> {"text": str, "id": nat}
           {"op": "order_key", "env": ENV, "hint": HINT}          -> KEY of the normal form
           {"op": "generic_info", "genv": GENV, "hint": HINT}     -> {"type_vars": [id], "tvp": [id], "generic": bool,
                                                                      "bare": bool, "parametrized": bool, "cls": str}
  GENV  = {"builtin": [id], "opaque": [id], "tuple_in_table": bool, "type_in_table": bool}
  ATOM  = {"id": nat, "s": str}
  ENV   = {"none": [str, nat], "any": …, "union": …, "literal": …, "annotated": …, "tuple": …, "type": …, "ellipsis": str}
-/
namespace Adaptix.Ops.C15
open Lean Adaptix.Protocol Adaptix.Types

/-- an object a hint mentions, as seen by the normaliser -/
structure Atom where
  id : Nat
  s : Str
deriving DecidableEq, Repr

def toStr (s : String) : Str := s.toList
def ofStr (s : Str) : String := String.ofList s

def decAtom (j : Json) : Except String Atom := do
  return { id := ← fieldNat j "id", s := toStr (← fieldStr j "s") }

def decPair (j : Json) (k : String) : Except String (Str × Nat) := do
  match ← fieldArr j k with
  | [s, n] => return (toStr (← asStr s), ← asNat n)
  | _ => throw s!"env field {k}: expected [str, nat]"

def decEnv (j : Json) : Except String (World Atom) := do
  return {
    str := (·.s), ident := (·.id),
    noneKey := ← decPair j "none", anyKey := ← decPair j "any", unionKey := ← decPair j "union",
    literalKey := ← decPair j "literal", annotatedKey := ← decPair j "annotated",
    tupleKey := ← decPair j "tuple", typeKey := ← decPair j "type",
    ellipsisText := toStr (← fieldStr j "ellipsis") }

def decLit (j : Json) : Except String (LitVal Atom) := do
  match ← fieldStr j "t" with
  | "int" => return .int (← fieldInt j "v")
  | "bool" => return .bool (← fieldBool j "v")
  | "str" => return .str (toStr (← fieldStr j "v"))
  | "bytes" => return .bytes (toStr (← fieldStr j "v"))
  | "enum" => return .enum (← decAtom (← field j "c")) (toStr (← fieldStr j "n"))
  | "none" => return .none
  | t => throw s!"bad literal type {t}"

partial def decHint (j : Json) : Except String (Hint Atom) := do
  let list (k : String) : Except String (List (Hint Atom)) := do (← fieldArr j k).mapM decHint
  match ← fieldStr j "k" with
  | "none" => return .none (← fieldBool j "sp")
  | "any" => return .any
  | "cls" => return .cls (← decAtom (← field j "a"))
  | "newtype" => return .newType (← decAtom (← field j "a"))
  | "tv" => return .typeVar (← decAtom (← field j "a")) (← fieldBool j "c") (← list "lim")
  | "bare" => return .bare (← fieldBool j "alias") (← decAtom (← field j "a")) (← list "params")
  | "app" => return .app (← fieldBool j "alias") (← decAtom (← field j "a")) (← list "args")
  | "tuple_bare" => return .tupleBare (← fieldBool j "alias")
  | "tuple_var" => return .tupleVar (← fieldBool j "alias") (← decHint (← field j "h"))
  | "tuple_fix" => return .tupleFix (← fieldBool j "alias") (← list "hs")
  | "type_bare" => return .typeBare (← fieldBool j "alias")
  | "type_of" => return .typeOf (← fieldBool j "alias") (← decHint (← field j "h"))
  | "union" => return .union (← fieldBool j "op") (← list "ms")
  | "optional" => return .optional (← decHint (← field j "h"))
  | "literal" => return .literal (← (← fieldArr j "vs").mapM decLit)
  | "annotated" =>
    return .annotated (← decHint (← field j "h")) ((← (← fieldArr j "metas").mapM asStr).map toStr)
  | k => throw s!"bad hint kind {k}"

def encLit : LitVal Atom → Json
  | .int i => Json.mkObj [("t", "int"), ("v", intJ i)]
  | .bool b => Json.mkObj [("t", "bool"), ("v", Json.bool b)]
  | .str s => Json.mkObj [("t", "str"), ("v", Json.str (ofStr s))]
  | .bytes s => Json.mkObj [("t", "bytes"), ("v", Json.str (ofStr s))]
  | .enum c n => Json.mkObj [("t", "enum"), ("c", natJ c.id), ("n", Json.str (ofStr n))]
  | .none => Json.mkObj [("t", "none")]

def encOrigin : Origin Atom → Json
  | .none => "none" | .any => "any" | .union => "union" | .literal => "literal"
  | .annotated => "annotated" | .tuple => "tuple" | .type => "type"
  | .obj a => Json.mkObj [("obj", natJ a.id)]

partial def encNorm : Norm Atom → Json
  | .node o args => Json.mkObj [("o", encOrigin o), ("args", listJ (args.map encNorm))]
  | .ellipsis => "..."
  | .lit v => Json.mkObj [("lit", encLit v)]
  | .mdata m => Json.mkObj [("meta", Json.str (ofStr m))]

partial def encKey : OKey → Json
  | .mk t i kids => listJ [Json.str (ofStr t), natJ i, listJ (kids.map encKey)]

/-- Hints containing an unsubscribed special form / a non-type object are refused by
    `_check_bad_input` / `_norm_other` when the traversal (args in order, depth first)
    reaches them; the harness marks such nodes `{"k": "bad", "kind": <exception class>}`. -/
partial def findBad (j : Json) : Option String :=
  match j with
  | .arr a => a.toList.findSome? findBad
  | .obj _ =>
    match j.getObjValAs? String "k" with
    | .ok "bad" => (j.getObjValAs? String "kind").toOption
    | _ => ["h", "hs", "ms", "args"].findSome? fun k =>
        match j.getObjVal? k with
        | .ok v => findBad v
        | .error _ => none
  | _ => none

def decGenEnv (j : Json) : Except String (GenEnv Atom) := do
  let builtin ← (← fieldArr j "builtin").mapM asNat
  let noPar ← (← fieldArr j "opaque").mapM asNat
  return { builtin := fun a => builtin.contains a.id, noParams := fun a => noPar.contains a.id,
           tupleInTable := ← fieldBool j "tuple_in_table", typeInTable := ← fieldBool j "type_in_table" }

def genericInfo (E : GenEnv Atom) (h : Hint Atom) : Json :=
  Json.mkObj [
    ("type_vars", listJ ((getTypeVars E h).map fun a => natJ a.id)),
    ("tvp", listJ ((typeVarsOfParametrized E h).map fun a => natJ a.id)),
    ("generic", Json.bool (isGeneric E h)),
    ("bare", Json.bool (isBareGeneric E h)),
    ("parametrized", Json.bool (isParametrized E h)),
    ("cls", Json.str (reprStr (objFacts E h).cls))]

def handle : Protocol.Handler := fun j => do
  let op ← fieldStr j "op"
  if op == "generic_info" then
    let E ← decGenEnv (← field j "genv")
    let h ← decHint (← field j "hint")
    return genericInfo E h
  let W ← decEnv (← field j "env")
  match op with
  | "normalize" =>
    let hj ← field j "hint"
    match findBad hj with
    | some kind => return Json.mkObj [("raises", Json.str kind)]
    | none =>
      let h ← decHint hj
      return encNorm (normalize W h)
  | "tv_limit" =>
    let h ← decHint (← field j "hint")
    let (c, vs) := tvLimit W h
    return Json.mkObj [("constraints", Json.bool c), ("values", listJ (vs.map encNorm))]
  | "lit_key" =>
    let v ← decLit (← field j "v")
    match litKey W v with
    | .mk t i _ => return Json.mkObj [("text", Json.str (ofStr t)), ("id", natJ i)]
  | "order_key" =>
    let h ← decHint (← field j "hint")
    return encKey (orderKey W (normalize W h))
  | _ => throw s!"unknown op {op}"

end Adaptix.Ops.C15
