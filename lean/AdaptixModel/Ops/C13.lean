/-
  JSON ops of the C13 model driver.

  op "convert": a world (class table), a converter signature, a recipe and a
  list of calls; answers whether a converter is produced and, per call, the
  value the model converter returns and the value of `convertSpec`.
  op "link": the linking of every field of one destination model.
  op "history": a list of initial retort recipes and a list of facade operations
  (extend / get_converter / convert / impl_converter, each with its per-call
  recipe and calls); answers per operation what the facade model with its
  converter cache returns (`runHistory`) and, independently, `convertSpec`
  under the recipe the specification puts in force (`specRecipes`).
-/
import AdaptixModel.Protocol
import AdaptixModel.Conv.Convert
import AdaptixModel.Conv.Facade
import AdaptixModel.Conv.Generic

namespace Adaptix.Ops.C13
open Lean Adaptix.Protocol Adaptix.Conv13

def decIterOrigin (s : String) : Except String IterOrigin :=
  match s with
  | "list" => pure .list | "tuple" => pure .tuple | "set" => pure .set | "deque" => pure .deque
  | "iterable" => pure .iterable | "reversible" => pure .reversible | "collection" => pure .collection
  | "sequence" => pure .sequence | "mutable_sequence" => pure .mutableSequence
  | "abs_set" => pure .absSet | "mutable_set" => pure .mutableSet | "frozenset" => pure .frozenset
  | _ => throw s!"bad iterable origin {s}"

def encIterOrigin : IterOrigin → String
  | .list => "list" | .tuple => "tuple" | .set => "set" | .deque => "deque"
  | .iterable => "iterable" | .reversible => "reversible" | .collection => "collection"
  | .sequence => "sequence" | .mutableSequence => "mutable_sequence"
  | .absSet => "abs_set" | .mutableSet => "mutable_set" | .frozenset => "frozenset"

partial def decTy (j : Json) : Except String Ty := do
  match ← fieldStr j "t" with
  | "leaf" => return .leaf (← fieldNat j "n")
  | "model" => return .model (← fieldNat j "cls") (← fieldNat j "inst")
  | "opt" => return .opt (← decTy (← field j "a"))
  | "iter" => return .iter (← decIterOrigin (← fieldStr j "o")) (← decTy (← field j "a"))
  | "dict" => return .dict (← decTy (← field j "k")) (← decTy (← field j "v"))
  | t => throw s!"bad type {t}"

def optField (j : Json) (k : String) : Option Json :=
  match j.getObjVal? k with
  | .ok .null => none
  | .ok v => some v
  | .error _ => none

/-- a field annotation of a generic class: `{"t":"var","i":k}` is the k-th declared type variable,
    `{"t":"model","cls":c,"args":[…]}` a subscribed generic class; everything without "args" /
    variables below it is a closed type -/
partial def decHint (j : Json) : Except String Hint := do
  match ← fieldStr j "t" with
  | "var" => return .var (← fieldNat j "i")
  | "model" =>
    match optField j "args" with
    | some (.arr as) => return (← as.toList.mapM decHint).foldl Hint.app (.cls (← fieldNat j "cls"))
    | _ => return .ty (← decTy j)
  | "opt" => return .opt (← decHint (← field j "a"))
  | "iter" => return .iter (← decIterOrigin (← fieldStr j "o")) (← decHint (← field j "a"))
  | "dict" => return .dict (← decHint (← field j "k")) (← decHint (← field j "v"))
  | _ => return .ty (← decTy j)

/-- Field types of a shape.  A shape of a generic class carries "tvars" (number of declared
    variables), "targs" (the closed arguments of its instantiation) and, on the fields declared
    through type variables, "hint": the type of such a field is **computed here** by the model of
    `GenericResolver` (`resolveFields`) and named through the instantiation table. -/
def resolveShapeTypes (tbl : InstTable) (e : Json) (fields : List Json) : Except String (List (Option Ty)) := do
  match optField e "tvars" with
  | none =>
    if fields.any (fun f => (optField f "hint").isSome) then throw "a hint in a shape without type variables"
    return fields.map fun _ => none
  | some n =>
    let n ← asNat n
    let args ← (← fieldArr e "targs").mapM fun a => do return Hint.ty (← decTy a)
    let hinted ← fields.filterMapM fun f => do
      match optField f "hint" with
      | none => return none
      | some h => return some (← fieldStr f "id", ← decHint h)
    let resolved := resolveFields { declared := List.range n, hints := hinted } args
    fields.mapM fun f => do
      match optField f "hint" with
      | none => return none
      | some _ =>
        let id ← fieldStr f "id"
        match resolved.lookup id with
        | none => throw s!"field {id}: not resolved"
        | some h =>
          match h.toTy tbl with
          | some t => return some t
          | none => throw s!"field {id}: the resolved hint names no type of the class table"

partial def decVal (j : Json) : Except String Val := do
  let pairs (k : String) : Except String (List (String × Val)) := do
    (← fieldArr j k).mapM fun e => do
      match ← asArr e with
      | [a, b] => return (← asStr a, ← decVal b)
      | _ => throw "bad pair"
  match ← fieldStr j "v" with
  | "atom" => return .atom (← fieldStr j "tag") (← fieldStr j "repr")
  | "none" => return .none
  | "seq" => return .seq (← decIterOrigin (← fieldStr j "kind")) (← (← fieldArr j "xs").mapM decVal)
  | "dict" =>
    let kvs ← (← fieldArr j "kvs").mapM fun e => do
      match ← asArr e with
      | [a, b] => return (← decVal a, ← decVal b)
      | _ => throw "bad kv"
    return .dict kvs
  | "obj" => return .obj (← fieldNat j "cls") (← pairs "fields")
  | "app" => return .app (← fieldNat j "f") (← (← fieldArr j "pos").mapM decVal) (← pairs "kw")
  | v => throw s!"bad value {v}"

partial def encVal : Val → Json
  | .atom t r => Json.mkObj [("v", "atom"), ("tag", t), ("repr", r)]
  | .none => Json.mkObj [("v", "none")]
  | .seq k xs => Json.mkObj [("v", "seq"), ("kind", encIterOrigin k), ("xs", listJ (xs.map encVal))]
  | .dict kvs => Json.mkObj [("v", "dict"), ("kvs", listJ (kvs.map fun (k, v) => listJ [encVal k, encVal v]))]
  | .obj c fs => Json.mkObj [("v", "obj"), ("cls", natJ c),
      ("fields", listJ (fs.map fun (k, v) => listJ [Json.str k, encVal v]))]
  | .app f pos kw => Json.mkObj [("v", "app"), ("f", natJ f), ("pos", listJ (pos.map encVal)),
      ("kw", listJ (kw.map fun (k, v) => listJ [Json.str k, encVal v]))]

def decOrigin (j : Json) : Except String Origin := do
  match ← fieldStr j "o" with
  | "leaf" => return .leaf (← fieldNat j "n")
  | "cls" => return .cls (← fieldNat j "c")
  | "union" => return .union
  | "iter" => return .iter (← decIterOrigin (← fieldStr j "k"))
  | "dict" => return .dict
  | o => throw s!"bad origin {o}"

partial def decPred (j : Json) : Except String Pred := do
  match ← fieldStr j "p" with
  | "name" => return Pred.name (← fieldStr j "n")
  | "names" =>
    let ns ← (← fieldArr j "ns").mapM asStr
    return fun st => match st with
      | l :: _ => l.isField && ns.contains l.fieldId
      | [] => false
  | "from_param" => return Pred.fromParam (← fieldStr j "n")
  | "any" => return Pred.any
  | "origin" =>
    return Pred.origin (← decOrigin (← field j "o"))
  | "gparam" => return Pred.genericPos (← fieldNat j "pos")
  | "garg" => return Pred.genericArg (← fieldNat j "pos") (← decPred (← field j "q"))
  | "end" =>
    -- given bottom first, like the checkers of a LocStackPattern
    return Pred.pattern (← (← fieldArr j "stack").mapM decPred)
  | "or" =>
    let ps ← (← fieldArr j "ps").mapM decPred
    return fun st => ps.any (fun p => p st)
  | "and" =>
    let ps ← (← fieldArr j "ps").mapM decPred
    return fun st => ps.all (fun p => p st)
  | "not" =>
    let q ← decPred (← field j "q")
    return fun st => !q st
  | p => throw s!"bad predicate {p}"

def decParamKind (s : String) : Except String ParamKind :=
  match s with
  | "pos_only" => pure .posOnly | "pos_or_kw" => pure .posOrKw | "kw_only" => pure .kwOnly
  | _ => throw s!"bad param kind {s}"

def decSigKind (s : String) : Except String SigKind :=
  match s with
  | "pos_only" => pure .posOnly | "pos_or_kw" => pure .posOrKw | "kw_only" => pure .kwOnly
  | "var_pos" => pure .varPos | "var_kw" => pure .varKw
  | _ => throw s!"bad param kind {s}"

def decAccessor (j : Json) : Except String Accessor := do
  match ← fieldStr j "a" with
  | "attr" => return .attr (← fieldStr j "n")
  | "item" => return .item (← fieldStr j "k")
  | "index" => return .index (← fieldNat j "i")
  | a => throw s!"bad accessor {a}"

def decOptVal (j : Json) (k : String) : Except String (Option Val) :=
  match optField j k with
  | none => pure none
  | some v => do return some (← decVal v)

/-- the type of a field; a field declared through type variables ("hint") has none yet: it is
    filled in by `resolveShapeTypes` -/
def decFieldTy (j : Json) : Except String Ty :=
  match optField j "hint", optField j "ty" with
  | some _, _ => pure (.leaf 0)
  | none, some t => decTy t
  | none, none => throw "missing field ty"

def decOutField (j : Json) : Except String OutField := do
  return { id := ← fieldStr j "id", ty := ← decFieldTy j, acc := ← decAccessor (← field j "acc") }

def decInField (j : Json) : Except String InField := do
  return { id := ← fieldStr j "id", ty := ← decFieldTy j, required := ← fieldBool j "required",
           default := ← decOptVal j "default" }

def decParam (j : Json) : Except String Param := do
  return { fieldId := ← fieldStr j "field", name := ← fieldStr j "name", kind := ← decParamKind (← fieldStr j "kind") }

structure WorldJ where
  outs : List (Ty × OutShape)
  ins : List (Ty × InShape)
  anyLeaf : Nat
  sub : List (Ty × Ty)

def decWorld (j : Json) : Except String WorldJ := do
  -- instantiations of generic classes: [class, [argument types], type naming the instantiation]
  let tbl : InstTable ← match optField j "insts" with
    | none => pure []
    | some v => (← asArr v).mapM fun e => do
      match ← asArr e with
      | [c, as, t] => return ((← asNat c, ← (← asArr as).mapM decTy), ← decTy t)
      | _ => throw "bad instantiation"
  let outs ← (← fieldArr j "out").mapM fun e => do
    let fj ← fieldArr e "fields"
    let fs ← fj.mapM decOutField
    let tys ← resolveShapeTypes tbl e fj
    let fs := (fs.zip tys).map fun (f, t) => match t with | some t => { f with ty := t } | none => f
    return (← decTy (← field e "ty"), ({ fields := fs } : OutShape))
  let ins ← (← fieldArr j "in").mapM fun e => do
    let fj ← fieldArr e "fields"
    let fs ← fj.mapM decInField
    let tys ← resolveShapeTypes tbl e fj
    let fs := (fs.zip tys).map fun (f, t) => match t with | some t => { f with ty := t } | none => f
    return (← decTy (← field e "ty"),
      ({ cls := ← fieldNat e "cls", fields := fs,
         params := ← (← fieldArr e "params").mapM decParam } : InShape))
  let sub ← (← fieldArr j "sub").mapM fun e => do
    match ← asArr e with
    | [a, b] => return (← decTy a, ← decTy b)
    | _ => throw "bad sub pair"
  return { outs, ins, anyLeaf := ← fieldNat j "any", sub }

def WorldJ.toWorld (w : WorldJ) : World where
  outShape t := (w.outs.find? (fun e => e.1 == t)).map (·.2)
  inShape t := (w.ins.find? (fun e => e.1 == t)).map (·.2)
  -- same type | destination Any | a union case of the destination (Optional[s]) | listed subclass pairs
  asIs s d := s == d || d == .leaf w.anyLeaf || d == .opt s || w.sub.any (fun e => e.1 == s && e.2 == d)

def decFuncParam (j : Json) : Except String FuncParam := do
  return { name := ← fieldStr j "name", kind := ← decParamKind (← fieldStr j "kind"), ty := ← decTy (← field j "ty") }

def decOptNat (j : Json) (k : String) : Except String (Option Nat) :=
  match optField j k with
  | none => pure none
  | some v => do return some (← asNat v)

def decProvider (j : Json) : Except String Provider := do
  match ← fieldStr j "k" with
  | "link" =>
    return .link (← decPred (← field j "src")) (← decPred (← field j "dst")) (← decOptNat j "coercer")
  | "link_constant" =>
    let dst ← decPred (← field j "dst")
    match optField j "factory" with
    | some f => return .linkConstant dst (.factory (← asNat f) (← decOptVal j "lit"))
    | none => return .linkConstant dst (.value (← decVal (← field j "value")))
  | "link_function" =>
    let ps ← (← fieldArr j "params").mapM decFuncParam
    return .linkFunction { id := ← fieldNat j "f", params := ps } (← decPred (← field j "dst"))
  | "policy" =>
    let pred ← match optField j "pred" with
      | none => pure Pred.any
      | some p => decPred p
    return .policy pred (← fieldBool j "allowed")
  | "coercer" =>
    return .coercer (← decPred (← field j "src")) (← decPred (← field j "dst")) (← fieldNat j "f")
  | k => throw s!"bad provider {k}"

def decSigParam (j : Json) : Except String SigParam := do
  return { name := ← fieldStr j "name", kind := ← decSigKind (← fieldStr j "kind"),
           ty := ← decTy (← field j "ty"), default := ← decOptVal j "default" }

def decSignature (j : Json) : Except String Signature := do
  return { params := ← (← fieldArr j "params").mapM decSigParam, ret := ← decTy (← field j "ret") }

def encOptVal : Option Val → Json
  | none => Json.null
  | some v => encVal v

def encSource : Source → Json
  | .field f => Json.mkObj [("s", "field"), ("id", f.id)]
  | .param i p => Json.mkObj [("s", "param"), ("i", natJ i), ("name", p.name)]

def encLinking : Linking → Json
  | .field s c => Json.mkObj [("l", "field"), ("src", encSource s),
      ("coercer", match c with | none => Json.null | some f => natJ f)]
  | .const (.value v) => Json.mkObj [("l", "const"), ("value", encVal v)]
  | .const (.factory f _) => Json.mkObj [("l", "factory"), ("f", natJ f)]
  | .func f specs => Json.mkObj [("l", "func"), ("f", natJ f.id),
      ("args", listJ (specs.map fun sp => match sp.link with
        | .model => Json.mkObj [("name", sp.param.name), ("s", "model")]
        | .field s => Json.mkObj [("name", sp.param.name), ("src", encSource s)]))]

def encFieldLink : FieldLink → Json
  | .linked l => encLinking l
  | .skipped => Json.mkObj [("l", "skipped")]
  | .failed => Json.mkObj [("l", "failed")]

def decPairs (j : Json) (k : String) : Except String (List (String × Val)) := do
  (← fieldArr j k).mapM fun e => do
    match ← asArr e with
    | [a, b] => return (← asStr a, ← decVal b)
    | _ => throw "bad pair"

/-! Boolean versions of the hypotheses of the C13 theorems (`ShapeWF`, distinct
    parameter names), evaluated on every world the harness sends: the reply says
    whether the tested case lies inside the domain the theorems speak about. -/

def nodupB : List String → Bool
  | [] => true
  | x :: xs => !xs.contains x && nodupB xs

def orderedB : List Param → Bool
  | [] => true
  | p :: ps =>
    ps.all (fun q => (q.kind != .posOnly || p.kind == .posOnly) && (p.kind != .kwOnly || q.kind == .kwOnly))
      && orderedB ps

def shapeWFb (s : InShape) : Bool :=
  nodupB (s.fields.map (·.id)) && nodupB (s.params.map (·.name)) &&
  s.fields.all (fun f => s.params.any (fun p => p.fieldId == f.id)) &&
  orderedB s.params &&
  s.params.all (fun p => p.kind != .posOnly || s.fields.all (fun f => f.id != p.fieldId || f.required))

def handle : Protocol.Handler := fun j => do
  let op ← fieldStr j "op"
  match op with
  | "convert" =>
    let WJ ← decWorld (← field j "world")
    let W := WJ.toWorld
    let sig ← decSignature (← field j "sig")
    let recipe ← (← fieldArr j "recipe").mapM decProvider
    let fuel ← (fieldNat j "fuel" <|> pure 32)
    let calls ← fieldArr j "calls"
    let wf := WJ.ins.all (fun e => shapeWFb e.2) && nodupB (sig.params.map (·.name))
    match provideConverter W recipe fuel sig with
    | none => return Json.mkObj [("created", false), ("wf", wf)]
    | some c =>
      let results ← calls.mapM fun cj => do
        let args ← (← fieldArr cj "args").mapM decVal
        let kwargs ← decPairs cj "kwargs"
        let spec := match bindSig sig.params args kwargs with
          | some vals => convertSpec W recipe fuel sig vals
          | none => none
        return Json.mkObj [("model", encOptVal (c.call args kwargs)), ("spec", encOptVal spec)]
      return Json.mkObj [("created", true), ("wf", wf), ("results", listJ results),
        ("signature", listJ (c.signature.params.map fun p => Json.str p.name))]
  | "link" =>
    -- linking of every field of the destination model at `dst` from the source model at `src`
    let W := (← decWorld (← field j "world")).toWorld
    let sig ← decSignature (← field j "sig")
    let recipe ← (← fieldArr j "recipe").mapM decProvider
    match sig.params with
    | [] => throw "no parameters"
    | first :: extra =>
      let src : LocStack := [{ kind := .field, ty := first.ty, fieldId := first.name }]
      let dst : LocStack := [{ kind := .typeHint, ty := sig.ret }]
      match W.inShape sig.ret, W.outShape first.ty with
      | some ds, some ss =>
        return listJ (ds.fields.map fun f =>
          let req : LinkReq := { srcStack := src, sources := ss.fields, params := extra.map SigParam.ctx, dst := f.loc :: dst }
          listJ [Json.str f.id, encFieldLink (fetchFieldLinking recipe req f)])
      | _, _ => throw "not models"
  | "history" =>
    let WJ ← decWorld (← field j "world")
    let W := WJ.toWorld
    let fuel ← (fieldNat j "fuel" <|> pure 32)
    let recipes ← (← fieldArr j "retorts").mapM fun r => do (← asArr r).mapM decProvider
    let stepsJ ← fieldArr j "steps"
    let ops ← stepsJ.mapM fun sj => do
      let i ← fieldNat sj "on"
      let recipe ← (← fieldArr sj "recipe").mapM decProvider
      match ← fieldStr sj "op" with
      | "extend" => return FacadeOp.extend i recipe
      | "get" =>
        let name ← match optField sj "name" with
          | none => pure none
          | some n => do pure (some (← asStr n))
        return FacadeOp.getConverter i ⟨← decTy (← field sj "src"), ← decTy (← field sj "dst"), name⟩ recipe
      | "convert" => return FacadeOp.convert i (← decTy (← field sj "src")) (← decTy (← field sj "dst")) recipe
      | "impl" => return FacadeOp.implConverter i (← decSignature (← field sj "sig")) recipe
      | o => throw s!"bad facade op {o}"
    let answers := (runHistory W fuel (recipes.map Retort.new) ops).1
    let inForce := specRecipes recipes ops
    let wf := WJ.ins.all (fun e => shapeWFb e.2) &&
      ops.all (fun op => match op.signature? with
        | some sig => nodupB (sig.params.map (·.name))
        | none => true)
    let rows ← ((stepsJ.zip ops).zip (answers.zip inForce)).mapM fun ((sj, op), (ans, rc)) => do
      match op.signature?, rc with
      | some sig, some recipe =>
        match ans with
        | none => return Json.mkObj [("created", false)]
        | some c =>
          let calls ← fieldArr sj "calls"
          let results ← calls.mapM fun cj => do
            let args ← (← fieldArr cj "args").mapM decVal
            let kwargs ← decPairs cj "kwargs"
            let spec := match bindSig sig.params args kwargs with
              | some vals => convertSpec W recipe fuel sig vals
              | none => none
            return Json.mkObj [("model", encOptVal (c.call args kwargs)), ("spec", encOptVal spec)]
          return Json.mkObj [("created", true), ("results", listJ results)]
      | none, _ => return Json.mkObj [("extended", true)]
      | _, none => return Json.mkObj [("no_retort", true)]
    return Json.mkObj [("wf", wf), ("steps", listJ rows)]
  | _ => throw s!"unknown op {op}"

end Adaptix.Ops.C13
