import AdaptixModel.Protocol
import AdaptixModel.Retort.Router

namespace Adaptix.Ops.C09
open Lean Adaptix.Protocol Adaptix.Router

def decChecker (j : Json) : Except String Checker := do
  let k ← fieldStr j "k"
  match k with
  | "exact" => return .exact (← fieldNat j "o")
  | "other" => return .other (← fieldNat j "id")
  | _ => throw s!"bad checker kind {k}"

def encChecker : Checker → Json
  | .exact o => Json.mkObj [("k", "exact"), ("o", natJ o)]
  | .other i => Json.mkObj [("k", "other"), ("id", natJ i)]

def decHandler (j : Json) : Except String Router.Handler := do
  let k ← fieldStr j "h"
  match k with
  | "respond" => return .respond (← (← fieldArr j "w").mapM asNat)
  | "decline" => return .decline
  | "terminal" => return .declineTerminal
  | "chain_first" => return .chainFirst (← fieldNat j "f")
  | "chain_last" => return .chainLast (← fieldNat j "f")
  | _ => throw s!"bad handler kind {k}"

def decReq (j : Json) : Except String Req := do
  let o ← fieldNat j "origin"
  let sat ← (← fieldArr j "sat").mapM asNat
  return { origin := o, sat := fun i => sat.contains i }

/-- a recipe tree: entries `{"p":"plain","c":..,"h":..}`, `{"p":"builtin","c":..}`,
    `{"p":"nested","c":..,"opt":n,"recipe":[..]}` -/
partial def decProv (j : Json) : Except String Prov := do
  let k ← fieldStr j "p"
  match k with
  | "plain" => return .plain (← decChecker (← field j "c")) (← decHandler (← field j "h"))
  | "builtin" => return .builtin (← decChecker (← field j "c"))
  | "nested" => return .nested (← decChecker (← field j "c")) (← fieldNat j "opt") (← (← fieldArr j "recipe").mapM decProv)
  | _ => throw s!"bad recipe entry {k}"

def encItem : Item Nat → Json
  | .single c h => Json.mkObj [("item", "single"), ("checker", encChecker c), ("handler", natJ h)]
  | .table m => Json.mkObj [("item", "table"),
      ("entries", listJ (m.map fun (o, h) => listJ [natJ o, natJ h]))]

def encResult : Result → Json
  | .ok w => Json.mkObj [("r", "ok"), ("w", listJ (w.map natJ))]
  | .notFound => Json.mkObj [("r", "not_found")]
  | .terminal => Json.mkObj [("r", "terminal")]

def handle : Protocol.Handler := fun j => do
  let op ← fieldStr j "op"
  match op with
  | "combine" =>
    let cs ← (← fieldArr j "checkers").mapM decChecker
    return listJ ((combine cs.zipIdx).map encItem)
  | "visit" =>
    let cs ← (← fieldArr j "checkers").mapM decChecker
    let r ← decReq (← field j "req")
    let items := combine cs.zipIdx
    return listJ ((visit items r (items.length + 1) 0).map natJ)
  | "send" =>
    let cs ← (← fieldArr j "checkers").mapM decChecker
    let hs ← (← fieldArr j "handlers").mapM decHandler
    let r ← decReq (← field j "req")
    let items := combine (cs.zip hs)
    let off ← (fieldNat j "offset" <|> pure 0)
    return encResult (send items r (items.length + 1) off)
  | "send_log" =>
    -- recipe positions of the handlers the bus invokes, in invocation order (ghost-instrumented `send`)
    let cs ← (← fieldArr j "checkers").mapM decChecker
    let hs ← (← fieldArr j "handlers").mapM decHandler
    let r ← decReq (← field j "req")
    let items := combine (labelled (cs.zip hs))
    let res := sendLog Prod.fst items r (items.length + 1) 0
    return Json.mkObj [("result", encResult res.1), ("log", listJ (res.2.map fun h => natJ h.2))]
  | "spec_send" =>
    let cs ← (← fieldArr j "checkers").mapM decChecker
    let hs ← (← fieldArr j "handlers").mapM decHandler
    let r ← decReq (← field j "req")
    return encResult (specSend (matching r (cs.zip hs)))
  | "serve_tree" =>
    -- a retort (option + full recipe with nested retorts) serving one request; "depth" >= nesting depth + 1
    let ps ← (← fieldArr j "recipe").mapM decProv
    let r ← decReq (← field j "req")
    return encResult (serveTree r (← fieldNat j "depth") (← fieldNat j "opt") ps)
  | "full_recipe" =>
    let get (k : String) := do (← fieldArr j k).mapM asNat
    let rr : RetortRecipe Nat := { head := ← get "head", inst := ← get "inst", cls := ← get "cls", tail := ← get "tail" }
    let new ← get "extend"
    return listJ (((rr.extend new).full).map natJ)
  | _ => throw s!"unknown op {op}"

end Adaptix.Ops.C09
