import AdaptixModel.Protocol
import AdaptixModel.Kinds.Shapes
import AdaptixModel.Kinds.Convert

/-! JSON ops over the C17 model (`AdaptixModel/Kinds/Shapes.lean`).

  shape_of_decl   {decl}                       -> shape | {"unsupported": kind, "why": …}
  shape_of_kind   {kind, model}                -> {"decl": …, "shape": …} | {"unsupported": …}
  load_model      {kind, model, nm, input, leaf}            -> outcome (+ object view)
  dump_model      {kind, model, nm, omit, object, leaf}     -> items | access_error
  dump_as_list    {kind, model, object, leaf}               -> list
  link            {src, dst, model}                          -> [[dst id, src id | null]]
  convert_model   {src_kind, src_model, dst_kind, dst_model, allow, object}
                  allow: [ids] | "any" | null (default policy: forbid); object: the source object
                  -> no_converter | call_error | {args, object}: what the destination constructor
                     receives (`convertModel`) and the object it builds (`objectOf`)
-/

namespace Adaptix.Ops.C17
open Lean Adaptix.Protocol Adaptix.Kinds

/-! decoding -/

def decKind (s : String) : Except String Kind :=
  match s with
  | "dataclass" => pure .dataclass
  | "namedtuple" => pure .namedTuple
  | "typeddict" => pure .typedDict
  | "attrs" => pure .attrs
  | "pydantic" => pure .pydantic
  | "sqlalchemy" => pure .sqlalchemy
  | _ => throw s!"bad kind {s}"

def encKind : Kind → String
  | .dataclass => "dataclass" | .namedTuple => "namedtuple" | .typedDict => "typeddict"
  | .attrs => "attrs" | .pydantic => "pydantic" | .sqlalchemy => "sqlalchemy"

partial def decTy (j : Json) : Except String Ty := do
  let t ← fieldStr j "t"
  match t with
  | "int" => pure .int
  | "str" => pure .str
  | "bool" => pure .bool
  | "float" => pure .float
  | "any" => pure .any
  | "opt" => return .opt (← decTy (← field j "a"))
  | "list" => return .list (← decTy (← field j "a"))
  | "dict" => return .dict (← decTy (← field j "k")) (← decTy (← field j "v"))
  | "model" => return .model (← fieldStr j "name")
  | _ => throw s!"bad type {t}"

def encTy : Ty → Json
  | .int => Json.mkObj [("t", "int")]
  | .str => Json.mkObj [("t", "str")]
  | .bool => Json.mkObj [("t", "bool")]
  | .float => Json.mkObj [("t", "float")]
  | .any => Json.mkObj [("t", "any")]
  | .opt a => Json.mkObj [("t", "opt"), ("a", encTy a)]
  | .list a => Json.mkObj [("t", "list"), ("a", encTy a)]
  | .dict k v => Json.mkObj [("t", "dict"), ("k", encTy k), ("v", encTy v)]
  | .model n => Json.mkObj [("t", "model"), ("name", Json.str n)]

def decScalar (j : Json) : Except String Scalar :=
  match j with
  | .null => pure .none
  | .bool b => pure (.bool b)
  | .str s => pure (.str s)
  | .num _ =>
    match j.getInt? with
    | .ok i => pure (.int i)
    | .error _ => throw "non-integer number: floats travel as {\"f\": repr}"
  | .obj _ =>
    match j.getObjVal? "f" with
    | .ok (.str r) => pure (.float r)
    | _ => throw "bad scalar object"
  | _ => throw "bad scalar"

def encScalar : Scalar → Json
  | .none => Json.null
  | .bool b => Json.bool b
  | .int i => intJ i
  | .str s => Json.str s
  | .float r => Json.mkObj [("f", Json.str r)]

def decFactory (s : String) : Except String Factory :=
  match s with
  | "list" => pure .list
  | "dict" => pure .dict
  | "fn_list" => pure .fnList
  | "fn_dict" => pure .fnDict
  | _ => throw s!"bad factory {s}"

def encFactory : Factory → String
  | .list => "list" | .dict => "dict" | .fnList => "fn_list" | .fnDict => "fn_dict"

def decDflt (j : Json) : Except String Dflt := do
  let k ← fieldStr j "k"
  match k with
  | "none" => pure .none
  | "value" => return .value (← decScalar (← field j "v"))
  | "factory" => return .factory (← decFactory (← fieldStr j "f"))
  | "factory_self" => return .factorySelf (← fieldStr j "f")
  | _ => throw s!"bad default {k}"

def encDflt : Dflt → Json
  | .none => Json.mkObj [("k", "none")]
  | .value v => Json.mkObj [("k", "value"), ("v", encScalar v)]
  | .factory f => Json.mkObj [("k", "factory"), ("f", Json.str (encFactory f))]
  | .factorySelf f => Json.mkObj [("k", "factory_self"), ("f", Json.str f)]

def optField (j : Json) (k : String) : Option Json :=
  match j.getObjVal? k with
  | .ok .null => none
  | .ok v => some v
  | .error _ => none

def optBool (j : Json) (k : String) (dflt : Bool) : Except String Bool :=
  match optField j k with
  | none => pure dflt
  | some (.bool b) => pure b
  | some _ => throw s!"field {k}: expected bool"

def optStr (j : Json) (k : String) (dflt : String) : Except String String :=
  match optField j k with
  | none => pure dflt
  | some (.str s) => pure s
  | some _ => throw s!"field {k}: expected string"

def decTri (s : String) : Except String Tri :=
  match s with
  | "unset" | "auto" => pure .unset
  | "true" => pure .yes
  | "false" => pure .no
  | _ => throw s!"bad tri {s}"

def encTri : Tri → String
  | .unset => "unset" | .yes => "true" | .no => "false"

def decDField (j : Json) : Except String DField := do
  let name ← fieldStr j "name"
  let ty ← decTy (← field j "ty")
  let default ← match optField j "default" with
    | none => pure Dflt.none
    | some d => decDflt d
  let pseudo ← match (← optStr j "pseudo" "none") with
    | "none" => pure Pseudo.none | "classvar" => pure Pseudo.classVar | "initvar" => pure Pseudo.initVar
    | s => throw s!"bad pseudo {s}"
  let alias ← match optField j "alias" with
    | none => pure none
    | some (.str s) => pure (some s)
    | some _ => throw "alias: expected string"
  let req ← match (← optStr j "req" "plain") with
    | "plain" => pure Req.plain | "required" => pure Req.required | "not_required" => pure Req.notRequired
    | s => throw s!"bad req {s}"
  let cat ← match (← optStr j "cat" "regular") with
    | "regular" => pure Cat.regular | "computed" => pure Cat.computed | "private" => pure Cat.priv
    | s => throw s!"bad cat {s}"
  let rel ← match (← optStr j "rel" "none") with
    | "none" => pure Rel.none | "one" => pure Rel.one | "many" => pure Rel.many
    | s => throw s!"bad rel {s}"
  return {
    name, ty, default, pseudo, alias, req, cat, rel
    kwOnly := ← optBool j "kw_only" false
    init := ← optBool j "init" true
    pk := ← optBool j "pk" false
    autoinc := ← decTri (← optStr j "autoinc" "auto")
    nullable := ← decTri (← optStr j "nullable" "unset")
    fk := ← optBool j "fk" false
    serverDefault := ← optBool j "server_default" false
    ctxDefault := ← optBool j "ctx_default" false }

def encDField (f : DField) : Json :=
  Json.mkObj [
    ("name", Json.str f.name), ("ty", encTy f.ty), ("default", encDflt f.default),
    ("kw_only", Json.bool f.kwOnly), ("init", Json.bool f.init),
    ("pseudo", Json.str (match f.pseudo with | .none => "none" | .classVar => "classvar" | .initVar => "initvar")),
    ("alias", match f.alias with | none => Json.null | some a => Json.str a),
    ("req", Json.str (match f.req with | .plain => "plain" | .required => "required" | .notRequired => "not_required")),
    ("cat", Json.str (match f.cat with | .regular => "regular" | .computed => "computed" | .priv => "private")),
    ("pk", Json.bool f.pk),
    ("autoinc", Json.str (match f.autoinc with | .unset => "auto" | .yes => "true" | .no => "false")),
    ("nullable", Json.str (encTri f.nullable)),
    ("fk", Json.bool f.fk), ("server_default", Json.bool f.serverDefault), ("ctx_default", Json.bool f.ctxDefault),
    ("rel", Json.str (match f.rel with | .none => "none" | .one => "one" | .many => "many"))]

def decOpts (j : Json) : Except String Opts := do
  match optField j "opts" with
  | none => pure {}
  | some o =>
    let extra ← optStr o "extra" "unset"
    return { total := ← optBool o "total" true
             extraForbid := extra == "forbid"
             populateByName := ← optBool o "populate_by_name" false }

def encOpts (o : Opts) : Json :=
  Json.mkObj [("total", Json.bool o.total), ("extra", Json.str (if o.extraForbid then "forbid" else "unset")),
              ("populate_by_name", Json.bool o.populateByName)]

def decDecl (j : Json) : Except String Decl := do
  return { kind := ← decKind (← fieldStr j "kind")
           opts := ← decOpts j
           fields := ← (← fieldArr j "fields").mapM decDField }

def encDecl (d : Decl) : Json :=
  Json.mkObj [("kind", Json.str (encKind d.kind)), ("opts", encOpts d.opts), ("fields", listJ (d.fields.map encDField))]

def decLField (j : Json) : Except String LField := do
  let default ← match optField j "default" with
    | none => pure LDflt.none
    | some d => do
      match (← decDflt d) with
      | .none => pure LDflt.none
      | .value v => pure (LDflt.value v)
      | .factory f => pure (LDflt.factory f)
      | .factorySelf _ => throw "a logical field has no factory taking self"
  return { name := ← fieldStr j "name", ty := ← decTy (← field j "ty"), default, kwOnly := ← optBool j "kw_only" false }

def decModel (j : Json) : Except String LogicalModel := do
  return { fields := ← (← fieldArr j "fields").mapM decLField }

/-! encoding of shapes (same layout as the harness' projection of the real shape) -/

def encShapeTy (t : ShapeTy) : Json :=
  Json.mkObj [("w", Json.str (match t.wrap with
      | .plain => "plain" | .required => "required" | .notRequired => "not_required" | .initVar => "init_var")),
    ("ty", encTy t.ty)]

def encInField (f : InField) : Json :=
  Json.mkObj [("id", Json.str f.id), ("ty", encShapeTy f.ty), ("default", encDflt f.default), ("required", Json.bool f.required)]

def encParam (p : Param) : Json :=
  Json.mkObj [("field", Json.str p.fieldId), ("name", Json.str p.name),
    ("kind", Json.str (match p.kind with | .posOnly => "POS_ONLY" | .posOrKw => "POS_OR_KW" | .kwOnly => "KW_ONLY"))]

def encAccessor : Accessor → Json
  | .attr n o => Json.mkObj [("a", "attr"), ("name", Json.str n), ("optional", Json.bool o)]
  | .key n o => Json.mkObj [("a", "key"), ("name", Json.str n), ("optional", Json.bool o)]
  | .index i o => Json.mkObj [("a", "index"), ("idx", natJ i), ("optional", Json.bool o)]

def encOutField (f : OutField) : Json :=
  Json.mkObj [("id", Json.str f.id), ("ty", encShapeTy f.ty), ("default", encDflt f.default), ("accessor", encAccessor f.accessor)]

def sortStrings (l : List String) : List String := l.mergeSort (fun a b => decide (a ≤ b))

def encShape (s : Shape) : Json :=
  Json.mkObj [
    ("input", Json.mkObj [
      ("fields", listJ (s.1.fields.map encInField)),
      ("params", listJ (s.1.params.map encParam)),
      ("kwargs", Json.bool s.1.kwargs),
      ("overriden", listJ ((sortStrings s.1.overriden).map Json.str))]),
    ("output", Json.mkObj [
      ("fields", listJ (s.2.fields.map encOutField)),
      ("overriden", listJ ((sortStrings s.2.overriden).map Json.str))])]

def encUnsupported : Unsupported → Json
  | .declaration why => Json.mkObj [("unsupported", "declaration"), ("why", Json.str why)]
  | .introspection why => Json.mkObj [("unsupported", "introspection"), ("why", Json.str why)]

/-! semantics ops: values and data travel as canonical JSON text (opaque to the model) -/

def litS (s : Scalar) : String :=
  match s with
  | .float r => r
  | other => (encScalar other).compress

def callS : Factory → String
  | .list | .fnList => "[]"
  | .dict | .fnDict => "{}"

/-- name layout as a finite table `[[id, key | null]]`; ids outside the table keep their name -/
def decNm (j : Json) : Except String (String → Option String) := do
  let rows ← (← asArr j).mapM fun r => do
    let a ← asArr r
    match a with
    | [.str id, .str k] => pure (id, some k)
    | [.str id, .null] => pure (id, none)
    | _ => throw "nm row: expected [id, key|null]"
  return fun id => match rows.lookup id with
    | some r => r
    | none => some id

def decPairs (j : Json) : Except String (List (String × String)) := do
  (← asArr j).mapM fun r => do
    match (← asArr r) with
    | [.str a, .str b] => pure (a, b)
    | _ => throw "expected [str, str]"

def decLeafLoad (j : Json) : Except String (Ty → String → Option String) := do
  let rows ← (← asArr j).mapM fun r => do
    match (← asArr r) with
    | [t, .str d, .str v] => return ((← decTy t, d), some v)
    | [t, .str d, .null] => return ((← decTy t, d), none)
    | _ => throw "leaf row: expected [ty, datum, value|null]"
  return fun t d => (rows.lookup (t, d)).join

def decLeafDump (j : Json) : Except String (Ty → String → String) := do
  let rows ← (← asArr j).mapM fun r => do
    match (← asArr r) with
    | [t, .str v, .str d] => return ((← decTy t, v), d)
    | _ => throw "leaf row: expected [ty, value, datum]"
  return fun t v => (rows.lookup (t, v)).getD "<no leaf dump>"

def pairsJ (l : List (String × String)) : Json := listJ (l.map fun (a, b) => listJ [Json.str a, Json.str b])

def optStrJ : Option String → Json
  | some s => Json.str s
  | none => Json.null

def handle : Protocol.Handler := fun j => do
  let op ← fieldStr j "op"
  match op with
  | "shape_of_decl" =>
    let d ← decDecl (← field j "decl")
    match shapeOfDecl d with
    | .ok s => return encShape s
    | .error u => return encUnsupported u
  | "shape_of_kind" =>
    let k ← decKind (← fieldStr j "kind")
    let m ← decModel (← field j "model")
    match shapeOf k m with
    | .ok s => return Json.mkObj [("decl", encDecl (declOf k m)), ("shape", encShape s)]
    | .error u => return (encUnsupported u).setObjVal! "decl" (encDecl (declOf k m))
  | "load_model" =>
    let k ← decKind (← fieldStr j "kind")
    let m ← decModel (← field j "model")
    let nm ← decNm (← field j "nm")
    let ld ← decLeafLoad (← field j "leaf")
    let inp ← match (← field j "input") with
      | .null => pure Input.notMapping
      | other => do pure (Input.mapping (← decPairs other))
    match shapeOf k m with
    | .error u => return encUnsupported u
    | .ok s =>
      match loadModel ld litS callS nm s.1 inp with
      | .noLoader => return Json.mkObj [("r", "no_loader")]
      | .err e => return Json.mkObj [("r", "err"), ("not_mapping", Json.bool e.notMapping),
          ("missing", listJ ((sortStrings e.missing).map Json.str)), ("bad", listJ ((sortStrings e.bad).map Json.str))]
      | .ok args =>
        let obj := objectOf k litS callS "null" m args
        return Json.mkObj [("r", "ok"), ("args", pairsJ args),
          ("object", listJ (obj.map fun (n, v) => listJ [Json.str n, optStrJ v]))]
  | "dump_model" =>
    let k ← decKind (← fieldStr j "kind")
    let m ← decModel (← field j "model")
    let nm ← decNm (← field j "nm")
    let omitIds ← (← fieldArr j "omit").mapM asStr
    let dp ← decLeafDump (← field j "leaf")
    let obj ← decPairs (← field j "object")
    match shapeOf k m with
    | .error u => return encUnsupported u
    | .ok s =>
      match dumpModel dp litS callS nm (fun id => omitIds.contains id) s.2 obj with
      | none => return Json.mkObj [("r", "access_error")]
      | some items => return Json.mkObj [("r", "ok"), ("items", pairsJ items)]
  | "dump_as_list" =>
    let k ← decKind (← fieldStr j "kind")
    let m ← decModel (← field j "model")
    let dp ← decLeafDump (← field j "leaf")
    let obj ← decPairs (← field j "object")
    match shapeOf k m with
    | .error u => return encUnsupported u
    | .ok s => return Json.mkObj [("r", "ok"), ("items", listJ ((dumpAsList dp s.2 obj).map optStrJ))]
  | "link" =>
    let ks ← decKind (← fieldStr j "src")
    let kd ← decKind (← fieldStr j "dst")
    let m ← decModel (← field j "model")
    match shapeOf ks m, shapeOf kd m with
    | .ok ss, .ok sd =>
      return Json.mkObj [("r", "ok"), ("links", listJ ((link sd.1 ss.2).map fun (d, s) => listJ [Json.str d, optStrJ s]))]
    | .error u, _ => return encUnsupported u
    | _, .error u => return encUnsupported u
  | "convert_model" =>
    let ks ← decKind (← fieldStr j "src_kind")
    let kd ← decKind (← fieldStr j "dst_kind")
    let ms ← decModel (← field j "src_model")
    let md ← decModel (← field j "dst_model")
    let allow : String → Bool ← match (← field j "allow") with
      | .null => pure (fun _ => false)
      | .str "any" => pure (fun _ => true)
      | other => do
        let ids ← (← asArr other).mapM asStr
        pure (fun id => ids.contains id)
    let obj ← decPairs (← field j "object")
    match shapeOf ks ms, shapeOf kd md with
    | .ok ss, .ok sd =>
      match convertModel allow (fun _ (v : String) => v) sd.1 ss.2 obj with
      | .noConverter => return Json.mkObj [("r", "no_converter")]
      | .callError => return Json.mkObj [("r", "call_error")]
      | .ok args =>
        let o := objectOf kd litS callS "null" md args
        return Json.mkObj [("r", "ok"), ("args", pairsJ args),
          ("object", listJ (o.map fun (n, v) => listJ [Json.str n, optStrJ v]))]
    | .error u, _ => return encUnsupported u
    | _, .error u => return encUnsupported u
  | _ => throw s!"unknown op {op}"

end Adaptix.Ops.C17
