/-
  JSON ops of the C03 driver (name layout: overlays → paths → crown → generated loader/dumper).

  Encodings (harness/props/c03.py mirrors them):
    Key      : "name" | 3
    Val      : null | true | 5 | "s" | [..] | {"dict": [[k, v], ..]} | {"opaque": "tag"}
    Field    : {"id", "required", "default"?: {"v": Val}}
    Pred     : {"ids": [field ids on which the predicate is true]}   (truth table; predicates are C10)
    MapResult: null (skip) | [RawKey ..] with RawKey = Key | {"ellipsis": true}
    MapEntry : {"k":"dict","tbl":[[id, MapResult]..]} | {"k":"const","pred":Pred,"r":MapResult}
             | {"k":"func","pred":Pred,"tbl":[[id, MapResult]..]} | {"k":"skip_private"}
    Prov     : {"chain": null|"first"|"last", "skip"?, "only"?, "map": [..], "trim"?, "style"?: {"v": null|name},
                "as_list"?, "omit_default"?, "extra_in"?, "extra_out"?}    (absent = Omitted())
-/
import AdaptixModel.Protocol
import AdaptixModel.Layout.Crown

namespace Adaptix.Ops.C03
open Lean Adaptix.Protocol Adaptix.Layout

/-! ### decoding -/

def decKey (j : Json) : Except String Key :=
  match j with
  | .str s => .ok (.s s)
  | _ => match j.getNat? with
    | .ok n => .ok (.i n)
    | .error _ => .error "bad key"

def encKey : Key → Json
  | .s s => Json.str s
  | .i n => natJ n

def encPath (p : Path) : Json := listJ (p.map encKey)

partial def decVal (j : Json) : Except String Val :=
  match j with
  | .null => .ok .none
  | .bool b => .ok (.bool b)
  | .str s => .ok (.str s)
  | .num _ => match j.getInt? with
    | .ok n => .ok (.int n)
    | .error _ => .error "non-integer number"
  | .arr a => do
    let xs ← a.toList.mapM decVal
    return .list xs
  | .obj _ =>
    match j.getObjVal? "dict" with
    | .ok (.arr kvs) => do
      let kvs ← kvs.toList.mapM fun kv =>
        match kv with
        | .arr #[.str k, v] => do
          let v ← decVal v
          return (k, v)
        | _ => .error "bad dict item"
      return .dict kvs
    | _ =>
      match j.getObjVal? "opaque" with
      | .ok (.str t) => .ok (.opaque t)
      | _ => .error "bad value object"

partial def encVal : Val → Json
  | .none => Json.null
  | .bool b => Json.bool b
  | .int n => intJ n
  | .str s => Json.str s
  | .list xs => listJ (xs.map encVal)
  | .dict kvs => Json.mkObj [("dict", listJ (kvs.map fun (k, v) => listJ [Json.str k, encVal v]))]
  | .opaque t => Json.mkObj [("opaque", Json.str t)]

def optField (j : Json) (k : String) : Option Json :=
  match j.getObjVal? k with
  | .ok v => some v
  | .error _ => none

def decField (j : Json) : Except String Field := do
  let id ← fieldStr j "id"
  let required ← fieldBool j "required"
  let default ← match optField j "default" with
    | some d => do
      let v ← decVal (← field d "v")
      pure (some v)
    | none => pure none
  return { id, required, default }

def decPred (j : Json) : Except String Pred := do
  let ids ← (← fieldArr j "ids").mapM asStr
  return fun f => ids.contains f.id

def decRawKey (j : Json) : Except String RawKey :=
  match j.getObjVal? "ellipsis" with
  | .ok _ => .ok .ellipsis
  | .error _ => do
    let k ← decKey j
    return .key k

def decMapResult (j : Json) : Except String MapResult :=
  match j with
  | .null => .ok none
  | .arr a => do
    let ks ← a.toList.mapM decRawKey
    return some ks
  | _ => .error "bad map result"

def decTbl (j : Json) (k : String) : Except String (List (String × MapResult)) := do
  (← fieldArr j k).mapM fun kv =>
    match kv with
    | .arr #[.str id, r] => do
      let r ← decMapResult r
      return (id, r)
    | _ => .error "bad map table item"

def decMapEntry (j : Json) : Except String MapEntry := do
  match ← fieldStr j "k" with
  | "dict" => return .dict (← decTbl j "tbl")
  | "const" => return .const (← decPred (← field j "pred")) (← decMapResult (← field j "r"))
  | "func" =>
    let tbl ← decTbl j "tbl"
    return .func (← decPred (← field j "pred")) fun f => (tbl.lookup f.id).getD none
  | "skip_private" => return .skipPrivateOut
  | k => throw s!"bad map entry kind {k}"

def decExtraIn (j : Json) : Except String ExtraIn :=
  match j with
  | .str "skip" => .ok .skip
  | .str "forbid" => .ok .forbid
  | .str "kwargs" => .ok .kwargs
  | .str "saturate" => .ok .saturate
  | _ => do
    let ids ← (← fieldArr j "targets").mapM asStr
    return .targets ids

def decExtraOut (j : Json) : Except String ExtraOut :=
  match j with
  | .str "skip" => .ok .skip
  | .str "extract" => .ok .extract
  | _ => do
    let ids ← (← fieldArr j "targets").mapM asStr
    return .targets ids

def decOpt {α : Type} (j : Json) (k : String) (dec : Json → Except String α) : Except String (Option α) :=
  match optField j k with
  | some v => do
    let a ← dec v
    return some a
  | none => .ok none

def asBool (j : Json) : Except String Bool :=
  match j with
  | .bool b => .ok b
  | _ => .error "expected bool"

def decProv (j : Json) : Except String OverlayProv := do
  let chain ← match optField j "chain" with
    | some (.str "first") => pure (some Chain.first)
    | some (.str "last") => pure (some Chain.last)
    | some .null => pure none
    | _ => throw "bad chain"
  let style ← decOpt j "style" fun s =>
    match s.getObjVal? "v" with
    | .ok .null => .ok (none : Option Style)
    | .ok (.str n) => .ok (some n)
    | _ => .error "bad style"
  let ov : Overlay := {
    skip := ← decOpt j "skip" decPred
    only := ← decOpt j "only" decPred
    map := ← (← fieldArr j "map").mapM decMapEntry
    trim := ← decOpt j "trim" asBool
    style := style
    asList := ← decOpt j "as_list" asBool
    omitDefault := ← decOpt j "omit_default" decPred
    extraIn := ← decOpt j "extra_in" decExtraIn
    extraOut := ← decOpt j "extra_out" decExtraOut
  }
  return { chain, ov }

/-- `{"styles": {style: {name: converted}}}`; a missing entry is visible in the result -/
def decStyles (j : Json) : Except String (Style → String → String) := do
  let tbl ← match optField j "styles" with
    | some (.obj kvs) => kvs.toList.mapM fun (st, m) =>
        match m with
        | .obj nm => do
          let nm ← nm.toList.mapM fun (n, v) => do
            let v ← asStr v
            pure (n, v)
          pure (st, nm)
        | _ => .error "bad style table"
    | _ => pure []
  return fun st name =>
    match tbl.lookup st with
    | some nm => (nm.lookup name).getD s!"<nostyle:{name}>"
    | none => s!"<nostyle:{name}>"

/-! ### encoding of crowns -/

def encPolicy : Policy → Json
  | .skip => "skip"
  | .forbid => "forbid"
  | .collect => "collect"

partial def encInpCrown : InpCrown → Json
  | .dict m p => Json.mkObj [("t", "dict"), ("map", listJ (m.map fun (k, c) => listJ [Json.str k, encInpCrown c])),
      ("policy", encPolicy p)]
  | .list m p => Json.mkObj [("t", "list"), ("map", listJ (m.map encInpCrown)), ("policy", encPolicy p)]
  | .field id => Json.mkObj [("t", "field"), ("id", Json.str id)]
  | .none => Json.mkObj [("t", "none")]

partial def encOutCrown : OutCrown → Json
  | .dict m s => Json.mkObj [("t", "dict"), ("map", listJ (m.map fun (k, c) => listJ [Json.str k, encOutCrown c])),
      ("sieves", listJ (s.map fun (k, d) => listJ [Json.str k, encVal d]))]
  | .list m => Json.mkObj [("t", "list"), ("map", listJ (m.map encOutCrown))]
  | .field id => Json.mkObj [("t", "field"), ("id", Json.str id)]
  | .none ph => Json.mkObj [("t", "none"), ("placeholder", encVal ph)]

def encInpMove : InpExtraMove → Json
  | .none => Json.null
  | .kwargs => "kwargs"
  | .saturate => "saturate"
  | .targets ids => Json.mkObj [("targets", listJ (ids.map Json.str))]

def encOutMove : OutExtraMove → Json
  | .none => Json.null
  | .extract => "extract"
  | .targets ids => Json.mkObj [("targets", listJ (ids.map Json.str))]

def encStructErr : StructErr → Json
  | .requiredSkipped ids => Json.mkObj [("error", "requiredSkipped"), ("ids", listJ (ids.map Json.str))]
  | .inconsistent _ => Json.mkObj [("error", "inconsistent")]
  | .duplicates => Json.mkObj [("error", "duplicates")]
  | .prefix => Json.mkObj [("error", "prefix")]
  | .optionalAtList ids => Json.mkObj [("error", "optionalAtList"), ("ids", listJ (ids.map Json.str))]
  | .collectWithList => Json.mkObj [("error", "collectWithList")]
  | .emptyPath => Json.mkObj [("error", "emptyPath")]
  | .schema .cannotProvide => Json.mkObj [("error", "schema:cannotProvide")]
  | .schema .omittedValues => Json.mkObj [("error", "schema:omittedValues")]
  | .build => Json.mkObj [("error", "build")]

def decStack (j : Json) : Except String (List OverlayProv × List (List OverlayProv)) := do
  let own ← (← fieldArr j "own").mapM decProv
  let parents ← (← fieldArr j "parents").mapM fun p => do (← asArr p).mapM decProv
  return (own, parents)

/-! ### handler -/

def handleLayout (j : Json) : Except String Json := do
  let fields ← (← fieldArr j "fields").mapM decField
  let (own, parents) ← decStack j
  let style ← decStyles j
  match ← fieldStr j "dir" with
  | "inp" =>
    match provideInputLayout own parents style fields with
    | .ok l => return Json.mkObj [("crown", encInpCrown l.crown), ("move", encInpMove l.move)]
    | .error e => return encStructErr e
  | "out" =>
    match provideOutputLayout own parents style fields with
    | .ok l => return Json.mkObj [("crown", encOutCrown l.crown), ("move", encOutMove l.move)]
    | .error e => return encStructErr e
  | d => throw s!"bad dir {d}"

/-- the specification function `pathOf` for every field (used by the harness to cross-check its
    own Python transcription of the documented rule) -/
def handlePathOf (j : Json) : Except String Json := do
  let fields ← (← fieldArr j "fields").mapM decField
  let (own, parents) ← decStack j
  let style ← decStyles j
  let dir ← match ← fieldStr j "dir" with
    | "inp" => pure Dir.inp
    | "out" => pure Dir.out
    | d => throw s!"bad dir {d}"
  match provideSchema own parents with
  | .error _ => return Json.mkObj [("error", "schema")]
  | .ok sch =>
    let targets := if dir = .inp then (makeInpExtraMove sch.extraIn).targetIds else (makeOutExtraMove sch.extraOut).targetIds
    return listJ (fields.map fun f =>
      listJ [Json.str f.id, match pathOf dir sch style fields targets f with
        | some p => encPath p
        | none => Json.null])

def handle : Protocol.Handler := fun j => do
  match ← fieldStr j "op" with
  | "layout" => handleLayout j
  | "path_of" => handlePathOf j
  | op => throw s!"unknown op {op}"

end Adaptix.Ops.C03
