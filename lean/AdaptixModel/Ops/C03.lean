/-
  JSON ops of the C03 driver (name layout: overlays → paths → crown → generated loader/dumper).

  Encodings (harness/props/c03.py mirrors them):
    Key      : "name" | 3
    Val      : null | true | 5 | "s" | [..] | {"dict": [[k, v], ..]} | {"opaque": "tag"}
    Field    : {"id", "required", "default"?: {"v": Val}}
    Pred     : {"ids": [field ids on which the predicate is true]}   (truth table; predicates are C10)
    MapResult: null (skip) | [RawKey ..] with RawKey = Key | {"ellipsis": true}
    MapEntry : {"k":"dict","tbl":[[id, MapResult]..]} | {"k":"const","pred":Pred,"r":MapResult}
             | {"k":"func","pred":Pred,"tbl":[[id, MapResult]..]} | {"k":"skip_private"}
    Prov     : {"chain": null|"first"|"last", "skip"?, "only"?, "map": [..], "trim"?, "style"?: {"v": null|name},
                "as_list"?, "omit_default"?, "extra_in"?, "extra_out"?}    (absent = Omitted())
-/
import AdaptixModel.Layout.NameStyle
import AdaptixModel.Protocol
import AdaptixModel.Layout.ModelDump
import AdaptixModel.Layout.LocPred
import AdaptixModel.Ops.C10

namespace Adaptix.Ops.C03
open Lean Adaptix.Protocol Adaptix.Layout

/-! ### decoding -/

def decKey (j : Json) : Except String Key :=
  match j with
  | .str s => .ok (.s s)
  | _ => match j.getNat? with
    | .ok n => .ok (.i n)
    | .error _ => .error "bad key"

def encKey : Key → Json
  | .s s => Json.str s
  | .i n => natJ n

def encPath (p : Path) : Json := listJ (p.map encKey)

partial def decVal (j : Json) : Except String Val :=
  match j with
  | .null => .ok .none
  | .bool b => .ok (.bool b)
  | .str s => .ok (.str s)
  | .num _ => match j.getInt? with
    | .ok n => .ok (.int n)
    | .error _ => .error "non-integer number"
  | .arr a => do
    let xs ← a.toList.mapM decVal
    return .list xs
  | .obj _ =>
    match j.getObjVal? "dict" with
    | .ok (.arr kvs) => do
      let kvs ← kvs.toList.mapM fun kv =>
        match kv with
        | .arr #[.str k, v] => do
          let v ← decVal v
          return (k, v)
        | _ => .error "bad dict item"
      return .dict kvs
    | _ =>
      match j.getObjVal? "opaque" with
      | .ok (.str t) => .ok (.opaque t)
      | _ => .error "bad value object"

partial def encVal : Val → Json
  | .none => Json.null
  | .bool b => Json.bool b
  | .int n => intJ n
  | .str s => Json.str s
  | .list xs => listJ (xs.map encVal)
  | .dict kvs => Json.mkObj [("dict", listJ (kvs.map fun (k, v) => listJ [Json.str k, encVal v]))]
  | .opaque t => Json.mkObj [("opaque", Json.str t)]

def optField (j : Json) (k : String) : Option Json :=
  match j.getObjVal? k with
  | .ok v => some v
  | .error _ => none

def decField (j : Json) : Except String Field := do
  let id ← fieldStr j "id"
  let required ← fieldBool j "required"
  let default ← match optField j "default" with
    | some d => do
      let v ← decVal (← field d "v")
      pure (some v)
    | none => pure none
  return { id, required, default }

def decPred (j : Json) : Except String Pred := do
  let ids ← (← fieldArr j "ids").mapM asStr
  return fun f => ids.contains f.id

def decRawKey (j : Json) : Except String RawKey :=
  match j.getObjVal? "ellipsis" with
  | .ok _ => .ok .ellipsis
  | .error _ => do
    let k ← decKey j
    return .key k

def decMapResult (j : Json) : Except String MapResult :=
  match j with
  | .null => .ok none
  | .arr a => do
    let ks ← a.toList.mapM decRawKey
    return some ks
  | _ => .error "bad map result"

def decTbl (j : Json) (k : String) : Except String (List (String × MapResult)) := do
  (← fieldArr j k).mapM fun kv =>
    match kv with
    | .arr #[.str id, r] => do
      let r ← decMapResult r
      return (id, r)
    | _ => .error "bad map table item"

def decMapEntry (j : Json) : Except String MapEntry := do
  match ← fieldStr j "k" with
  | "dict" => return .dict (← decTbl j "tbl")
  | "const" => return .const (← decPred (← field j "pred")) (← decMapResult (← field j "r"))
  | "func" =>
    let tbl ← decTbl j "tbl"
    return .func (← decPred (← field j "pred")) fun f => (tbl.lookup f.id).getD none
  | "skip_private" => return .skipPrivateOut
  | k => throw s!"bad map entry kind {k}"

def decExtraIn (j : Json) : Except String ExtraIn :=
  match j with
  | .str "skip" => .ok .skip
  | .str "forbid" => .ok .forbid
  | .str "kwargs" => .ok .kwargs
  | .str "saturate" => .ok .saturate
  | _ => do
    let ids ← (← fieldArr j "targets").mapM asStr
    return .targets ids

def decExtraOut (j : Json) : Except String ExtraOut :=
  match j with
  | .str "skip" => .ok .skip
  | .str "extract" => .ok .extract
  | _ => do
    let ids ← (← fieldArr j "targets").mapM asStr
    return .targets ids

def decOpt {α : Type} (j : Json) (k : String) (dec : Json → Except String α) : Except String (Option α) :=
  match optField j k with
  | some v => do
    let a ← dec v
    return some a
  | none => .ok none

def asBool (j : Json) : Except String Bool :=
  match j with
  | .bool b => .ok b
  | _ => .error "expected bool"

def decProv (j : Json) : Except String OverlayProv := do
  let chain ← match optField j "chain" with
    | some (.str "first") => pure (some Chain.first)
    | some (.str "last") => pure (some Chain.last)
    | some .null => pure none
    | _ => throw "bad chain"
  let style ← decOpt j "style" fun s =>
    match s.getObjVal? "v" with
    | .ok .null => .ok (none : Option Style)
    | .ok (.str n) => .ok (some n)
    | _ => .error "bad style"
  let ov : Overlay := {
    skip := ← decOpt j "skip" decPred
    only := ← decOpt j "only" decPred
    map := ← (← fieldArr j "map").mapM decMapEntry
    trim := ← decOpt j "trim" asBool
    style := style
    asList := ← decOpt j "as_list" asBool
    omitDefault := ← decOpt j "omit_default" decPred
    extraIn := ← decOpt j "extra_in" decExtraIn
    extraOut := ← decOpt j "extra_out" decExtraOut
  }
  return { chain, ov }

/-- `NameStyle` members by name -/
def styleByMember : String → Option Adaptix.Layout.NameStyle.Style
  | "LOWER_SNAKE" => some .lowerSnake | "CAMEL_SNAKE" => some .camelSnake
  | "PASCAL_SNAKE" => some .pascalSnake | "UPPER_SNAKE" => some .upperSnake
  | "LOWER_KEBAB" => some .lowerKebab | "CAMEL_KEBAB" => some .camelKebab
  | "PASCAL_KEBAB" => some .pascalKebab | "UPPER_KEBAB" => some .upperKebab
  | "LOWER" => some .lower | "CAMEL" => some .camel | "PASCAL" => some .pascal | "UPPER" => some .upper
  | "LOWER_DOT" => some .lowerDot | "CAMEL_DOT" => some .camelDot
  | "PASCAL_DOT" => some .pascalDot | "UPPER_DOT" => some .upperDot
  | _ => none

/-- the modelled conversion (`Layout/NameStyle.lean`) of an ASCII name; `none` outside the model -/
def modelStyle (st name : String) : Option String :=
  match styleByMember st with
  | none => none
  | some s =>
    let cs := name.toList.map Char.toNat
    if cs.all (fun c => decide (c < 128)) then
      match Adaptix.Layout.NameStyle.convert cs s with
      | .ok r => some (String.ofList (r.map Char.ofNat))
      | _ => none
    else none

/-- the style conversion used by the layout model: the modelled `convert_snake_style` for ASCII
    names; for names outside that model the table `{"styles": {style: {name: converted}}}` sent
    by the harness; a missing entry is visible in the result -/
def decStyles (j : Json) : Except String (Style → String → String) := do
  let tbl ← match optField j "styles" with
    | some (.obj kvs) => kvs.toList.mapM fun (st, m) =>
        match m with
        | .obj nm => do
          let nm ← nm.toList.mapM fun (n, v) => do
            let v ← asStr v
            pure (n, v)
          pure (st, nm)
        | _ => .error "bad style table"
    | _ => pure []
  return fun st name =>
    match modelStyle st name with
    | some r => r
    | none =>
      match tbl.lookup st with
      | some nm => (nm.lookup name).getD s!"<nostyle:{name}>"
      | none => s!"<nostyle:{name}>"

/-! ### encoding of crowns -/

def encPolicy : Policy → Json
  | .skip => "skip"
  | .forbid => "forbid"
  | .collect => "collect"

partial def encInpCrown : InpCrown → Json
  | .dict m p => Json.mkObj [("t", "dict"), ("map", listJ (m.map fun (k, c) => listJ [Json.str k, encInpCrown c])),
      ("policy", encPolicy p)]
  | .list m p => Json.mkObj [("t", "list"), ("map", listJ (m.map encInpCrown)), ("policy", encPolicy p)]
  | .field id => Json.mkObj [("t", "field"), ("id", Json.str id)]
  | .none => Json.mkObj [("t", "none")]

partial def encOutCrown : OutCrown → Json
  | .dict m s => Json.mkObj [("t", "dict"), ("map", listJ (m.map fun (k, c) => listJ [Json.str k, encOutCrown c])),
      ("sieves", listJ (s.map fun (k, d) => listJ [Json.str k, encVal d]))]
  | .list m => Json.mkObj [("t", "list"), ("map", listJ (m.map encOutCrown))]
  | .field id => Json.mkObj [("t", "field"), ("id", Json.str id)]
  | .none ph => Json.mkObj [("t", "none"), ("placeholder", encVal ph)]

def encInpMove : InpExtraMove → Json
  | .none => Json.null
  | .kwargs => "kwargs"
  | .saturate => "saturate"
  | .targets ids => Json.mkObj [("targets", listJ (ids.map Json.str))]

def encOutMove : OutExtraMove → Json
  | .none => Json.null
  | .extract => "extract"
  | .targets ids => Json.mkObj [("targets", listJ (ids.map Json.str))]

def encStructErr : StructErr → Json
  | .requiredSkipped ids => Json.mkObj [("error", "requiredSkipped"), ("ids", listJ (ids.map Json.str))]
  | .inconsistent _ => Json.mkObj [("error", "inconsistent")]
  | .duplicates => Json.mkObj [("error", "duplicates")]
  | .prefix => Json.mkObj [("error", "prefix")]
  | .optionalAtList ids => Json.mkObj [("error", "optionalAtList"), ("ids", listJ (ids.map Json.str))]
  | .collectWithList => Json.mkObj [("error", "collectWithList")]
  | .emptyPath => Json.mkObj [("error", "emptyPath")]
  | .schema .cannotProvide => Json.mkObj [("error", "schema:cannotProvide")]
  | .schema .omittedValues => Json.mkObj [("error", "schema:omittedValues")]
  | .build => Json.mkObj [("error", "build")]

def decStack (j : Json) : Except String (List OverlayProv × List (List OverlayProv)) := do
  let own ← (← fieldArr j "own").mapM decProv
  let parents ← (← fieldArr j "parents").mapM fun p => do (← asArr p).mapM decProv
  return (own, parents)

/-! ### handler -/

def handleLayout (j : Json) : Except String Json := do
  let fields ← (← fieldArr j "fields").mapM decField
  let (own, parents) ← decStack j
  let style ← decStyles j
  match ← fieldStr j "dir" with
  | "inp" =>
    match provideInputLayout own parents style fields with
    | .ok l => return Json.mkObj [("crown", encInpCrown l.crown), ("move", encInpMove l.move)]
    | .error e => return encStructErr e
  | "out" =>
    match provideOutputLayout own parents style fields with
    | .ok l =>
      -- the well-formedness hypothesis of the dumper theorems, evaluated on the crown just built
      let cfg : DumpCfg := { mode := .disable, move := l.move, fields, dumper := fun _ v => .ok v, extracted := .ok (.dict []) }
      return Json.mkObj [("crown", encOutCrown l.crown), ("move", encOutMove l.move),
        ("wf", Json.bool (l.crown.wf cfg))]
    | .error e => return encStructErr e
  | d => throw s!"bad dir {d}"

/-- the specification function `pathOf` for every field (used by the harness to cross-check its
    own Python transcription of the documented rule) -/
def handlePathOf (j : Json) : Except String Json := do
  let fields ← (← fieldArr j "fields").mapM decField
  let (own, parents) ← decStack j
  let style ← decStyles j
  let dir ← match ← fieldStr j "dir" with
    | "inp" => pure Dir.inp
    | "out" => pure Dir.out
    | d => throw s!"bad dir {d}"
  match provideSchema own parents with
  | .error _ => return Json.mkObj [("error", "schema")]
  | .ok sch =>
    let targets := if dir = .inp then (makeInpExtraMove sch.extraIn).targetIds else (makeOutExtraMove sch.extraOut).targetIds
    return listJ (fields.map fun f =>
      listJ [Json.str f.id, match pathOf dir sch style fields targets f with
        | some p => encPath p
        | none => Json.null])

/-! ### generated loader / dumper -/

def decPolicy (j : Json) : Except String Policy :=
  match j with
  | .str "skip" => .ok .skip
  | .str "forbid" => .ok .forbid
  | .str "collect" => .ok .collect
  | _ => .error "bad policy"

partial def decInpCrown (j : Json) : Except String InpCrown := do
  match ← fieldStr j "t" with
  | "dict" =>
    let m ← (← fieldArr j "map").mapM fun kv =>
      match kv with
      | .arr #[.str k, c] => do
        let c ← decInpCrown c
        return (k, c)
      | _ => .error "bad crown map item"
    return .dict m (← decPolicy (← field j "policy"))
  | "list" =>
    let m ← (← fieldArr j "map").mapM decInpCrown
    return .list m (← decPolicy (← field j "policy"))
  | "field" => return .field (← fieldStr j "id")
  | "none" => return .none
  | t => throw s!"bad crown {t}"

partial def decOutCrown (j : Json) : Except String OutCrown := do
  match ← fieldStr j "t" with
  | "dict" =>
    let m ← (← fieldArr j "map").mapM fun kv =>
      match kv with
      | .arr #[.str k, c] => do
        let c ← decOutCrown c
        return (k, c)
      | _ => .error "bad crown map item"
    let sv ← (← fieldArr j "sieves").mapM fun kv =>
      match kv with
      | .arr #[.str k, d] => do
        let d ← decVal d
        return (k, d)
      | _ => .error "bad sieve item"
    return .dict m sv
  | "list" =>
    let m ← (← fieldArr j "map").mapM decOutCrown
    return .list m
  | "field" => return .field (← fieldStr j "id")
  | "none" => return .none (← decVal (← field j "placeholder"))
  | t => throw s!"bad crown {t}"

def decMode (j : Json) : Except String DebugTrail := do
  match ← fieldStr j "mode" with
  | "disable" => return .disable
  | "first" => return .first
  | "all" => return .all
  | m => throw s!"bad mode {m}"

def decInpMove (j : Json) : Except String InpExtraMove :=
  match j with
  | .null => .ok .none
  | .str "kwargs" => .ok .kwargs
  | .str "saturate" => .ok .saturate
  | _ => do
    let ids ← (← fieldArr j "targets").mapM asStr
    return .targets ids

def decOutMove (j : Json) : Except String OutExtraMove :=
  match j with
  | .null => .ok .none
  | .str "extract" => .ok .extract
  | _ => do
    let ids ← (← fieldArr j "targets").mapM asStr
    return .targets ids

/-- the fixed family of field loaders the harness registers (parameters of the property) -/
def namedLoader (kind : String) (v : Val) : Except TErr Val :=
  match kind, v with
  | "any", v => .ok v
  | "int", .int n => .ok (.int n)
  | "int", v => .error ⟨[], .typeLoad "int" v⟩
  | "str", .str s => .ok (.str s)
  | "str", v => .error ⟨[], .typeLoad "str" v⟩
  | "neg", .int n => .ok (.int (-n))
  | "neg", v => .error ⟨[], .typeLoad "int" v⟩
  | _, v => .error ⟨[], .other "ValueLoadError" v⟩

/-- the fixed family of field dumpers of the harness -/
def namedDumper (kind : String) (v : Val) : Except String Val :=
  match kind, v with
  | "id", v => .ok v
  | "chk", .str "FAIL" => .error "DumpMarkerError"
  | "chk", v => .ok v
  | "neg", .str "FAIL" => .error "DumpMarkerError"
  | "neg", .int n => .ok (.int (-n))
  | "neg", .bool b => .ok (.int (if b then -1 else 0))
  | _, _ => .error "TypeError"

def decKinds (j : Json) (k : String) : Except String (List (String × String)) := do
  match ← field j k with
  | .obj kvs => kvs.toList.mapM fun (id, v) => do
      let v ← asStr v
      return (id, v)
  | _ => throw s!"field {k}: expected object"

def encLErr : LErr → List (String × Json)
  | .typeLoad ex i => [("cls", "TypeLoadError"), ("expected", Json.str ex), ("input", encVal i)]
  | .excludedType i => [("cls", "ExcludedTypeLoadError"), ("input", encVal i)]
  | .noRequiredFields fs i => [("cls", "NoRequiredFieldsLoadError"), ("fields", listJ (fs.map Json.str)), ("input", encVal i)]
  | .noRequiredItems n i => [("cls", "NoRequiredItemsLoadError"), ("len", natJ n), ("input", encVal i)]
  | .extraFields fs i => [("cls", "ExtraFieldsLoadError"), ("fields", listJ (fs.map Json.str)), ("input", encVal i)]
  | .extraItems n i => [("cls", "ExtraItemsLoadError"), ("len", natJ n), ("input", encVal i)]
  | .other cls i => [("cls", Json.str cls), ("input", encVal i)]

def encTErr (e : TErr) : Json :=
  Json.mkObj (("trail", encPath e.trail) :: encLErr e.err)

def encLoadOutcome : LoadOutcome → Json
  | .ok args extra =>
    let base : List (String × Json) :=
      [("r", Json.str "ok"), ("args", listJ (args.map fun (k, v) => listJ [Json.str k, encVal v]))]
    Json.mkObj (base ++ match extra with | some e => [("extra", encVal e)] | none => [])
  | .error e => Json.mkObj [("r", "error"), ("e", encTErr e)]
  | .aggregate es => Json.mkObj [("r", "aggregate"), ("es", listJ (es.map encTErr))]

def encDumpOutcome : DumpOutcome → Json
  | .ok v => Json.mkObj [("r", "ok"), ("v", encVal v)]
  | .error f cls => Json.mkObj [("r", "error"), ("field", Json.str f), ("cls", Json.str cls)]
  | .group errs => Json.mkObj [("r", "group"), ("errs", listJ (errs.map fun (f, c) => listJ [Json.str f, Json.str c]))]
  | .escape cls => Json.mkObj [("r", "escape"), ("cls", Json.str cls)]

def decLoadCfg (j : Json) (fields : List Field) (move : InpExtraMove) : Except String LoadCfg := do
  let kinds ← decKinds j "loaders"
  return { mode := ← decMode j, strict := ← fieldBool j "strict", move, fields,
           loader := fun id v => namedLoader ((kinds.lookup id).getD "any") v }

def decDumpCfg (j : Json) (fields : List Field) (move : OutExtraMove) : Except String DumpCfg := do
  let kinds ← decKinds j "dumpers"
  let extracted : Except String Val ← match optField j "extracted" with
    | some e =>
      match optField e "err" with
      | some (.str cls) => pure (.error cls)
      | _ => do
        let v ← decVal (← field e "v")
        pure (.ok v)
    | none => pure (.ok (.dict []))
  return { mode := ← decMode j, move, fields, extracted,
           dumper := fun id v => namedDumper ((kinds.lookup id).getD "id") v }

def decObj (j : Json) : Except String (List (String × Val)) := do
  (← fieldArr j "obj").mapM fun kv =>
    match kv with
    | .arr #[.str k, v] => do
      let v ← decVal v
      return (k, v)
    | _ => .error "bad obj item"

/-- generated loader for an explicit crown -/
def handleLoad (j : Json) : Except String Json := do
  let fields ← (← fieldArr j "fields").mapM decField
  let move ← decInpMove (← field j "move")
  let cfg ← decLoadCfg j fields move
  let crown ← decInpCrown (← field j "crown")
  let data ← decVal (← field j "data")
  return encLoadOutcome (loadModel cfg crown data)

/-- generated dumper for an explicit crown -/
def handleDump (j : Json) : Except String Json := do
  let fields ← (← fieldArr j "fields").mapM decField
  let move ← decOutMove (← field j "move")
  let cfg ← decDumpCfg j fields move
  let crown ← decOutCrown (← field j "crown")
  let obj ← decObj j
  return encDumpOutcome (dumpModel cfg crown obj)

/-- whole pipeline: recipe → layout → generated loader -/
def handleModelLoad (j : Json) : Except String Json := do
  let fields ← (← fieldArr j "fields").mapM decField
  let (own, parents) ← decStack j
  let style ← decStyles j
  match provideInputLayout own parents style fields with
  | .error e => return Json.mkObj [("r", "no-loader"), ("why", encStructErr e)]
  | .ok l =>
    let cfg ← decLoadCfg j fields l.move
    let data ← decVal (← field j "data")
    return encLoadOutcome (loadModel cfg l.crown data)

/-- whole pipeline: recipe → layout → generated dumper -/
def handleModelDump (j : Json) : Except String Json := do
  let fields ← (← fieldArr j "fields").mapM decField
  let (own, parents) ← decStack j
  let style ← decStyles j
  match provideOutputLayout own parents style fields with
  | .error e => return Json.mkObj [("r", "no-dumper"), ("why", encStructErr e)]
  | .ok l =>
    let cfg ← decDumpCfg j fields l.move
    let obj ← decObj j
    return encDumpOutcome (dumpModel cfg l.crown obj)

/-- `apply_lsc` for every (checker, field) of a layout request located at `req`:
    {"op":"lsc_filter","world":World (encoding of the C10 driver),"req":[Loc..],"dir":"inp"|"out",
     "fields":[{"id","t"}..],"checkers":[Checker..]}  →  one string per checker, one outcome char per field
    ('T' / 'F' / exception) -/
def handleLscFilter (j : Json) : Except String Json := do
  let w ← Adaptix.Ops.C10.decWorld (← field j "world")
  let req ← Adaptix.Ops.C10.decStack (← field j "req")
  let dir ← match ← fieldStr j "dir" with
    | "inp" => pure Dir.inp
    | "out" => pure Dir.out
    | d => throw s!"bad dir {d}"
  let flds ← (← fieldArr j "fields").mapM fun f => do pure ((← fieldStr f "id"), (← fieldNat f "t"))
  let cs ← (← fieldArr j "checkers").mapM Adaptix.Ops.C10.decChecker
  return listJ (cs.map fun c => Json.str (String.ofList (flds.map fun (id, t) =>
    Adaptix.Ops.C10.outcomeChar (applyLsc w req c (fieldToLoc dir id t)))))

def handle : Protocol.Handler := fun j => do
  match ← fieldStr j "op" with
  | "lsc_filter" => handleLscFilter j
  | "layout" => handleLayout j
  | "path_of" => handlePathOf j
  | "load" => handleLoad j
  | "dump" => handleDump j
  | "model_load" => handleModelLoad j
  | "model_dump" => handleModelDump j
  | op => throw s!"unknown op {op}"

end Adaptix.Ops.C03
