/-
  JSON ops of the scalar codec models (wired into the morph driver).

    {"op":"b64_a2b",  "codes":[…]}   -> {"r":"ok","bytes":[…]} | {"r":"err","e":"oneMore"|"padding"}
    {"op":"b64_b2a",  "bytes":[…]}   -> {"codes":[…]}
    {"op":"b64_match","codes":[…]}   -> {"m":true|false}
    {"op":"b64_load", "codes":[…]}   -> {"r":"ok","bytes":[…]} | {"r":"TypeLoadError"} | {"r":"ValueLoadError"}
        (`bytes_base64_loader` on a str given by its code points)
-/
import AdaptixModel.Protocol
import AdaptixModel.Codec.Base64

namespace Adaptix.Ops.Codec
open Lean Adaptix.Protocol Adaptix.Codec.Base64

def natList (j : Json) (k : String) : Except String (List Nat) := do
  let v ← field j k
  match v with
  | .arr xs => xs.toList.mapM fun x => match x.getNat? with
      | .ok n => .ok n
      | .error _ => .error s!"field {k}: expected naturals"
  | _ => .error s!"field {k}: expected array"

def natsJ (xs : List Nat) : Json := Json.arr (xs.map (fun n => Json.num (JsonNumber.fromNat n))).toArray

def handle (j : Json) : Except String Json := do
  let op ← fieldStr j "op"
  match op with
  | "b64_a2b" =>
    match a2b (← natList j "codes") with
    | .ok bs => return Json.mkObj [("r", "ok"), ("bytes", natsJ bs)]
    | .error .oneMore => return Json.mkObj [("r", "err"), ("e", "oneMore")]
    | .error .padding => return Json.mkObj [("r", "err"), ("e", "padding")]
  | "b64_b2a" => return Json.mkObj [("codes", natsJ (b2a (← natList j "bytes")))]
  | "b64_match" => return Json.mkObj [("m", Json.bool (matchesPattern (← natList j "codes")))]
  | "b64_load" =>
    match loadCodes (← natList j "codes") with
    | .ok bs => return Json.mkObj [("r", "ok"), ("bytes", natsJ bs)]
    | .typeErr => return Json.mkObj [("r", "TypeLoadError")]
    | .valueErr => return Json.mkObj [("r", "ValueLoadError")]
  | _ => throw s!"unknown op {op}"

end Adaptix.Ops.Codec
