import AdaptixModel.Protocol
import AdaptixModel.Retort.Threads
import AdaptixModel.Retort.Derive

/-
  JSON ops of the thread model (C12).

  {"op":"schedule_run","mode":"byLoc"|"byId","graph":G,"fuel":n,"eval_fuel":n,
   "threads":[{"ty":τ,"depth":d},…],"schedule":[tid,…]}
     -> {"trace":[label,…],"results":[res|null,…],"done":bool,"steps":n}
  {"op":"compile","graph":G,"fuel":n,"ty":τ} -> [instr,…]
  G = {"nodes":[{"ty":τ,"site":s,"kind":K,"pre":[[site,const,K],…],"children":[loc,…]},…],
       "locs":[[loc,τ],…],"tops":[[τ,loc],…]}
  K = "fresh" | "fresh_nullable" | "aux" | "fail" | ["prim",p]
  {"op":"derive_run","strategy":"fresh"|"snapshot"|"iterate","origin":n,"acts":[["clone"]|["store",k],…]}
     -> {"state":"start"|"iterating"|"done"|"error","size":n,"steps":n}
     (model of `Retort.replace` / `Retort.extend` against concurrent stores, AdaptixModel/Retort/Derive.lean; the
      origin's cache starts with the keys 0..n-1)
-/
namespace Adaptix.Ops.C12
open Lean Adaptix.Protocol Adaptix.Threads

def decKind (j : Json) : Except String Kind :=
  match j with
  | .str "fresh" => pure (.fresh false)
  | .str "fresh_nullable" => pure (.fresh true)
  | .str "aux" => pure .aux
  | .str "fail" => pure .fail
  | .arr a =>
    match a.toList with
    | [.str "prim", p] => do pure (.prim (← asNat p))
    | _ => throw "bad kind"
  | _ => throw "bad kind"

def encKind : Kind → Json
  | .fresh false => "fresh"
  | .fresh true => "fresh_nullable"
  | .aux => "aux"
  | .fail => "fail"
  | .prim p => listJ ["prim", natJ p]

def decPre (j : Json) : Except String (Site × Nat × Kind) := do
  match (← asArr j) with
  | [s, c, k] => pure (← asNat s, ← asNat c, ← decKind k)
  | _ => throw "bad pre entry"

def decNode (j : Json) : Except String (TyId × Node) := do
  let ty ← fieldNat j "ty"
  let nd : Node := {
    site := ← fieldNat j "site", kind := ← decKind (← field j "kind"),
    pre := ← (← fieldArr j "pre").mapM decPre, children := ← (← fieldArr j "children").mapM asNat }
  pure (ty, nd)

def decPair (j : Json) : Except String (Nat × Nat) := do
  match (← asArr j) with
  | [a, b] => pure (← asNat a, ← asNat b)
  | _ => throw "bad pair"

def lookupD {α : Type} (m : List (Nat × α)) (k : Nat) (d : α) : α :=
  match m.find? (fun e => e.1 == k) with
  | some e => e.2
  | none => d

def decGraph (j : Json) : Except String Graph := do
  let nodes ← (← fieldArr j "nodes").mapM decNode
  let locs ← (← fieldArr j "locs").mapM decPair
  let tops ← (← fieldArr j "tops").mapM decPair
  pure { node := fun ty => lookupD nodes ty default, locTy := fun l => lookupD locs l 0,
         topLoc := fun ty => lookupD tops ty 0 }

def decMode (s : String) : Except String Mode :=
  match s with
  | "byLoc" => pure .byLoc
  | "byId" => pure .byId
  | _ => throw s!"bad mode {s}"

def encRef : Ref → Json
  | .prim p => Json.str s!"p{p}"
  | .clo i => Json.str s!"c{i}"
  | .stub x => Json.str s!"s{x}"

def encRes : Res → Json
  | .ok o => Json.mkObj [("r", "ok"), ("out", listJ (o.map natJ))]
  | .unbound => Json.mkObj [("r", "unbound")]
  | .stubChain => Json.mkObj [("r", "stub_chain")]
  | .outOfFuel => Json.mkObj [("r", "out_of_fuel")]
  | .dangling => Json.mkObj [("r", "dangling")]
  | .notFound => Json.mkObj [("r", "not_found")]

def encInstr : Instr → Json
  | .cached s c n k => listJ ["cached", natJ s, natJ c, natJ n, encKind k]
  | .stubGet l => listJ ["stub_get", natJ l]
  | .stubBind l => listJ ["stub_bind", natJ l]

def encLabel : Label → Json
  | .lcGet t ty hit => listJ [natJ t, "lc_get", natJ ty, match hit with | some r => encRef r | none => Json.null]
  | .ccContains t s a h => listJ [natJ t, "cc_contains", natJ s, listJ (a.map encRef), Json.bool h]
  | .ccGet t s v => listJ [natJ t, "cc_get", natJ s, encRef v]
  | .ccStore t s v => listJ [natJ t, "cc_store", natJ s, encRef v]
  | .stubNew t l x => listJ [natJ t, "stub_new", natJ l, encRef (.stub x)]
  | .stubReuse t l x => listJ [natJ t, "stub_reuse", natJ l, encRef (.stub x)]
  | .stubBind t l x r => listJ [natJ t, "stub_bind", natJ l, encRef (.stub x), encRef r]
  | .lcPut t ty r => listJ [natJ t, "lc_put", natJ ty, encRef r]
  | .call t ty d res => listJ [natJ t, "call", natJ ty, natJ d, encRes res]
  | .notFound t ty => listJ [natJ t, "not_found", natJ ty]
  | .noop t => listJ [natJ t, "noop"]

def decThread (j : Json) : Except String (TyId × Nat) := do
  pure (← fieldNat j "ty", ← fieldNat j "depth")

def decAct (j : Json) : Except String Derive.Act := do
  match (← asArr j) with
  | [.str "clone"] => pure .clone
  | [.str "store", k] => do pure (.store (← asNat k) 0)
  | _ => throw "bad act"

def handle : Protocol.Handler := fun j => do
  let op ← fieldStr j "op"
  match op with
  | "derive_run" =>
    let st : Derive.Strategy ← match (← fieldStr j "strategy") with
      | "fresh" => pure .fresh
      | "snapshot" => pure .snapshot
      | "iterate" => pure .iterate
      | x => throw s!"unknown strategy {x}"
    let origin : Derive.Dict := (List.range (← fieldNat j "origin")).map fun i => (i, 0)
    let acts ← (← fieldArr j "acts").mapM decAct
    let s := Derive.run st (Derive.init origin) acts
    let (state, size) : String × Nat := match s.clone with
      | .start => ("start", 0)
      | .iterating _ _ acc => ("iterating", acc.length)
      | .done d => ("done", d.length)
      | .error => ("error", 0)
    return Json.mkObj [("state", Json.str state), ("size", natJ size), ("steps", natJ s.steps)]
  | "schedule_run" =>
    let G ← decGraph (← field j "graph")
    let fuel ← fieldNat j "fuel"
    let sys : Sys := { mode := ← decMode (← fieldStr j "mode"), body := compile G fuel,
                       fails := failsTy G, fuel := ← fieldNat j "eval_fuel" }
    let threads ← (← fieldArr j "threads").mapM decThread
    let sched ← (← fieldArr j "schedule").mapM asNat
    let s := run sys (init threads) sched
    return Json.mkObj [
      ("trace", listJ (s.trace.reverse.map encLabel)),
      ("results", listJ (s.threads.map fun th => match th.result with | some r => encRes r | none => Json.null)),
      ("done", Json.bool (allDone s)),
      ("steps", natJ sched.length)]
  | "static" =>
    -- the schedule-independent hypothesis of `all_schedules_safe`, evaluated for the requested types
    let G ← decGraph (← field j "graph")
    let fuel ← fieldNat j "fuel"
    let tys ← (← fieldArr j "tys").mapM asNat
    return listJ (tys.map fun ty => Json.mkObj [("ty", natJ ty), ("typed", Json.bool (typed G (compile G fuel ty) ty)),
                                               ("length", natJ (compile G fuel ty).length)])
  | "compile" =>
    let G ← decGraph (← field j "graph")
    return listJ ((compile G (← fieldNat j "fuel") (← fieldNat j "ty")).map encInstr)
  | "unfold" =>
    let G ← decGraph (← field j "graph")
    return encRes (unfold G (← fieldNat j "eval_fuel") (← fieldNat j "depth") (← fieldNat j "ty"))
  | _ => throw s!"unknown op {op}"

end Adaptix.Ops.C12
