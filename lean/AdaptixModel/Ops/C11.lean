import AdaptixModel.Protocol
import AdaptixModel.Retort.CacheSem
import AdaptixModel.Generated.C11Sites

namespace Adaptix.Ops.C11
open Lean Adaptix.Protocol Adaptix.Cache

def decLit (j : Json) : Except String LitVal :=
  match j.getObjVal? "i", j.getObjVal? "b", j.getObjVal? "s" with
  | .ok v, _, _ => return .int (← asInt v)
  | _, .ok (.bool b), _ => return .bool b
  | _, _, .ok v => return .str (← asNat v)
  | _, _, _ => throw "bad literal value"

partial def decHint (j : Json) : Except String Hint := do
  let k ← fieldStr j "k"
  match k with
  | "cls" => return .cls (← fieldNat j "u")
  | "lit" => return .lit (← (← fieldArr j "a").mapM decLit)
  | "seq" => return .seq (← fieldNat j "f") (← decHint (← field j "e"))
  | "ann" => return .annotated (← decHint (← field j "b")) (← (← fieldArr j "m").mapM decLit)
  | "union" => return .union (← (← fieldArr j "m").mapM asNat)
  | _ => throw s!"bad hint kind {k}"

def decScalar (s : String) : Except String Scalar :=
  match s with
  | "int" => pure .int | "bool" => pure .bool | "str" => pure .str | "bytes" => pure .bytes
  | _ => throw s!"bad scalar {s}"

def decKind (j : Json) : Except String ClsKind := do
  let k ← fieldStr j "kind"
  match k with
  | "scalar" => return .scalar (← decScalar (← fieldStr j "s"))
  | "none" => return .noneType
  | "opaque" => return .unknown
  | "newtype" => return .newtype (← decHint (← field j "sup"))
  | "model" =>
    let fs ← (← fieldArr j "fields").mapM fun f => do
      return ({ name := ← fieldStr f "n", type := ← decHint (← field f "t"), required := ← fieldBool f "r" } : Field)
    return .model fs
  | "enum" =>
    let ms ← (← fieldArr j "members").mapM fun m => do return ((← fieldStr m "n"), (← decLit (← field m "v")))
    return .enum ms
  | _ => throw s!"bad class kind {k}"

def decUniv (j : Json) : Except String Univ := do
  let cs ← (← fieldArr j "classes").mapM fun c => do
    return ((← fieldNat c "u"), (← decKind c), (← fieldNat c "name"))
  let strs ← (← fieldArr j "strs").mapM asStr
  return {
    kind := fun u => ((cs.find? (fun c => c.1 == u)).map (·.2.1)).getD .unknown
    nameKey := fun u => ((cs.find? (fun c => c.1 == u)).map (·.2.2)).getD 0
    strOf := fun n => strs.getD n ""
    bytesUid := ← fieldNat j "bytes"
    intUid := ← fieldNat j "int"
    boolUid := ← fieldNat j "bool"
    strUid := ← fieldNat j "str"
    noneUid := ← fieldNat j "none" }

partial def decVal (j : Json) : Except String Val :=
  match j with
  | .null => pure .none
  | .bool b => pure (.bool b)
  | .str s => pure (.str s)
  | .num _ => do return .int (← asInt j)
  | .obj _ =>
    match j.getObjVal? "e" with
    | .ok c => do return .enum (← asNat c) (← fieldStr j "n")
    | _ =>
    match j.getObjVal? "l", j.getObjVal? "t", j.getObjVal? "d", j.getObjVal? "o" with
    | .ok (.arr a), _, _, _ => do return .list (← a.toList.mapM decVal)
    | _, .ok (.arr a), _, _ => do return .tuple (← a.toList.mapM decVal)
    | _, _, .ok (.arr a), _ => do
      return .dict (← a.toList.mapM fun kv => do
        match kv with
        | .arr #[.str k, v] => return (k, ← decVal v)
        | _ => throw "bad dict item")
    | _, _, _, .ok c => do
      let fs ← (← fieldArr j "f").mapM fun kv => do
        match kv with
        | .arr #[.str k, v] => return (k, ← decVal v)
        | _ => throw "bad obj field"
      return .obj (← asNat c) fs
    | _, _, _, _ => throw "bad value object"
  | _ => throw "bad value"

partial def encVal : Val → Json
  | .none => .null
  | .bool b => .bool b
  | .int i => intJ i
  | .str s => .str s
  | .list xs => Json.mkObj [("l", listJ (xs.map encVal))]
  | .tuple xs => Json.mkObj [("t", listJ (xs.map encVal))]
  | .dict kvs => Json.mkObj [("d", listJ (kvs.map fun (k, v) => listJ [.str k, encVal v]))]
  | .obj c fs => Json.mkObj [("o", natJ c), ("f", listJ (fs.map fun (k, v) => listJ [.str k, encVal v]))]
  | .enum c n => Json.mkObj [("e", natJ c), ("n", .str n)]

partial def encErr : ErrTree → Json
  | .node cls kids => listJ [.str cls, listJ (kids.map encErr)]

def encOutcome : Outcome → Json
  | .ok v => Json.mkObj [("ok", encVal v)]
  | .loadErr e => Json.mkObj [("err", encErr e), ("load", .bool true)]
  | .raised e => Json.mkObj [("err", encErr e), ("load", .bool false)]
  | .unmodelled => Json.mkObj [("unmodelled", .bool true)]

def decDir (s : String) : Except String Dir :=
  match s with | "load" => pure .load | "dump" => pure .dump | _ => throw s!"bad dir {s}"

/-- `{"p": "user", "dir", "fid", "ts": [hints]}` (`{"dir", "t", "fid"}`: one target), `{"p": "enum_by_name", "ts"}`,
    `{"p": "enum_by_exact_value", "ts"}` -/
def decRecipe (j : Json) : Except String (List RecipeEntry) := do
  (← asArr j).mapM fun e => do
    let targets ← match e.getObjVal? "ts" with
      | .ok ts => (← asArr ts).mapM decHint
      | _ => do pure [← decHint (← field e "t")]
    let p := match e.getObjVal? "p" with | .ok (.str p) => p | _ => "user"
    match p with
    | "user" => return ({ prov := .user (← decDir (← fieldStr e "dir")) (← fieldNat e "fid"), targets := targets } : RecipeEntry)
    | "enum_by_name" => return { prov := .enumByName, targets := targets }
    | "enum_by_exact_value" => return { prov := .enumByExactValue, targets := targets }
    | _ => throw s!"bad recipe entry kind {p}"

def decCfg (j : Json) : Except String Cfg := do
  return { strict := ← fieldBool j "strict", recipe := ← decRecipe (← field j "recipe") }

def decFOp (j : Json) : Except String FOp := do
  let f ← fieldStr j "f"
  match f with
  | "get_loader" => return .getLoader (← decHint (← field j "h"))
  | "load" => return .load (← decHint (← field j "h")) (← decVal (← field j "v"))
  | "get_dumper" => return .getDumper (← decHint (← field j "h"))
  | "dump" => return .dump (← decHint (← field j "h")) (← decVal (← field j "v"))
  | "get_converter" => return .getConverter (← decHint (← field j "s")) (← decHint (← field j "d"))
  | "convert" => return .convert (← decHint (← field j "s")) (← decHint (← field j "d")) (← decVal (← field j "v"))
  | _ => throw s!"bad facade op {f}"

def decOp (j : Json) : Except String Op := do
  let o ← fieldStr j "op"
  match o with
  | "call" => return .call (← fieldNat j "i") (← decFOp (← field j "f"))
  | "replace" =>
    let st := match j.getObjVal? "strict" with | .ok (.bool b) => some b | _ => none
    return .replace (← fieldNat j "i") st
  | "extend" => return .extend (← fieldNat j "i") (← decRecipe (← field j "recipe"))
  | _ => throw s!"bad op {o}"

def decMode (j : Json) : Except String Mode := do
  return { litKeyTyped := ← fieldBool j "lit_key_typed", unionTotal := ← fieldBool j "union_total" }

def decParams (j : Json) : Except String Params := do
  return { mode := ← decMode (← field j "mode"), cap := ← fieldNat j "cap", fuel := ← fieldNat j "fuel" }

/-- run a history, reporting what every facade call returned -/
def runObs (P : Params) (U : Univ) : List Op → Sys → List Json → Sys × List Json
  | [], w, acc => (w, acc.reverse)
  | op :: rest, w, acc =>
    let o : Json := match op with
      | .call i f => match observe P U w i f with | some x => encOutcome x | none => .null
      | _ => .null
    runObs P U rest (stepOp P U op w) (o :: acc)

def runCase (P : Params) (U : Univ) (j : Json) : Except String Json := do
  let cfg ← decCfg (← field j "cfg")
  let norm0 ← (← fieldArr j "norm0").mapM decHint
  let hist ← (← fieldArr j "history").mapM decOp
  let w0 : Sys := { retorts := [Retort.fresh cfg], norm := norm0 }
  let (w, outs) := runObs P U hist w0 []
  let probe ← field j "probe"
  let i ← fieldNat probe "i"
  let f ← decFOp (← field probe "f")
  let warmed := match observe P U w i f with | some x => encOutcome x | none => .null
  let fresh := match w.retorts[i]? with
    | some r => encOutcome (observeFresh P U r.cfg f)
    | none => .null
  return Json.mkObj [("hist", listJ outs), ("probe", warmed), ("fresh", fresh),
                     ("call_entries", natJ ((w.retorts.map (·.call.length)).foldl (· + ·) 0))]

def handle : Protocol.Handler := fun j => do
  let op ← fieldStr j "op"
  match op with
  | "cache_batch" =>
    let U ← decUniv (← field j "univ")
    let P ← decParams (← field j "params")
    let cases ← fieldArr j "cases"
    return listJ (← cases.mapM (runCase P U))
  | "hint_eq" =>
    let U ← decUniv (← field j "univ")
    let M ← decMode (← field j "mode")
    let pairs ← fieldArr j "pairs"
    return listJ (← pairs.mapM fun p => do
      let a ← decHint (← field p "a")
      let b ← decHint (← field p "b")
      return Json.mkObj [("eq", .bool (Hint.pyEq a b)), ("norm_eq", .bool (a.canon M U == b.canon M U))])
  | "sites" =>
    return listJ (Adaptix.Generated.C11Sites.sites.map fun (f, fn, args) =>
      listJ [.str f, .str fn, listJ (args.map Json.str)])
  | _ => throw s!"unknown op {op}"

end Adaptix.Ops.C11
