/-
  JSON ops of the C18 driver: the executable enum / flag model behind the line protocol.
-/
import AdaptixModel.Protocol
import AdaptixModel.Morph.Enum
import AdaptixModel.Morph.Flag
import AdaptixModel.Morph.EnumBinding

namespace Adaptix.Ops.C18
open Lean Adaptix.Protocol Adaptix.Enum

/-! ### values -/

def decAtom (j : Json) : Except String Atom := do
  let t ← fieldStr j "t"
  match t with
  | "none" => return .none
  | "bool" => return .bool (← fieldBool j "v")
  | "int" => return .int (← fieldInt j "v")
  | "float" => return .float (← fieldInt j "v")
  | "str" => return .str (← fieldStr j "v")
  | "opaque" => return .opaque (← fieldNat j "k") (← fieldBool j "h")
  | _ => throw s!"bad atom tag {t}"

def decVal (j : Json) : Except String PyVal := do
  let t ← fieldStr j "t"
  match t with
  | "list" => return .list (← (← fieldArr j "v").mapM decAtom)
  | "tuple" => return .tuple (← (← fieldArr j "v").mapM decAtom)
  | "mapping" => return .mapping (← (← fieldArr j "v").mapM decAtom)
  | "self" => return .self (← fieldStr j "name") (← decAtom (← field j "as"))
  | _ => return .atom (← decAtom j)

def encAtom : Atom → Json
  | .none => Json.mkObj [("t", "none")]
  | .bool b => Json.mkObj [("t", "bool"), ("v", Json.bool b)]
  | .int i => Json.mkObj [("t", "int"), ("v", intJ i)]
  | .float i => Json.mkObj [("t", "float"), ("v", intJ i)]
  | .str s => Json.mkObj [("t", "str"), ("v", Json.str s)]
  | .opaque k h => Json.mkObj [("t", "opaque"), ("k", natJ k), ("h", Json.bool h)]

def encVal : PyVal → Json
  | .atom a => encAtom a
  | .list xs => Json.mkObj [("t", "list"), ("v", listJ (xs.map encAtom))]
  | .tuple xs => Json.mkObj [("t", "tuple"), ("v", listJ (xs.map encAtom))]
  | .mapping xs => Json.mkObj [("t", "mapping"), ("v", listJ (xs.map encAtom))]
  | .self n a => Json.mkObj [("t", "self"), ("name", Json.str n), ("as", encAtom a)]

def optStr (j : Json) (k : String) : Except String (Option String) :=
  match j.getObjVal? k with
  | .ok (.str s) => .ok (some s)
  | .ok .null => .ok none
  | .ok _ => .error s!"field {k}: expected string or null"
  | .error _ => .ok none

/-! ### errors, outcomes -/

def encErr : LoadErr → Json
  | .badVariant vs => Json.mkObj [("err", "BadVariantLoadError"), ("variants", listJ (vs.map encVal))]
  | .typeLoad => Json.mkObj [("err", "TypeLoadError")]
  | .excludedType => Json.mkObj [("err", "ExcludedTypeLoadError")]
  | .outOfRange lo hi => Json.mkObj [("err", "OutOfRangeLoadError"), ("lo", intJ lo), ("hi", intJ hi)]
  | .duplicatedValues => Json.mkObj [("err", "DuplicatedValuesLoadError")]
  | .multipleBadVariant vs bad => Json.mkObj [("err", "MultipleBadVariantLoadError"),
      ("variants", listJ (vs.map Json.str)), ("invalid", listJ (bad.map encAtom))]
  | .msg m => Json.mkObj [("err", "MsgLoadError"), ("msg", Json.str m)]

def encOutcome {α : Type} (enc : α → Json) : Outcome α → Json
  | .ok a => Json.mkObj [("ok", enc a)]
  | .loadErr e => encErr e
  | .escape x => Json.mkObj [("esc", Json.str x)]

def createTag {α : Type} : Create α → Json
  | .ok _ => "ok"
  | .cannotProvide _ => "cannot_provide"
  | .raises _ => "raises"

/-! ### classes and provider options -/

def decEnumEntry (j : Json) : Except String EnumEntry := do
  return { name := ← fieldStr j "name", value := ← decVal (← field j "value"), aliasOf := ← optStr j "alias" }

def decMissing (j : Json) : Except String (Option (List (PyVal × String))) :=
  match j.getObjVal? "missing" with
  | .ok (.arr a) => do
    let rows ← a.toList.mapM fun row => do
      match row with
      | .arr #[v, .str n] => return (← decVal v, n)
      | _ => throw "missing: expected [value, name]"
    return some rows
  | _ => .ok none

def decEnumClass (j : Json) : Except String EnumClass := do
  return { entries := ← (← fieldArr j "entries").mapM decEnumEntry, missing := ← decMissing j }

def decFlagClass (j : Json) : Except String FlagClass := do
  let es ← (← fieldArr j "entries").mapM fun e => do
    return ({ name := ← fieldStr e "name", bits := ← fieldNat e "bits" } : FlagEntry)
  return { entries := es, strict := ← fieldBool j "strict" }

def decMapKey (j : Json) : Except String MapKey := do
  let k ← fieldStr j "k"
  match k with
  | "name" => return .name (← fieldStr j "v")
  | "member" => return .member (← fieldStr j "v")
  | "foreign" => return .foreign
  | _ => throw s!"bad map key kind {k}"

def decNameCfg (j : Json) : Except String NameCfg := do
  let style ← match ← optStr j "style" with
    | none => pure none
    | some s =>
      match styleOfName s with
      | some st => pure (some st)
      | none => throw s!"unknown name style {s}"
  let map ← match j.getObjVal? "map" with
    | .ok (.arr a) => a.toList.mapM fun row => do
        match row with
        | .arr #[k, .str v] => return (← decMapKey k, v)
        | _ => throw "map: expected [key, str]"
    | _ => pure []
  return { style := style, map := map }

def decValueKind (s : String) : Except String ValueKind :=
  match s with
  | "int" => .ok .int
  | "str" => .ok .str
  | "bool" => .ok .bool
  | "any" => .ok .any
  | _ => .error s!"bad value kind {s}"

def encMember (m : Member) : Json := Json.str m.name

def optValJ : Option PyVal → Json
  | some v => encVal v
  | none => Json.null

/-- Python's aliasing rule at class creation: a value equal to the value of an earlier
    (canonical) member makes the new name an alias of it. -/
def pyAliases : List Member → List (String × PyVal) → List EnumEntry
  | _, [] => []
  | canon, (n, v) :: rest =>
    match canon.find? (fun m => m.value.pyEq v) with
    | some m => { name := n, value := v, aliasOf := some m.name } :: pyAliases canon rest
    | none => { name := n, value := v, aliasOf := none } :: pyAliases (canon ++ [⟨n, v⟩]) rest

/-! ### op `bind`: which provider of the recipe serves each request of a history on one retort -/

def decFamily (j : Json) : Except String Family := do
  match ← fieldStr j "family" with
  | "enum" => return .enum
  | "flag" => return .flag
  | f => throw s!"bad family {f}"

/-- class `i` as a field is the field `f<i>` of its own holder dataclass `H<i>` (harness convention) -/
def fieldNameOf (i : Nat) : String := s!"f{i}"

def decBindPred (j : Json) : Except String BindPred := do
  let cs ← (← fieldArr j "cs").mapM asNat
  let form ← fieldStr j "form"
  match form, cs with
  | "cls", [c] => return .type c
  | "P", [c] => return .type c
  | "Ptuple", cs => return .types cs
  | "str", [c] => return .fieldName (fieldNameOf c)
  | "re", [c] => return .fieldName (fieldNameOf c)      -- the regex `f<i>$` matches exactly that name
  | "Ppath", [c] => return .path c (fieldNameOf c)
  | _, _ => throw s!"bad predicate form {form}"

def decBound (j : Json) : Except String Bound := do
  let fam ← decFamily j
  let kind ← fieldStr j "kind"
  let preds ← (← fieldArr j "preds").mapM decBindPred
  -- the options of the provider play no part in the choice
  let prov ← match fam, kind with
    | .enum, "exact" => pure ReprProvider.enumExact
    | .enum, "name" => pure (ReprProvider.enumName {})
    | .enum, "value" => pure (ReprProvider.enumValue .any)
    | .flag, "exact" => pure ReprProvider.flagExact
    | .flag, "list" => pure (ReprProvider.flagList {} {})
    | _, _ => throw s!"bad provider kind {kind}"
  return { checker := boundByAny preds, provider := prov }

def handleBind (j : Json) : Except String Json := do
  let fams ← (← fieldArr j "classes").mapM decFamily
  let recipe ← (← fieldArr j "providers").mapM decBound
  let history ← (← fieldArr j "history").mapM fun r => do
    let i ← fieldNat r "cls"
    let fam ← match fams[i]? with
      | some f => pure f
      | none => throw s!"history: no class {i}"
    let site : Site := { cls := i, family := fam,
                         field := if ← fieldBool r "field" then some (i, fieldNameOf i) else none }
    let dir ← match ← fieldStr r "dir" with
      | "loader" => pure Dir.loader
      | "dumper" => pure Dir.dumper
      | d => throw s!"bad direction {d}"
    return ((site, dir) : Key)
  return listJ ((serve recipe [] history).2.map fun a =>
    match a with | some i => natJ i | none => Json.null)

def handle : Protocol.Handler := fun j => do
  let op ← fieldStr j "op"
  match op with
  | "bind" => handleBind j
  | "enum" =>
    let c ← decEnumClass j
    let p ← field j "provider"
    let kind ← fieldStr p "kind"
    let data ← (← fieldArr j "data").mapM decVal
    let dumpNames ← (← fieldArr j "dump").mapM asStr
    let dumpMembers := dumpNames.filterMap c.byName
    match kind with
    | "exact" =>
      let ld := enumExactLoader c
      let dp := enumExactDumper c
      return Json.mkObj [("loader", "ok"), ("dumper", "ok"),
        ("path", if (exactValueToMember c).isSome then "v2m" else "fallback"),
        ("loads", listJ (data.map fun d => encOutcome encMember (ld d))),
        ("dumps", listJ (dumpMembers.map fun m => optValJ (dp m)))]
    | "name" =>
      let cfg ← decNameCfg p
      let ld := enumNameLoader c cfg
      let dp := enumNameDumper c cfg
      let loads := match ld with
        | .ok f => data.map fun d => encOutcome encMember (f d)
        | _ => []
      let dumps := match dp with
        | .ok f => dumpMembers.map fun m => optValJ (f m)
        | _ => []
      return Json.mkObj [("loader", createTag ld), ("dumper", createTag dp),
        ("loads", listJ loads), ("dumps", listJ dumps)]
    | "value" =>
      let k ← decValueKind (← fieldStr p "tp")
      return Json.mkObj [("loader", "ok"), ("dumper", "ok"),
        ("loads", listJ (data.map fun d => encOutcome encMember (enumValueLoader c k d))),
        ("dumps", listJ (dumpMembers.map fun m => encVal (enumValueDumper k m)))]
    | _ => throw s!"bad enum provider kind {kind}"
  | "flag" =>
    let c ← decFlagClass j
    let p ← field j "provider"
    let kind ← fieldStr p "kind"
    let data ← (← fieldArr j "data").mapM decVal
    let dumpVals ← (← fieldArr j "dump").mapM asNat
    match kind with
    | "exact" =>
      let ld := flagExactLoader c
      let loads := match ld with
        | .ok f => data.map fun d => encOutcome natJ (f d)
        | _ => []
      return Json.mkObj [("loader", createTag ld), ("dumper", "ok"),
        ("loads", listJ loads), ("dumps", listJ (dumpVals.map fun v => encVal (flagExactDumper v)))]
    | "list" =>
      let cfg ← decNameCfg p
      let o : ListOpts := {
        allowSingleValue := ← fieldBool p "single", allowDuplicates := ← fieldBool p "dups",
        allowCompound := ← fieldBool p "compound", strictCoercion := ← fieldBool p "strict_coercion" }
      -- an instance of the flag class as datum is iterable (`Flag.__iter__`): outside the model
      if data.any PyVal.isSelf then throw "flag list loader: instances of the class as data are outside the model"
      let ld := flagListLoader c cfg o
      let dp := flagListDumper c cfg o
      let loads := match ld with
        | .ok f => data.map fun d => encOutcome natJ (f d)
        | _ => []
      let dumps := match dp with
        | .ok f => dumpVals.map fun v => listJ ((f v).map Json.str)
        | _ => []
      return Json.mkObj [("loader", createTag ld), ("dumper", createTag dp),
        ("loads", listJ loads), ("dumps", listJ dumps)]
    | _ => throw s!"bad flag provider kind {kind}"
  | "flag_members" =>
    -- enum.__members__ as (entry name, canonical name, value); mask; non-compound names
    let c ← decFlagClass j
    return Json.mkObj [
      ("members", listJ ((c.entries.zip c.membersValues).map fun (e, m) =>
        listJ [Json.str e.name, Json.str m.name, natJ m.bits])),
      ("mask", natJ c.mask),
      ("non_compound", listJ (c.nonCompound.map fun m => Json.str m.name)),
      ("calls", listJ ((← (← fieldArr j "values").mapM asNat).map fun v =>
        match c.call v with | some r => natJ r | none => Json.null))]
  | "enum_aliases" =>
    -- which names Python turns into aliases, computed from (name, value) pairs
    let pairs ← (← fieldArr j "pairs").mapM fun row => do
      match row with
      | .arr #[.str n, v] => return (n, ← decVal v)
      | _ => throw "pairs: expected [name, value]"
    return listJ ((pyAliases [] pairs).map fun e =>
      match e.aliasOf with | some n => Json.str n | none => Json.null)
  | "style" =>
    let s ← fieldStr j "style"
    let names ← (← fieldArr j "names").mapM asStr
    match styleOfName s with
    | none => throw s!"unknown name style {s}"
    | some st => return listJ (names.map fun n =>
        match convertSnakeStyle n st with | some r => Json.str r | none => Json.null)
  | _ => throw s!"unknown op {op}"

end Adaptix.Ops.C18
