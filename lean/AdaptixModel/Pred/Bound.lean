/-
  C10 — predicates.  `bound(pred, provider)`:
    src/adaptix/_internal/provider/facade/provider.py   (`bound`, `bound_by_any`)
    src/adaptix/_internal/provider/located_request.py   (`LocStackBoundingProvider._process_request_checker`,
                                                          `LocatedRequestChecker.check_request`)
    src/adaptix/_internal/provider/request_checkers.py  (`AlwaysTrueRequestChecker`)
-/
import AdaptixModel.Pred.Pattern

namespace Adaptix.Pred

/-- the request checkers a provider can hand out -/
inductive RequestChecker
  | alwaysTrue                         -- AlwaysTrueRequestChecker()
  | located (c : Checker)              -- LocatedRequestChecker(loc_stack_checker)
  | other (i : Nat)                    -- any other RequestChecker implementation
  deriving Repr, Inhabited

/-- `RequestChecker.check_request(mediator, request)` for a located request with stack `st`;
    `otherTruth i` is what the i-th foreign checker answers for this request -/
def RequestChecker.check (W : World) (otherTruth : Nat → Bool) : RequestChecker → LocStack → Outcome
  | .alwaysTrue, _ => .ok true
  | .located c, st => Pred.check W c st
  | .other i, _ => .ok (otherTruth i)

/-- `LocStackBoundingProvider._process_request_checker(request_cls, checker)`;
    `isLocated` is `issubclass(request_cls, LocatedRequest)` -/
def processRequestChecker (bounding : Checker) (isLocated : Bool) (checker : RequestChecker) : RequestChecker :=
  if isLocated then
    match checker with
    | .alwaysTrue => .located bounding
    | .located own => .located (.and [bounding, own])      -- self._loc_stack_checker & checker.loc_stack_checker
    | .other i => .other i
  else checker

/-- `bound_by_any(preds, provider)`: the checker the provider is bound with (`none`: provider returned as is) -/
def boundByAnyChecker (W : World) : List Value → Except PyExc (Option Checker)
  | [] => .ok none
  | [pred] => do let c ← createLocStackChecker W pred; pure (some c)
  | preds => do
      let cs ← preds.mapM (createLocStackChecker W)
      pure (some (.or cs))

end Adaptix.Pred
