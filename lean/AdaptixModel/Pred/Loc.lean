/-
  C10 — predicates.  Locations and location stacks.

  Follows
    src/adaptix/_internal/provider/location.py   (`_BaseLoc.is_castable`, the location dataclasses)
    src/adaptix/_internal/datastructures.py      (`ImmutableStack.last`, `__len__`, `reversed_slice`)
    src/adaptix/_internal/provider/loc_stack_filtering.py  (`LocStack`)

  Only the attributes that `loc_stack_filtering.py` reads are kept: the class of
  the location, `type`, `field_id`, `generic_pos`.  Python objects that occur as
  type hints / origins are `Obj` identifiers (the harness numbers them up to `==`).
-/
import AdaptixModel.Pred.LocClass
import AdaptixModel.Generated.PredTables

namespace Adaptix.Pred

/-- a Python object used as a type hint, an origin or a class; identified up to Python `==` -/
abbrev Obj := Nat

/-- A location object.  `fieldId` is read only through a cast to `FieldLoc`,
    `genericPos` only through a cast to `GenericParamLoc` (the dataclasses that
    are sources of these casts all define the attribute). -/
structure Loc where
  cls : LocClass
  type : Obj
  fieldId : String := ""
  genericPos : Int := 0
  deriving DecidableEq, Repr, Inhabited

/-- `_BaseLoc.is_castable(tp)`: `type(self) in _CAST_SOURCES[tp]` -/
def Loc.isCastable (l : Loc) (tp : LocClass) : Bool :=
  (Generated.castSources tp).contains l.cls

/-- `LocStack` = `ImmutableStack[AnyLoc]`: a tuple of locations, root first. -/
abbrev LocStack := List Loc

/-- `ImmutableStack.reversed_slice(end_offset)`: `self._tuple[:len(self) - end_offset]`
    (used with `0 ≤ end_offset ≤ len`, so the slice bound is never negative). -/
def reversedSlice (st : LocStack) (endOffset : Nat) : LocStack :=
  st.take (st.length - endOffset)

end Adaptix.Pred
