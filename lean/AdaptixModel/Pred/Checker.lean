/-
  C10 — predicates.  Every `LocStackChecker` class of
    src/adaptix/_internal/provider/loc_stack_filtering.py
  and its `check_loc_stack`, statement by statement.

  `check` is the faithful model: its result is a Python outcome, i.e. a `bool`
  or the exception that escapes (`IndexError` from `loc_stack.last` on an empty
  stack, `TypeError` from `reduce` over no elements).  The generator that
  `BinOperatorLSC.check_loc_stack` hands to `any` / `all` / `reduce` and the
  `for` loop of `LocStackEndChecker` are modelled as the list of the outcomes of
  the element checks *in iteration order*, consumed lazily by `pyAny` / `pyAll`
  / `pyReduceXor` (checkers have no side effect besides raising, so "evaluate
  on demand" and "fold the list of outcomes from the left, stopping at the
  first decisive one" are the same thing).

  `checkB` is the same recursion with plain `Bool`s (no exceptions).  It is what
  `check` computes on the inputs that exist in practice — a non-empty stack and
  no empty `XorLocStackChecker` — see `Lemmas/PredChecker.lean: check_eq_checkB`.
-/
import AdaptixModel.Pred.World

namespace Adaptix.Pred

/-- exceptions that can leave the modelled code -/
inductive PyExc
  | indexError
  | typeError
  | valueError
  | attributeError
  | reError          -- `re.error` from `re.compile`
  | outsideModel     -- the expression leaves the modelled fragment (never produced for generated cases)
  deriving DecidableEq, Repr, Inhabited

/-- the outcome of a `check_loc_stack` call -/
abbrev Outcome := Except PyExc Bool

instance : DecidableEq Outcome := fun a b =>
  match a, b with
  | .ok x, .ok y => if h : x = y then isTrue (by rw [h]) else isFalse (by intro e; cases e; exact h rfl)
  | .error x, .error y => if h : x = y then isTrue (by rw [h]) else isFalse (by intro e; cases e; exact h rfl)
  | .ok _, .error _ => isFalse (by intro e; cases e)
  | .error _, .ok _ => isFalse (by intro e; cases e)

/-- the `LocStackChecker` classes -/
inductive Checker
  | exactFieldName (fieldId : String)     -- ExactFieldNameLSC(field_id)
  | reFieldName (pattern : String)        -- ReFieldNameLSC(pattern); the compiled pattern is named by a key
  | exactType (norm : Nat)                -- ExactTypeLSC(norm)
  | originSubclass (type_ : Obj)          -- OriginSubclassLSC(type_)
  | exactOrigin (origin : Obj)            -- ExactOriginLSC(origin)
  | genericParam (pos : Int)              -- GenericParamLSC(pos)
  | locStackEnd (cs : List Checker)       -- LocStackEndChecker(loc_stack_checkers)
  | size (expected : Int)                 -- LocStackSizeChecker(expected_size)
  | any                                   -- AnyLocStackChecker()
  | invert (c : Checker)                  -- InvertLSC(lsc)
  | or (cs : List Checker)                -- OrLocStackChecker(loc_stack_checkers)
  | and (cs : List Checker)               -- AndLocStackChecker(loc_stack_checkers)
  | xor (cs : List Checker)               -- XorLocStackChecker(loc_stack_checkers)
  | user (i : Nat)                        -- an instance of a user-defined subclass
  deriving Repr, Inhabited

/-! ### Python builtins over a lazily produced sequence of outcomes -/

/-- `any(gen)`: first exception or first `True` decides -/
def pyAny : List Outcome → Outcome
  | [] => .ok false
  | o :: os => do if (← o) then pure true else pyAny os

/-- `all(gen)`; also the `for … if not …: return False … return True` loop of `LocStackEndChecker` -/
def pyAll : List Outcome → Outcome
  | [] => .ok true
  | o :: os => do if (← o) then pyAll os else pure false

/-- the accumulation step of `functools.reduce(operator.xor, …)` once the first element is known -/
def pyXorFold (acc : Bool) : List Outcome → Outcome
  | [] => .ok acc
  | o :: os => do let b ← o; pyXorFold (acc ^^ b) os

/-- `functools.reduce(operator.xor, gen)`: `TypeError` on no elements -/
def pyReduceXor : List Outcome → Outcome
  | [] => .error .typeError
  | o :: os => do let b ← o; pyXorFold b os

/-! ### `LastLocChecker` -/

/-- `LastLocChecker.check_loc_stack`:
    ```
    last_loc = loc_stack.last                      # IndexError on an empty stack
    if last_loc.is_castable(self._expected_location):
        return self._check_location(mediator, last_loc)
    return False
    ``` -/
def lastLocCheck (expected : LocClass) (checkLocation : Loc → Bool) (st : LocStack) : Outcome :=
  match st.getLast? with
  | none => .error .indexError
  | some lastLoc => if lastLoc.isCastable expected then .ok (checkLocation lastLoc) else .ok false

/-- `ExactTypeLSC._check_location`: `normalize_type(loc.type)`; `ValueError` → `False`; `norm == self.norm` -/
def checkExactType (W : World) (norm : Nat) (loc : Loc) : Bool :=
  match W.norm loc.type with
  | .ok n => n == norm
  | .notSubscribed => false
  | .valueError => false

/-- `OriginSubclassLSC._check_location`: `is_subclass_soft(norm.origin, self.type_)` -/
def checkOriginSubclass (W : World) (type_ : Obj) (loc : Loc) : Bool :=
  match W.norm loc.type with
  | .ok n => W.subclassSoft (W.normOrigin n) type_
  | .notSubscribed => false
  | .valueError => false

/-- `ExactOriginLSC._check_location`: `norm.origin == self.origin` -/
def checkExactOrigin (W : World) (origin : Obj) (loc : Loc) : Bool :=
  match W.norm loc.type with
  | .ok n => W.normOrigin n == origin
  | .notSubscribed => false
  | .valueError => false

/-! ### `check_loc_stack` -/

mutual
/-- `LocStackChecker.check_loc_stack(mediator, loc_stack)` for every class of the module -/
def check (W : World) : Checker → LocStack → Outcome
  | .exactFieldName fieldId, st =>
      lastLocCheck Generated.expectedLoc_ExactFieldNameLSC (fun loc => fieldId == loc.fieldId) st
  | .reFieldName pattern, st =>
      lastLocCheck Generated.expectedLoc_ReFieldNameLSC (fun loc => W.reFullmatch pattern loc.fieldId) st
  | .exactType norm, st =>
      lastLocCheck Generated.expectedLoc_ExactTypeLSC (checkExactType W norm) st
  | .originSubclass type_, st =>
      lastLocCheck Generated.expectedLoc_OriginSubclassLSC (checkOriginSubclass W type_) st
  | .exactOrigin origin, st =>
      lastLocCheck Generated.expectedLoc_ExactOriginLSC (checkExactOrigin W origin) st
  | .genericParam pos, st =>
      lastLocCheck Generated.expectedLoc_GenericParamLSC (fun loc => loc.genericPos == pos) st
  | .locStackEnd cs, st =>
      -- if len(loc_stack) < len(self.loc_stack_checkers): return False
      if st.length < cs.length then .ok false
      -- for i, checker in enumerate(reversed(self.loc_stack_checkers)): if not checker.check(…reversed_slice(i)): return False
      else pyAll (checkEnd W cs st).reverse
  | .size expected, st => .ok ((st.length : Int) == expected)
  | .any, _ => .ok true
  | .invert c, st => do let b ← check W c st; pure (!b)
  | .or cs, st => pyAny (checkEach W cs st)
  | .and cs, st => pyAll (checkEach W cs st)
  | .xor cs, st => pyReduceXor (checkEach W cs st)
  | .user i, st => .ok (W.user i st)
/-- the generator `(c.check_loc_stack(mediator, loc_stack) for c in self._loc_stack_checkers)` -/
def checkEach (W : World) : List Checker → LocStack → List Outcome
  | [], _ => []
  | c :: cs, st => check W c st :: checkEach W cs st
/-- `checker.check_loc_stack(mediator, loc_stack.reversed_slice(i))` for every checker of a
    `LocStackEndChecker`, listed in *definition* order: the checker followed by `cs` has
    `i = len(cs)` in `enumerate(reversed(…))`. -/
def checkEnd (W : World) : List Checker → LocStack → List Outcome
  | [], _ => []
  | c :: cs, st => check W c (reversedSlice st cs.length) :: checkEnd W cs st
end

/-! ### the same recursion without exceptions -/

def lastLocCheckB (expected : LocClass) (checkLocation : Loc → Bool) (st : LocStack) : Bool :=
  match st.getLast? with
  | none => false
  | some lastLoc => lastLoc.isCastable expected && checkLocation lastLoc

mutual
def checkB (W : World) : Checker → LocStack → Bool
  | .exactFieldName fieldId, st =>
      lastLocCheckB Generated.expectedLoc_ExactFieldNameLSC (fun loc => fieldId == loc.fieldId) st
  | .reFieldName pattern, st =>
      lastLocCheckB Generated.expectedLoc_ReFieldNameLSC (fun loc => W.reFullmatch pattern loc.fieldId) st
  | .exactType norm, st =>
      lastLocCheckB Generated.expectedLoc_ExactTypeLSC (checkExactType W norm) st
  | .originSubclass type_, st =>
      lastLocCheckB Generated.expectedLoc_OriginSubclassLSC (checkOriginSubclass W type_) st
  | .exactOrigin origin, st =>
      lastLocCheckB Generated.expectedLoc_ExactOriginLSC (checkExactOrigin W origin) st
  | .genericParam pos, st =>
      lastLocCheckB Generated.expectedLoc_GenericParamLSC (fun loc => loc.genericPos == pos) st
  | .locStackEnd cs, st =>
      if st.length < cs.length then false else (checkEndB W cs st).reverse.all id
  | .size expected, st => (st.length : Int) == expected
  | .any, _ => true
  | .invert c, st => !checkB W c st
  | .or cs, st => (checkEachB W cs st).any id
  | .and cs, st => (checkEachB W cs st).all id
  | .xor cs, st => (checkEachB W cs st).foldl (· ^^ ·) false
  | .user i, st => W.user i st
def checkEachB (W : World) : List Checker → LocStack → List Bool
  | [], _ => []
  | c :: cs, st => checkB W c st :: checkEachB W cs st
def checkEndB (W : World) : List Checker → LocStack → List Bool
  | [], _ => []
  | c :: cs, st => checkB W c (reversedSlice st cs.length) :: checkEndB W cs st
end

/-! ### checkers on which `check` cannot raise `TypeError`: no `XorLocStackChecker([])` inside -/

mutual
def Checker.wf : Checker → Bool
  | .locStackEnd cs => wfAll cs
  | .invert c => c.wf
  | .or cs => wfAll cs
  | .and cs => wfAll cs
  | .xor cs => !cs.isEmpty && wfAll cs
  | _ => true
def wfAll : List Checker → Bool
  | [] => true
  | c :: cs => c.wf && wfAll cs
end

end Adaptix.Pred
