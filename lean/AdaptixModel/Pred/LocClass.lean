/-
  C10 — predicates.  The six public location classes of
  `src/adaptix/_internal/provider/location.py` (TypeHintLoc … GenericParamLoc).
  Kept in its own file because the *generated* table
  `AdaptixModel/Generated/PredTables.lean` (`_CAST_SOURCES`, rewritten from the
  working tree on every run) refers to it.
-/
namespace Adaptix.Pred

/-- `type(loc)` of a location object (location.py, the public classes). -/
inductive LocClass
  | typeHintLoc
  | fieldLoc
  | inputFieldLoc
  | inputFuncFieldLoc
  | outputFieldLoc
  | genericParamLoc
  deriving DecidableEq, Repr, Inhabited

def LocClass.all : List LocClass :=
  [.typeHintLoc, .fieldLoc, .inputFieldLoc, .inputFuncFieldLoc, .outputFieldLoc, .genericParamLoc]

end Adaptix.Pred
