/-
  C10 — predicates.  The SPECIFICATION: what a predicate expression matches,
  written from the documentation (docs/loading-and-dumping/tutorial.rst,
  "Predicate system") and *not* from the checker construction.  No `Checker`,
  no `create_loc_stack_checker`, no cast table occurs below.

  Tutorial text                                              | here
  -----------------------------------------------------------+---------------------------
  1 "a class … applied to all same types"                     | `TypePredKind.exactly`
  2 "an abstract class … all subclasses"                      | `TypePredKind.subclasses`
  3 "a runtime checkable protocol … all implementations"      | `TypePredKind.subclasses`
  4 "a string … regex … fields with id matched by the regex;  | `fieldIdMatches`
     … the field_id directly … will match an equal string"    |
  `P[Foo].name[Bar].age` matches field age located at model   | `matchesChain`: the last locations of the
     Bar, situated at field name, placed at model Foo          |   stack satisfy the elements in order
  `P['name']` = `P.name`, `P[Foo]` = `Foo`, `+`, `P[Foo, Bar]`| `chain` (concatenation / one element / alternative)
  "combined via |, &, ^, … reversed using ~"                  | pointwise `||`, `&&`, `^^`, `!`
-/
import AdaptixModel.Pred.Pattern

namespace Adaptix.Pred

/-! ### field ids -/

/-- the location classes that describe a field of a model (they carry a `field_id`) -/
def LocClass.isField : LocClass → Bool
  | .fieldLoc | .inputFieldLoc | .inputFuncFieldLoc | .outputFieldLoc => true
  | .typeHintLoc | .genericParamLoc => false

/-- a string predicate against a field id: equality when the string is an identifier,
    full regex match otherwise -/
def fieldIdMatches (W : World) (s : String) (fieldId : String) : Bool :=
  if W.isIdentifier s then s == fieldId else W.reFullmatch s fieldId

/-! ### classes and type hints -/

/-- how a class / type-hint predicate is to be read -/
inductive TypePredKind
  | exactly (origin : Obj)     -- a concrete class: exactly that type
  | subclasses (base : Obj)    -- an abstract class or a protocol: every subclass / implementation
  | sameType (norm : Nat)      -- a parametrised hint (`List[int]`, `Optional[C]`): the same type up to normalisation
  | invalid                    -- not a predicate (a type variable, a still-generic alias, not a type at all)
  deriving DecidableEq, Repr

def typePredKind (W : World) (pred : Obj) : TypePredKind :=
  match W.norm pred with
  | .notSubscribed => .exactly pred          -- a bare special form (`Union`, `Literal`…) stands for itself
  | .valueError => .invalid
  | .ok norm =>
    if W.normIsTV norm then .invalid
    else if W.isParametrized pred then
      if W.isGeneric pred then .invalid      -- `List[T]`
      else .sameType norm
    else
      let origin := W.normOrigin norm
      if !W.isGeneric pred && W.isGeneric origin then .sameType norm   -- an unparametrised hint standing for a generic origin
      else if W.isAbstract origin || W.isProtocol origin then .subclasses origin
      else .exactly origin

/-- a class / type-hint predicate against the type found at a location
    (a location type that cannot be normalised is matched by nothing) -/
def typeMatches (W : World) (pred : Obj) (locType : Obj) : Bool :=
  match W.norm locType with
  | .ok n =>
    match typePredKind W pred with
    | .exactly origin => W.normOrigin n == origin
    | .subclasses base => W.subclassSoft (W.normOrigin n) base
    | .sameType norm => n == norm
    | .invalid => false
  | _ => false

/-! ### chains -/

/-- `chainFrom fs pre tail`: walking down the tail, the i-th element is satisfied by the stack up to
    and including the i-th location of the tail -/
def chainFrom : List (LocStack → Bool) → LocStack → LocStack → Bool
  | [], _, [] => true
  | f :: fs, pre, loc :: tail => f (pre ++ [loc]) && chainFrom fs (pre ++ [loc]) tail
  | _, _, _ => false

/-- a chain of `k` elements matches the stacks whose last `k` locations satisfy the elements in order -/
def matchesChain (fs : List (LocStack → Bool)) (st : LocStack) : Bool :=
  fs.length ≤ st.length &&
    chainFrom fs (st.take (st.length - fs.length)) (st.drop (st.length - fs.length))

/-! ### the denotation of a predicate expression -/

/-- the stack ends at the `pos`-th type argument of a generic -/
def isGenericParam (pos : Int) (st : LocStack) : Bool :=
  match st.getLast? with
  | some loc => loc.cls == .genericParamLoc && loc.genericPos == pos
  | none => false

/-- a string predicate: the stack ends at a field whose id the string matches -/
def strMatches (W : World) (s : String) (st : LocStack) : Bool :=
  match st.getLast? with
  | some loc => loc.cls.isField && fieldIdMatches W s loc.fieldId
  | none => false

mutual
/-- does the predicate expression match the location stack? -/
def specMatches (W : World) : Expr → LocStack → Bool
  | .str s, st => strMatches W s st
  | .re key, st =>
      match st.getLast? with
      | some loc => loc.cls.isField && W.reFullmatch key loc.fieldId
      | none => false
  | .ty tp, st =>
      match st.getLast? with
      | some loc => typeMatches W tp loc.type
      | none => false
  | .any, _ => true
  | .user i, st => W.user i st
  | .create e, st => specMatches W e st
  | .build p, st => specMatches W p st
  | .bin .or a b, st => specMatches W a st || specMatches W b st
  | .bin .and a b, st => specMatches W a st && specMatches W b st
  | .bin .xor a b, st => specMatches W a st ^^ specMatches W b st
  | .invert a, st => !specMatches W a st
  | .P, st => matchesChain [] st
  | .getitem p item, st => matchesChain (chain W p ++ [fun s => specMatches W item s]) st
  | .getitemTuple p items, st => matchesChain (chain W p ++ [fun s => matchesSome W items s]) st
  | .getattr p name, st =>
      if name == "ANY" ∧ (chain W p).isEmpty then true
      else matchesChain (chain W p ++ [strMatches W name]) st
  | .genericArg p pos pred, st =>
      matchesChain (chain W p ++ [fun s => isGenericParam pos s && specMatches W pred s]) st
  | .add a b, st => matchesChain (chain W a ++ chain W b) st
/-- the elements of a `P` chain, in order -/
def chain (W : World) : Expr → List (LocStack → Bool)
  | .P => []
  | .getitem p item => chain W p ++ [fun s => specMatches W item s]
  | .getitemTuple p items => chain W p ++ [fun s => matchesSome W items s]
  | .getattr p name => chain W p ++ [strMatches W name]
  | .genericArg p pos pred => chain W p ++ [fun s => isGenericParam pos s && specMatches W pred s]
  | .add a b => chain W a ++ chain W b
  | .bin .or a b => [fun s => specMatches W a s || specMatches W b s]
  | .bin .and a b => [fun s => specMatches W a s && specMatches W b s]
  | .bin .xor a b => [fun s => specMatches W a s ^^ specMatches W b s]
  | .invert a => [fun s => !specMatches W a s]
  | _ => []
/-- `P[a, b, …]`: some alternative matches -/
def matchesSome (W : World) : List Expr → LocStack → Bool
  | [], _ => false
  | e :: es, st => specMatches W e st || matchesSome W es st
end

end Adaptix.Pred
