/-
  C10 — predicates.  The oracle table ("world") a predicate is evaluated in.

  adaptix delegates every question about classes and type hints to `typing`,
  `inspect`, `abc`, `re` and to its own `normalize_type`.  None of that is
  re-modelled here: the answers are an explicit table per universe of objects,
  shipped by the harness (computed on the running interpreter with the very
  functions `loc_stack_filtering.py` calls).  Theorems quantify over *all*
  worlds, i.e. they hold whatever these functions answer.
-/
import AdaptixModel.Pred.Loc

namespace Adaptix.Pred

/-- outcome of `normalize_type(tp)` as far as `loc_stack_filtering.py` distinguishes it -/
inductive NormResult
  | ok (norm : Nat)     -- a `BaseNormType`; norms are numbered up to `==`
  | notSubscribed       -- raises `NotSubscribedError` (a subclass of `ValueError`)
  | valueError          -- raises any other `ValueError`
  deriving DecidableEq, Repr

structure World where
  /-- `normalize_type(tp)` -/
  norm : Obj → NormResult
  /-- `isinstance(norm, NormTV)` -/
  normIsTV : Nat → Bool
  /-- `norm.origin` -/
  normOrigin : Nat → Obj
  /-- `type_tools.is_generic(tp)` -/
  isGeneric : Obj → Bool
  /-- `type_tools.is_parametrized(tp)` -/
  isParametrized : Obj → Bool
  /-- `type_tools.is_protocol(tp)` -/
  isProtocol : Obj → Bool
  /-- `inspect.isabstract(tp)` -/
  isAbstract : Obj → Bool
  /-- `type_tools.is_subclass_soft(cls, classinfo)` (`issubclass`, `False` on `TypeError`) -/
  subclassSoft : Obj → Obj → Bool
  /-- `str.isidentifier()` -/
  isIdentifier : String → Bool
  /-- `re.compile(s)` succeeds (otherwise `re.error`) -/
  reCompiles : String → Bool
  /-- `pattern.fullmatch(field_id) is not None`; a compiled pattern is named by a key, the key of
      `re.compile(s)` is `s` itself -/
  reFullmatch : String → String → Bool
  /-- `check_loc_stack` of the i-th user-defined `LocStackChecker` (assumed total and pure) -/
  user : Nat → LocStack → Bool

/-- `type_tools.is_bare_generic(tp)`: `is_generic(tp) and not is_parametrized(tp)` -/
def World.isBareGeneric (W : World) (tp : Obj) : Bool :=
  W.isGeneric tp && !W.isParametrized tp

end Adaptix.Pred
