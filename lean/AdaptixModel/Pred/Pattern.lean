/-
  C10 — predicates.  From a predicate to a checker:
    `create_loc_stack_checker`, `_create_non_type_hint_loc_stack_checker`,
    `_create_loc_stack_checker_by_origin`, the operator methods of
    `LocStackChecker` and the whole of `LocStackPattern` (the object `P`) in
    src/adaptix/_internal/provider/loc_stack_filtering.py.

  `Expr` is the syntax a user writes (`P[A].name | ~P[B]`, `"a.*"`, `P.ANY` …),
  `Value` what such an expression evaluates to, `eval` follows Python's
  evaluation including binary-operator dispatch (`__or__`, then the reflected
  `__ror__` of the right operand when the left one returns `NotImplemented`).
-/
import AdaptixModel.Pred.Checker

namespace Adaptix.Pred

/-- the Python values a predicate expression can denote -/
inductive Value
  | str (s : String)                 -- `str`
  | re (key : String)                -- a compiled `re.Pattern`, named by a key of the regex oracle
  | ty (tp : Obj)                    -- a class or any other type hint
  | checker (c : Checker)            -- a `LocStackChecker` instance
  | pattern (stack : List Checker)   -- a `LocStackPattern` with this `_stack`
  deriving Repr, Inhabited

/-! ### `create_loc_stack_checker` -/

/-- `LocStackPattern.build_loc_stack_checker` -/
def buildLocStackChecker : List Checker → Except PyExc Checker
  | [] => .error .valueError          -- "Can not produce LocStackChecker from LocStackPattern without stack"
  | [c] => .ok c                      -- len(self._stack) == 1: return self._stack[0]
  | stack => .ok (.locStackEnd stack)

/-- `_create_non_type_hint_loc_stack_checker(pred)`; `none` is Python's `None` -/
def createNonTypeHint (W : World) : Value → Except PyExc (Option Checker)
  | .str s =>
      if W.isIdentifier s then .ok (some (.exactFieldName s))   -- "this is only an optimization"
      else if W.reCompiles s then .ok (some (.reFieldName s))    -- ReFieldNameLSC(re.compile(pred))
      else .error .reError
  | .re key => .ok (some (.reFieldName key))
  | .checker c => .ok (some c)
  | .pattern stack => do let c ← buildLocStackChecker stack; pure (some c)
  | .ty _ => .ok none

/-- `_create_loc_stack_checker_by_origin(origin)` -/
def createByOrigin (W : World) (origin : Obj) : Checker :=
  if W.isProtocol origin || W.isAbstract origin then .originSubclass origin else .exactOrigin origin

/-- the type-hint part of `create_loc_stack_checker` (after `_create_non_type_hint…` returned `None`) -/
def createFromTypeHint (W : World) (pred : Obj) : Except PyExc Checker :=
  match W.norm pred with
  | .notSubscribed => .ok (.exactOrigin pred)          -- except NotSubscribedError: return ExactOriginLSC(pred)
  | .valueError => .error .valueError                  -- except ValueError: raise ValueError(...)
  | .ok norm =>
    if W.normIsTV norm then .error .valueError         -- isinstance(norm, NormTV)
    else if W.isBareGeneric pred then .ok (createByOrigin W (W.normOrigin norm))
    else if W.isGeneric pred then .error .valueError   -- "generic alias (parametrized generic)"
    else if !W.isGeneric (W.normOrigin norm) && !W.isParametrized pred then
      .ok (createByOrigin W (W.normOrigin norm))       -- "this is only an optimization"
    else .ok (.exactType norm)

/-- `create_loc_stack_checker(pred)` -/
def createLocStackChecker (W : World) (pred : Value) : Except PyExc Checker := do
  match ← createNonTypeHint W pred with
  | some result => pure result
  | none =>
    match pred with
    | .ty tp => createFromTypeHint W tp
    | _ => .error .outsideModel       -- unreachable: only `.ty` yields `none`

/-! ### `LocStackPattern` -/

/-- `item.startswith("__") and item.endswith("__")` (on the list of characters, so that it evaluates in the kernel) -/
def isDunder (item : String) : Bool :=
  let cs := item.toList
  cs.take 2 == ['_', '_'] && cs.reverse.take 2 == ['_', '_']

/-- `LocStackPattern._ensure_loc_stack_checker_from_pred` -/
def ensureFromPred (W : World) : Value → Except PyExc Checker
  | .pattern _ => .error .typeError   -- "Can not use LocStackPattern as predicate inside LocStackPattern"
  | pred => createLocStackChecker W pred

/-- `[self._ensure_loc_stack_checker_from_pred(el) for el in item]` -/
def ensureEachFromPred (W : World) : List Value → Except PyExc (List Checker)
  | [] => .ok []
  | v :: vs => do let c ← ensureFromPred W v; let cs ← ensureEachFromPred W vs; pure (c :: cs)

/-- `LocStackPattern.__getitem__` with a non-tuple item: `self._extend_stack([…from_pred(item)])` -/
def patGetitem (W : World) (stack : List Checker) (item : Value) : Except PyExc Value := do
  let c ← ensureFromPred W item
  pure (.pattern (stack ++ [c]))

/-- `LocStackPattern.__getitem__` with a tuple (or generator) item:
    `self._extend_stack([OrLocStackChecker([…from_pred(el) for el in item])])` -/
def patGetitemTuple (W : World) (stack : List Checker) (items : List Value) : Except PyExc Value := do
  let cs ← ensureEachFromPred W items
  pure (.pattern (stack ++ [.or cs]))

/-- attribute access `pattern.<item>`.  Python first performs the ordinary lookup; `ANY` is a
    property (returns `_ANY` on the empty pattern, raises `AttributeError` otherwise — and an
    `AttributeError` leaving a property makes Python fall back to `__getattr__`); the other
    attributes of the class are methods / private slots and leave the modelled fragment.
    `__getattr__`: dunder names raise `AttributeError`, anything else is `self[item]`. -/
def patGetattr (W : World) (stack : List Checker) (item : String) : Except PyExc Value :=
  if item == "ANY" ∧ stack.isEmpty then .ok (.checker .any)
  else if item != "ANY" ∧ Generated.patternAttrs.contains item then .error .outsideModel
  else if isDunder item then .error .attributeError
  else patGetitem W stack (.str item)

/-- `LocStackPattern._ensure_loc_stack_checker(other)`: a checker is returned as is, anything else is
    asked for `.build_loc_stack_checker()` -/
def ensureLocStackChecker : Value → Except PyExc Checker
  | .checker c => .ok c
  | .pattern stack => buildLocStackChecker stack
  | _ => .error .attributeError       -- 'str' / type object has no attribute 'build_loc_stack_checker'

/-- `LocStackPattern.generic_arg(pos, pred)`: `[GenericParamLSC(pos) & …from_pred(pred)]` -/
def patGenericArg (W : World) (stack : List Checker) (pos : Int) (pred : Value) : Except PyExc Value := do
  let c ← ensureFromPred W pred
  pure (.pattern (stack ++ [.and [.genericParam pos, c]]))

/-- the three binary boolean operators -/
inductive BinOp | or | and | xor
  deriving DecidableEq, Repr, Inhabited

/-- `LocStackChecker.__or__/__and__/__xor__` on two checkers: `XxxLocStackChecker([self, other])` -/
def BinOp.mk : BinOp → Checker → Checker → Checker
  | .or, a, b => .or [a, b]
  | .and, a, b => .and [a, b]
  | .xor, a, b => .xor [a, b]

/-- `a <op> b` with Python's dispatch:
    * `LocStackChecker.__op__(a, b)`: a checker when `b` is a checker, else `NotImplemented`, and then the
      reflected `LocStackPattern.__rop__(b, a)` if `b` is a pattern, else `TypeError`;
    * `LocStackPattern.__op__(a, b)`: `_from_lsc(self.build() <op> self._ensure_loc_stack_checker(other))`;
    * `LocStackPattern.__rop__(b, a)`: `_from_lsc(self._ensure_loc_stack_checker(other) <op> self.build())`. -/
def evalBinOp (op : BinOp) : Value → Value → Except PyExc Value
  | .checker a, .checker b => .ok (.checker (op.mk a b))
  | .checker a, .pattern stack => do
      let l ← ensureLocStackChecker (.checker a)
      let r ← buildLocStackChecker stack
      pure (.pattern [op.mk l r])
  | .checker _, _ => .error .typeError
  | .pattern stack, other => do
      let l ← buildLocStackChecker stack
      let r ← ensureLocStackChecker other
      pure (.pattern [op.mk l r])
  | other, .pattern stack => do
      let l ← ensureLocStackChecker other
      let r ← buildLocStackChecker stack
      pure (.pattern [op.mk l r])
  | _, _ => .error .typeError         -- neither operand implements the operator for the other

/-- `~a`: `LocStackChecker.__invert__` / `LocStackPattern.__invert__` -/
def evalInvert : Value → Except PyExc Value
  | .checker c => .ok (.checker (.invert c))
  | .pattern stack => do let c ← buildLocStackChecker stack; pure (.pattern [.invert c])
  | _ => .error .typeError

/-- `a + b`: `LocStackPattern.__add__`: `self._extend_stack(other._stack)` -/
def evalAdd : Value → Value → Except PyExc Value
  | .pattern s1, .pattern s2 => .ok (.pattern (s1 ++ s2))
  | .pattern _, _ => .error .attributeError    -- other has no `_stack`
  | _, _ => .error .typeError                  -- no `__add__` / `__radd__` (str + str etc. is outside the fragment)

/-- predicate expressions -/
inductive Expr
  | str (s : String)                               -- "name" / "a.*"
  | re (key : String)                              -- re.compile(...)
  | ty (tp : Obj)                                  -- a class or type hint
  | any                                            -- the `AnyLocStackChecker` instance (`P.ANY`)
  | user (i : Nat)                                 -- an instance of a user-defined `LocStackChecker`
  | create (e : Expr)                              -- create_loc_stack_checker(e)
  | P                                              -- the empty pattern
  | getitem (p : Expr) (item : Expr)               -- p[item]
  | getitemTuple (p : Expr) (items : List Expr)    -- p[i1, i2, …]
  | getattr (p : Expr) (name : String)             -- p.name
  | genericArg (p : Expr) (pos : Int) (pred : Expr) -- p.generic_arg(pos, pred)
  | add (a b : Expr)                               -- a + b
  | bin (op : BinOp) (a b : Expr)                  -- a | b, a & b, a ^ b
  | invert (a : Expr)                              -- ~a
  | build (p : Expr)                               -- p.build_loc_stack_checker()
  deriving Repr, Inhabited

/-- the `_stack` of a value that must be a `LocStackPattern` (method call / subscription on `P…`) -/
def asPattern : Value → Except PyExc (List Checker)
  | .pattern stack => .ok stack
  | _ => .error .outsideModel          -- subscripting a str/type/checker is not part of the predicate language

mutual
/-- evaluation of a predicate expression, operands left to right -/
def eval (W : World) : Expr → Except PyExc Value
  | .str s => .ok (.str s)
  | .re key => .ok (.re key)
  | .ty tp => .ok (.ty tp)
  | .any => .ok (.checker .any)
  | .user i => .ok (.checker (.user i))
  | .create e => do let v ← eval W e; let c ← createLocStackChecker W v; pure (.checker c)
  | .P => .ok (.pattern [])
  | .getitem p item => do
      let stack ← asPattern (← eval W p)
      let v ← eval W item
      patGetitem W stack v
  | .getitemTuple p items => do
      let stack ← asPattern (← eval W p)
      let vs ← evalEach W items
      patGetitemTuple W stack vs
  | .getattr p name => do
      let stack ← asPattern (← eval W p)
      patGetattr W stack name
  | .genericArg p pos pred => do
      let stack ← asPattern (← eval W p)
      let v ← eval W pred
      patGenericArg W stack pos v
  | .add a b => do let x ← eval W a; let y ← eval W b; evalAdd x y
  | .bin op a b => do let x ← eval W a; let y ← eval W b; evalBinOp op x y
  | .invert a => do let x ← eval W a; evalInvert x
  | .build p => do
      let stack ← asPattern (← eval W p)
      let c ← buildLocStackChecker stack
      pure (.checker c)
def evalEach (W : World) : List Expr → Except PyExc (List Value)
  | [] => .ok []
  | e :: es => do let v ← eval W e; let vs ← evalEach W es; pure (v :: vs)
end

/-- what every consumer of a predicate does with it (`loader(pred, …)`, `bound(pred, …)`,
    `for_predicate(pred)`): evaluate the expression, then `create_loc_stack_checker` -/
def createChecker (W : World) (e : Expr) : Except PyExc Checker := do
  let v ← eval W e
  createLocStackChecker W v

end Adaptix.Pred
