/-
  Well-formedness of class tables and the two side conditions under which the
  resolver provably agrees with the specification (C16).  All predicates are
  bounded quantifications, hence decidable: the driver evaluates them on every
  correspondence case so the harness knows which cases the theorems cover.
-/
import AdaptixModel.Types.Generic

namespace Adaptix.Generic

/-- every type variable of `t` is one of `ps` -/
def Hint.ScopedIn (ps : List TVar) (t : Hint) : Prop := ∀ v ∈ t.tvs, v ∈ ps

instance (ps : List TVar) (t : Hint) : Decidable (t.ScopedIn ps) := by
  unfold Hint.ScopedIn
  infer_instance

/-- bases are defined before the class (Python cannot do otherwise) -/
def BasesLt (H : Hierarchy) : Prop :=
  ∀ c < H.classes.length, ∀ b ∈ origBases H c, b.cls < c

/-- a subscribed base has one argument per parameter (typing enforces it; no TypeVarTuple) -/
def ArityOk (H : Hierarchy) : Prop :=
  ∀ c < H.classes.length, ∀ b ∈ origBases H c, ∀ args ∈ b.args,
    args.length = (H.cls b.cls).params.length

/-- type variables used in base subscriptions are parameters of the class -/
def ArgsScoped (H : Hierarchy) : Prop :=
  ∀ c < H.classes.length, ∀ b ∈ origBases H c, ∀ args ∈ b.args, ∀ a ∈ args,
    a.ScopedIn (H.cls c).params

/-- type variables used in the annotations of a class body are parameters of the class -/
def AnnScoped (H : Hierarchy) : Prop :=
  ∀ c < H.classes.length, ∀ kv ∈ (H.cls c).ownAnn, kv.2.ScopedIn (H.cls c).params

/-- the MRO starts with the class itself -/
def MroHead (H : Hierarchy) : Prop :=
  ∀ c < H.classes.length, (H.cls c).mro.head? = some c

/-- every other MRO entry comes from the MRO of some base -/
def MroCover (H : Hierarchy) : Prop :=
  ∀ c < H.classes.length, ∀ d ∈ (H.cls c).mro,
    d = c ∨ ∃ b ∈ origBases H c, d ∈ (H.cls b.cls).mro

/-- bounds and constraints of type variables mention no type variable -/
def ImplicitClosed (H : Hierarchy) : Prop :=
  ∀ p ∈ H.tvars, p.2.implicit.tvs = []

def Wf (H : Hierarchy) : Prop :=
  BasesLt H ∧ ArityOk H ∧ ArgsScoped H ∧ AnnScoped H ∧ MroHead H ∧ MroCover H ∧ ImplicitClosed H

instance (H : Hierarchy) : Decidable (Wf H) := by
  unfold Wf BasesLt ArityOk ArgsScoped AnnScoped MroHead MroCover ImplicitClosed
  infer_instance

/-- the leftmost base (in `__orig_bases__` order) that has a field `k` -/
def firstProvider (H : Hierarchy) (c : Nat) (k : Key) : Option Base :=
  (origBases H c).find? fun b => (fieldKeys H b.cls).contains k

/-- **Side condition 1.** whenever a class inherits a field whose annotation is
    generic, the leftmost base that has the field gets it from the same class
    body the MRO designates.  Fails exactly for a diamond in which a base that
    is *not* the leftmost provider re-annotates the field. -/
def PrecedenceAgrees (H : Hierarchy) : Prop :=
  ∀ c < H.classes.length, ∀ k ∈ fieldKeys H c, k ∉ ownKeys H c →
    ∀ v ∈ annotated H c k, v.isGeneric = true →
      ∀ b ∈ firstProvider H c k, definer H b.cls k = definer H c k

instance (H : Hierarchy) : Decidable (PrecedenceAgrees H) := by
  unfold PrecedenceAgrees
  infer_instance

/-- **Side condition 2.** a generic annotation that re-annotates a field some
    base already has is reported in `overriden_types`.  True for every kind but
    TypedDict, whose introspector reports no overridden field at all. -/
def OverrideVisible (H : Hierarchy) : Prop :=
  ∀ c < H.classes.length, ∀ kv ∈ (H.cls c).ownAnn, kv.2.isGeneric = true →
    (firstProvider H c kv.1).isSome = true → (rawStorage H c).overridden.contains kv.1 = true

instance (H : Hierarchy) : Decidable (OverrideVisible H) := by
  unfold OverrideVisible
  infer_instance

/-- two facts of the C3 linearisation: no class occurs twice, and the MRO of
    every base is a subsequence of the MRO of the class (monotonicity) -/
def MroMonotone (H : Hierarchy) : Prop :=
  ∀ c < H.classes.length, (H.cls c).mro.Nodup ∧
    ∀ b ∈ origBases H c, (H.cls b.cls).mro.Sublist (H.cls c).mro

instance (H : Hierarchy) : Decidable (MroMonotone H) := by
  unfold MroMonotone
  infer_instance

def BasesAgree (H : Hierarchy) (c : Nat) (k : Key) : Prop :=
  ∀ b₁ ∈ origBases H c, ∀ b₂ ∈ origBases H c,
    k ∈ fieldKeys H b₁.cls → k ∈ fieldKeys H b₂.cls → definer H b₁.cls k = definer H b₂.cls k

instance (H : Hierarchy) (c : Nat) (k : Key) : Decidable (BasesAgree H c k) := by
  unfold BasesAgree
  infer_instance

/-- all bases that have a field get it from the same class body (true for
    single inheritance and for diamonds that merely share an ancestor) -/
def NoConflict (H : Hierarchy) : Prop :=
  ∀ c < H.classes.length, ∀ k ∈ fieldKeys H c, BasesAgree H c k

instance (H : Hierarchy) : Decidable (NoConflict H) := by
  unfold NoConflict
  infer_instance

/-- The property for one class table: for every class of the table, used bare
    or with any arguments, and every field id, the type the resolver hands to
    the loader/dumper machinery is the declared type (both are `none` exactly
    when the class has no such field). -/
def ResolveEqSpec (H : Hierarchy) : Prop :=
  ∀ (tgt : Base), tgt.cls < H.classes.length → ∀ (k : Key),
    (resolve H tgt).lookup k = declaredType H tgt k

end Adaptix.Generic
