/-
  C15 — `TypeNormalizer.normalize`, aspect by aspect.

  Anchor: src/adaptix/_internal/type_tools/normalize_type.py (class TypeNormalizer),
          src/adaptix/_internal/type_tools/implicit_params.py (ImplicitParamsGetter).

  The model follows the tree *with* the two repairs
    fixes/C15-literal-dedup.patch      (`_dedup` keyed by `(type, value)`)
    fixes/C15-union-order-total.patch  (sort keys `(text, id, [kids])`, see Hint.lean)
    fixes/C15-annotated-flatten.patch  (`_norm_annotated` flattens an inner `Annotated` normal form)
-/
import AdaptixModel.Types.Hint

namespace Adaptix.Types

variable {α : Type} [DecidableEq α]

/-! ### equality of normal forms (the real `__eq__`, structural) -/

mutual
def Norm.beq : Norm α → Norm α → Bool
  | .node o1 a1, .node o2 a2 => decide (o1 = o2) && Norm.beqList a1 a2
  | .ellipsis, .ellipsis => true
  | .lit v, .lit w => decide (v = w)
  | .mdata m, .mdata k => decide (m = k)
  | _, _ => false
def Norm.beqList : List (Norm α) → List (Norm α) → Bool
  | [], [] => true
  | a :: s, b :: t => Norm.beq a b && Norm.beqList s t
  | _, _ => false
end

mutual
theorem Norm.beq_iff : ∀ (a b : Norm α), Norm.beq a b = true ↔ a = b
  | .node o1 a1, .node o2 a2 => by
      simp only [Norm.beq, Bool.and_eq_true, decide_eq_true_eq, Norm.beqList_iff a1 a2]
      constructor
      · rintro ⟨rfl, rfl⟩; rfl
      · intro h; cases h; exact ⟨rfl, rfl⟩
  | .ellipsis, .ellipsis => by simp [Norm.beq]
  | .lit v, .lit w => by simp [Norm.beq]
  | .mdata m, .mdata k => by simp [Norm.beq]
  | .node _ _, .ellipsis => by simp [Norm.beq]
  | .node _ _, .lit _ => by simp [Norm.beq]
  | .node _ _, .mdata _ => by simp [Norm.beq]
  | .ellipsis, .node _ _ => by simp [Norm.beq]
  | .ellipsis, .lit _ => by simp [Norm.beq]
  | .ellipsis, .mdata _ => by simp [Norm.beq]
  | .lit _, .node _ _ => by simp [Norm.beq]
  | .lit _, .ellipsis => by simp [Norm.beq]
  | .lit _, .mdata _ => by simp [Norm.beq]
  | .mdata _, .node _ _ => by simp [Norm.beq]
  | .mdata _, .ellipsis => by simp [Norm.beq]
  | .mdata _, .lit _ => by simp [Norm.beq]
theorem Norm.beqList_iff : ∀ (a b : List (Norm α)), Norm.beqList a b = true ↔ a = b
  | [], [] => by simp [Norm.beqList]
  | [], _ :: _ => by simp [Norm.beqList]
  | _ :: _, [] => by simp [Norm.beqList]
  | a :: s, b :: t => by
      simp only [Norm.beqList, Bool.and_eq_true, Norm.beq_iff a b, Norm.beqList_iff s t, List.cons.injEq]
end

instance : DecidableEq (Norm α) := fun a b =>
  if h : Norm.beq a b = true then isTrue ((Norm.beq_iff a b).mp h)
  else isFalse (fun e => h ((Norm.beq_iff a b).mpr e))

/-! ### constructors of the norm classes -/

def noneN : Norm α := .node .none []
/-- `ANY_NT` -/
def anyN : Norm α := .node .any []

/-- `_UnionNormType.__init__`: args ordered by `_order_args` -/
def mkUnion (W : World α) (args : List (Norm α)) : Norm α :=
  .node .union (stableSort (fun a b => (orderKey W a).le (orderKey W b)) args)

/-- `_LiteralNormType._order_args` on the values -/
def sortLits (W : World α) (vs : List (LitVal α)) : List (LitVal α) :=
  stableSort (fun a b => (litKey W a).le (litKey W b)) vs

/-- `_LiteralNormType.__init__` -/
def mkLiteral (W : World α) (vs : List (LitVal α)) : Norm α :=
  .node .literal ((sortLits W vs).map .lit)

/-- `_dedup` (repaired): first occurrences, keyed by `(type(item), item)` -/
def dedupLits : List (LitVal α) → List (LitVal α)
  | [] => []
  | v :: vs => v :: (dedupLits vs).filter (fun w => w ≠ v)

/-- `_create_norm_literal` -/
def createNormLiteral (W : World α) (vs : List (LitVal α)) : Norm α :=
  mkLiteral W (dedupLits vs)

/-- `_norm_literal` -/
def normLiteral (W : World α) (vs : List (LitVal α)) : Norm α :=
  if vs = [.none] then noneN                                    -- Literal[None] converted to None
  else if .none ∈ vs then
    mkUnion W [noneN, createNormLiteral W (vs.erase .none)]     -- args_without_none.remove(None)
  else mkLiteral W vs

/-! ### `_norm_union` -/

/-- `_unfold_union_args` -/
def unfoldUnion : List (Norm α) → List (Norm α)
  | [] => []
  | .node .union args :: rest => args ++ unfoldUnion rest
  | n :: rest => n :: unfoldUnion rest

/-- `_dedup_union_args`: a dict keyed by the norm types (`__eq__`/`__hash__`);
    the result lists the keys in insertion order, i.e. first occurrences. -/
def dedupNorms : List (Norm α) → List (Norm α)
  | [] => []
  | n :: ns => n :: (dedupNorms ns).filter (fun m => m ≠ n)

def isLiteralNorm : Norm α → Bool
  | .node .literal _ => true
  | _ => false

/-- the values of `norm.args` for `norm.origin == Literal` -/
def litArgs : List (Norm α) → List (LitVal α)
  | [] => []
  | .lit v :: rest => v :: litArgs rest
  | _ :: rest => litArgs rest

/-- `lit_args.extend(norm.args)` over the literal members, in order -/
def collectLits : List (Norm α) → List (LitVal α)
  | [] => []
  | .node .literal args :: rest => litArgs args ++ collectLits rest
  | _ :: rest => collectLits rest

/-- `_merge_literals` -/
def mergeLiterals (W : World α) (args : List (Norm α)) : List (Norm α) :=
  let result := args.filter (fun n => !isLiteralNorm n)
  let lits := collectLits args
  if lits = [] then result else result ++ [createNormLiteral W lits]

/-- `make_norm_type(origin=arg.origin, args=arg.args, …)` for the single
    remaining member: the same class is rebuilt, which re-orders the args of a
    `Union`/`Literal` (already ordered).  (For a `NormTV` the real call raises
    `TypeError`; a union of several spellings of one TypeVar does not survive
    `typing`'s own de-duplication, so that is not reachable from hints built by
    `typing` without forward references.) -/
def remake (W : World α) : Norm α → Norm α
  | .node .union args => mkUnion W args
  | .node .literal args => mkLiteral W (litArgs args)
  | n => n

/-- the tail of `_norm_union` after the members have been normalised -/
def normUnion (W : World α) (normArgs : List (Norm α)) : Norm α :=
  let merged := mergeLiterals W (dedupNorms (unfoldUnion normArgs))
  match merged with
  | [arg] => remake W arg
  | _ => mkUnion W merged

/-- `_norm_type`: `type[Union[...]]` becomes the union of `type[member]`;
    otherwise `_norm_other` wraps the normalised argument. -/
def normType (W : World α) : Norm α → Norm α
  | .node .union args => mkUnion W (args.map fun a => .node .type [a])
  | n => .node .type [n]

/-- `_norm_annotated` (repaired): an inner `Annotated` normal form (it can only come
    from a union that collapsed to its single member; `typing` flattens the directly
    nested spelling itself) is flattened, PEP 593. -/
def normAnnotated (inner : Norm α) (metas : List (Norm α)) : Norm α :=
  match inner with
  | .node .annotated args => .node .annotated (args ++ metas)
  | n => .node .annotated (n :: metas)

/-! ### the normaliser -/

mutual
/-- `TypeNormalizer.normalize` -/
def normalize (W : World α) : Hint α → Norm α
  | .none _ => noneN                                             -- _norm_none
  | .any => anyN                                                 -- _norm_other, ALLOWED_ZERO_PARAMS_ORIGINS
  | .cls a => .node (.obj a) []                                  -- _norm_other, isinstance(origin, type), no params
  | .newType a => .node (.obj a) []                              -- _norm_new_type
  | .typeVar a _ _ => .node (.obj a) []                          -- _norm_type_var: NormTV(var) (limit: `tvLimit`)
  | .bare _ a params => .node (.obj a) (implicitList W params)   -- _norm_other, implicit params
  | .app _ a args => .node (.obj a) (normalizeList W args)       -- _norm_other with args
  | .tupleBare _ => .node .tuple [anyN, .ellipsis]               -- _norm_tuple, not subscribed
  | .tupleVar _ h => .node .tuple [normalize W h, .ellipsis]
  | .tupleFix _ hs => .node .tuple (normalizeList W hs)
  | .typeBare _ => .node .type [anyN]                            -- implicit parameter of `type` is Any
  | .typeOf _ h => normType W (normalize W h)                    -- _norm_type / _norm_other
  | .union _ ms => normUnion W (normalizeList W ms)              -- _norm_union
  | .optional h => normUnion W [normalize W h, noneN]            -- Optional[T] is Union[T, NoneType]
  | .literal vs => normLiteral W vs                              -- _norm_literal
  | .annotated h metas => normAnnotated (normalize W h) (metas.map .mdata)        -- _norm_annotated
/-- `_norm_iter` -/
def normalizeList (W : World α) : List (Hint α) → List (Norm α)
  | [] => []
  | h :: hs => normalize W h :: normalizeList W hs
/-- `normalize(_derive_default(type_var))`: `Any` without bound, the bound, or
    `create_union(constraints)`.  The last one is built by `typing.Union`, which
    flattens and drops repeated members before `_norm_union` does the same. -/
def implicitParam (W : World α) : Hint α → Norm α
  | .typeVar _ true cs => normUnion W (normalizeList W cs)
  | .typeVar _ false [] => anyN
  | .typeVar _ false (b :: _) => normalize W b
  | _ => anyN
/-- `tuple(self._norm_implicit_param(param) for param in params)` -/
def implicitList (W : World α) : List (Hint α) → List (Norm α)
  | [] => []
  | p :: ps => implicitParam W p :: implicitList W ps
end

/-- `NormTV.limit`: `Bound(ANY_NT)`, `Bound(normalize(bound))` or
    `Constraints(tuple(_dedup_union_args(_norm_iter(constraints))))`.
    Returned as (is it `Constraints`, values). -/
def tvLimit (W : World α) : Hint α → Bool × List (Norm α)
  | .typeVar _ true cs => (true, dedupNorms (normalizeList W cs))
  | .typeVar _ false [] => (false, [anyN])
  | .typeVar _ false (b :: _) =>
    -- `__bound__ is NoneType` is treated like no bound
    (false, [match b with | .none _ => anyN | _ => normalize W b])
  | _ => (false, [])

end Adaptix.Types
