/-
  The layer below `Hint.hasTV` / `Hint.isGeneric` / `parametrizeByDict` (C16):
  how the resolver finds out which type variables a hint mentions.

  Source modelled, statement by statement:
    src/adaptix/_internal/type_tools/fundamentals.py   get_type_vars
    src/adaptix/_internal/type_tools/basic_utils.py    get_type_vars_of_parametrized, is_generic (without the Annotated branch)
    src/adaptix/_internal/type_tools/generic_resolver.py  GenericResolver._parametrize_by_dict (with the `tp[...]` subscription)

  These functions do not look at the *structure* of a hint, they read attributes
  of the Python object that represents it (`__parameters__`, its class, its
  origin).  One and the same type can be spelled by objects of different
  classes: `Optional[list[T]]` and `Union[list[T], None]` are
  `typing._UnionGenericAlias`, `list[T] | None` is a `types.UnionType`,
  `List[T]` a `typing._GenericAlias`, `list[T]` a `types.GenericAlias`.
  `objOf` says which object CPython builds for each hint of the grammar and
  what its attributes are (CPython behaviour: trusted, read back from the real
  objects by the `type-vars` correspondence of harness/props/c16.py); the
  functions of the library are then modelled over these object facts.

  The structural functions of Generic.lean are *proved* to be what this code
  computes for every spelling (AdaptixProofs/Props/C16.lean:
  `type_vars_of_every_spelling`, `hasTV_is_code`, `isGeneric_is_code`,
  `parametrize_by_dict_is_code`).
-/
import AdaptixModel.Types.Generic

namespace Adaptix.Generic

/-- the class of the Python object that represents a hint -/
inductive Spelling where
  /-- `typing.TypeVar` -/
  | typeVar
  /-- a class or special form that cannot be subscribed: `int`, `NoneType`, `Any` -/
  | plainClass
  /-- the class `types.UnionType` itself (its `__parameters__` is a getset descriptor) -/
  | unionTypeClass
  /-- an unsubscribed builtin generic class: `list`, `dict` -/
  | bareBuiltin
  /-- an unsubscribed `typing._SpecialGenericAlias`: `typing.List` -/
  | bareTypingAlias
  /-- an unsubscribed user generic class -/
  | bareUserGeneric
  /-- `typing._GenericAlias`: `List[T]`, `Dict[K, V]`, `Box[T]` -/
  | typingAlias
  /-- `typing._UnionGenericAlias`: `Union[X, Y]`, `Optional[X]`, `T | None`, `Box[T] | None` -/
  | typingUnion
  /-- `types.GenericAlias`: `list[T]`, `dict[K, V]`, `tuple[T, int]` -/
  | builtinAlias
  /-- an instance of `types.UnionType` (PEP 604): `list[T] | None`, `None | dict[str, T] | int` -/
  | pep604Union
  deriving Repr, DecidableEq, Inhabited

/-- the value of `getattr(tp, "__parameters__", <absent>)` -/
inductive ParamsAttr where
  /-- no such attribute -/
  | absent
  /-- an object that is not a tuple (the descriptor of the `types.UnionType` class) -/
  | descriptor
  /-- a tuple of type variables -/
  | tuple (vs : List TVar)
  deriving Repr, DecidableEq, Inhabited

/-- the facts about a Python object the three library functions read -/
structure PyObj where
  spelling : Spelling
  /-- `getattr(tp, "__parameters__", ...)` -/
  parameters : ParamsAttr
  /-- `isinstance(tp, type)` -/
  isType : Bool
  /-- `isinstance(tp, types.GenericAlias)` -/
  isBuiltinAlias : Bool
  /-- `strip_alias(tp) != tp` (`get_origin(tp) is not None`) -/
  isAlias : Bool
  /-- `get_generic_args(tp) != ()` (`is_parametrized(tp)`) -/
  hasArgs : Bool
  /-- `strip_alias(tp) in BUILTIN_ORIGIN_TO_TYPEVARS and tp is not type` -/
  builtinOrigin : Bool
  /-- `isinstance(tp, TypeVar)` -/
  isTypeVar : Bool
  deriving Repr, DecidableEq, Inhabited

/-- the head of a curried subscription -/
def Hint.head : Hint → Hint
  | .app f _ => f.head
  | h => h

/-- origins written in lower case are subscribed builtin classes (`types.GenericAlias`) -/
def builtinAliasOrigins : List String := ["list", "dict", "tuple", "set", "frozenset", "type"]

/-- origins whose subscription is a `typing._UnionGenericAlias` -/
def typingUnionOrigins : List String := ["Union", "Optional"]

/-- the origin written for a PEP 604 union `X | Y` that Python represents by a `types.UnionType`
    (every operand is a class, `None`, a `types.GenericAlias` or a `types.UnionType`; with a TypeVar or a
    `typing` alias among the operands `X | Y` evaluates to `typing.Union[X, Y]` and is written `Union`) -/
def pep604Origin : String := "Or"

/-- keys of `BUILTIN_ORIGIN_TO_TYPEVARS` among the origins of the grammar, by the names the origin is reached
    through (`strip_alias(List[int]) is list`) -/
def builtinGenericNames : List String := ["list", "List", "dict", "Dict", "set", "Set", "frozenset", "FrozenSet"]

/-- the name of the class `types.UnionType` used as an (unsubscribed) hint -/
def unionTypeClassName : String := "UnionType"

def spellingOfOrigin (o : String) : Spelling :=
  if o = pep604Origin then .pep604Union
  else if typingUnionOrigins.contains o then .typingUnion
  else if builtinAliasOrigins.contains o then .builtinAlias
  else .typingAlias

/-- **What CPython builds.**  `cp n` = the `__parameters__` of the unsubscribed user generic class `n` (the hint
    grammar records only that the class is generic, not in which type variables).
    A subscribed object of *every* spelling carries in `__parameters__` the tuple of the type variables occurring
    in its arguments, each once, in order of first occurrence (`typing._collect_parameters`, `_Py_make_parameters`
    for `types.GenericAlias` and — since 3.10 — for `types.UnionType`). -/
def objOf (cp : String → List TVar) : Hint → PyObj
  | .tv _ =>
    { spelling := .typeVar, parameters := .absent, isType := false, isBuiltinAlias := false, isAlias := false,
      hasArgs := false, builtinOrigin := false, isTypeVar := true }
  | .atom n false =>
    if n = unionTypeClassName then
      { spelling := .unionTypeClass, parameters := .descriptor, isType := true, isBuiltinAlias := false,
        isAlias := false, hasArgs := false, builtinOrigin := false, isTypeVar := false }
    else
      { spelling := .plainClass, parameters := .absent, isType := true, isBuiltinAlias := false, isAlias := false,
        hasArgs := false, builtinOrigin := false, isTypeVar := false }
  | .atom n true =>
    if builtinGenericNames.contains n then
      if builtinAliasOrigins.contains n then        -- `list`: a class, no `__parameters__`
        { spelling := .bareBuiltin, parameters := .absent, isType := true, isBuiltinAlias := false, isAlias := false,
          hasArgs := false, builtinOrigin := true, isTypeVar := false }
      else                                          -- `typing.List`: `get_origin` is `list`, no `__parameters__`
        { spelling := .bareTypingAlias, parameters := .absent, isType := false, isBuiltinAlias := false,
          isAlias := true, hasArgs := false, builtinOrigin := true, isTypeVar := false }
    else                                            -- a user generic class
      { spelling := .bareUserGeneric, parameters := .tuple (cp n), isType := true, isBuiltinAlias := false,
        isAlias := false, hasArgs := false, builtinOrigin := false, isTypeVar := false }
  | .con _ =>                                       -- an origin alone is not a hint; a special form like `Union`
    { spelling := .plainClass, parameters := .absent, isType := false, isBuiltinAlias := false, isAlias := false,
      hasArgs := false, builtinOrigin := false, isTypeVar := false }
  | .app f a =>
    let o := match (Hint.app f a).head with
      | .con o => o
      | _ => ""
    let sp := spellingOfOrigin o
    { spelling := sp
      parameters := .tuple (Hint.app f a).tvs.eraseDups
      isType := false                               -- 3.11+: `isinstance(list[int], type)` is False
      isBuiltinAlias := sp == .builtinAlias
      isAlias := true
      hasArgs := true
      builtinOrigin := builtinGenericNames.contains o
      isTypeVar := false }

/-- `fundamentals.get_type_vars` (the pydantic branch concerns model classes, not field hints):
    ```
    type_vars = getattr(tp, "__parameters__", ())
    # UnionType object contains descriptor inside `__parameters__`
    if not isinstance(type_vars, tuple):
        return ()
    return type_vars
    ``` -/
def getTypeVars (o : PyObj) : List TVar :=
  match o.parameters with
  | .absent => []
  | .descriptor => []
  | .tuple vs => vs

/-- `basic_utils.get_type_vars_of_parametrized`:
    ```
    params = get_type_vars(tp)
    if not params: return ()
    if isinstance(tp, type):
        if isinstance(tp, types.GenericAlias): return params
        return ()
    if strip_alias(tp) != tp and get_generic_args(tp) == (): return ()
    return params
    ``` -/
def typeVarsOfParametrized (o : PyObj) : List TVar :=
  let params := getTypeVars o
  if params.isEmpty then []
  else if o.isType then
    if o.isBuiltinAlias then params else []
  else if o.isAlias && !o.hasArgs then []
  else params

/-- `basic_utils.is_generic` without its `Annotated` branch:
    `bool(get_type_vars(tp)) or (strip_alias(tp) in BUILTIN_ORIGIN_TO_TYPEVARS and tp is not type and not is_parametrized(tp))` -/
def isGenericCode (o : PyObj) : Bool :=
  !(getTypeVars o).isEmpty || (o.builtinOrigin && !o.hasArgs)

/-- `tuple(chain.from_iterable(type_var_to_actual[type_var] for type_var in params))`; `none` = KeyError -/
def lookupAll (σ : Subst) : List TVar → Option (List Hint)
  | [] => some []
  | v :: vs =>
    match σ.lookup v, lookupAll σ vs with
    | some a, some as => some (a :: as)
    | _, _ => none

/-- `tp[args]` for an object whose `__parameters__` is `params`: the arguments replace the parameters by position -/
def subscript (t : Hint) (params : List TVar) (args : List Hint) : Hint := t.subst (params.zip args)

/-- `GenericResolver._parametrize_by_dict` over the object facts:
    ```
    if tp in type_var_to_actual: return type_var_to_actual[tp][0]
    params = get_type_vars_of_parametrized(tp)
    if not params: return tp
    return tp[tuple(chain.from_iterable(type_var_to_actual[type_var] for type_var in params))]
    ``` -/
def parametrizeByDictCode (cp : String → List TVar) (σ : Subst) (t : Hint) : Option Hint :=
  let hit := match t with
    | .tv v => σ.lookup v
    | _ => none
  match hit with
  | some a => some a
  | none =>
    let params := typeVarsOfParametrized (objOf cp t)
    if params.isEmpty then some t
    else (lookupAll σ params).map fun args => subscript t params args

end Adaptix.Generic
