/-
  Model of adaptix generic resolution through class hierarchies (C16).

  Source modelled (hand-written, tied by correspondence `harness/props/c16.py`):
    src/adaptix/_internal/type_tools/generic_resolver.py   GenericResolver (every method)
    src/adaptix/_internal/type_tools/implicit_params.py    ImplicitParamsGetter._derive_default / get_implicit_params
    src/adaptix/_internal/type_tools/basic_utils.py        is_generic, get_type_vars_of_parametrized
    src/adaptix/_internal/provider/shape_provider.py       ShapeGenericResolver._get_members (what a storage is)
    src/adaptix/_internal/model_tools/introspection/{dataclass,attrs,named_tuple,typed_dict}.py
                                                           field types = typing.get_type_hints (MRO merge),
                                                           `overriden_types` per model kind
  The resolver is modelled as repaired by fixes/C16-bare-generic-base.patch
  (`_get_orig_bases`: the class's *own* `__orig_bases__`, else `__bases__`).

  Type hints are a small local grammar (this file does not depend on the C15
  normaliser): subscription is curried, `Dict[K, V]` is `app (app (con "Dict") K) V`.
  Not modelled: TypeVarTuple / Unpack (`_unpack_args`, the slicing branch of
  `_get_type_var_to_actual`), ParamSpec, TypeVar defaults (3.13), ForwardRef bounds.

  `Hint.hasTV`, `Hint.isGeneric` and `parametrizeByDict` are structural here; the
  library computes them from attributes of the Python object that represents
  the hint (`__parameters__`, its class, its origin), and one type has several
  spellings (`Optional[list[T]]`, `list[T] | None`, ...).  That layer is modelled
  in `GenericTypeVars.lean` and proved to coincide with the structural functions
  for every spelling (Props/C16.lean: `hasTV_is_code`, `isGeneric_is_code`,
  `parametrize_by_dict_is_code`).
-/
namespace Adaptix.Generic

abbrev TVar := Nat
abbrev Key := String

/-- A type hint as the resolver sees it. -/
inductive Hint where
  /-- a `TypeVar`, by identity -/
  | tv (v : TVar)
  /-- a class or special form used without subscription. `bare = true` iff
      `is_generic(tp)` holds for it although it carries no `__parameters__`
      of an alias: an unsubscribed builtin generic (`list`, `typing.List`) or an
      unsubscribed user generic class (`SubGen`). -/
  | atom (name : String) (bare : Bool)
  /-- origin of a subscription -/
  | con (origin : String)
  /-- one step of a (curried) subscription `f[..., arg]` -/
  | app (f : Hint) (arg : Hint)
  deriving Repr, DecidableEq, Inhabited

abbrev Subst := List (TVar × Hint)
abbrev Members := List (Key × Hint)

/-- the type variables occurring in a hint (`tp.__parameters__`, with repetitions) -/
def Hint.tvs : Hint → List TVar
  | .tv v => [v]
  | .atom _ _ => []
  | .con _ => []
  | .app f a => f.tvs ++ a.tvs

/-- `get_type_vars_of_parametrized(tp) or isinstance(tp, TypeVar)`:
    a class object never counts (`isinstance(tp, type)` branch returns `()`),
    an alias counts iff its `__parameters__` is not empty. -/
def Hint.hasTV : Hint → Bool
  | .tv _ => true
  | .atom _ _ => false
  | .con _ => false
  | .app f a => f.hasTV || a.hasTV

/-- `is_generic(value) or isinstance(value, TypeVar)` (the guard of
    `_get_members_by_parents`). -/
def Hint.isGeneric : Hint → Bool
  | .tv _ => true
  | .atom _ b => b
  | .con _ => false
  | .app f a => f.hasTV || a.hasTV

/-- simultaneous substitution: `tp[tuple(actual[tv] for tv in tp.__parameters__)]` -/
def Hint.subst (σ : Subst) : Hint → Hint
  | .tv v => match σ.lookup v with
    | some a => a
    | none => .tv v
  | .atom n b => .atom n b
  | .con o => .con o
  | .app f a => .app (f.subst σ) (a.subst σ)

/-- `GenericResolver._parametrize_by_dict`, statement by statement. -/
def parametrizeByDict (σ : Subst) (t : Hint) : Hint :=
  match t with
  | .tv v =>
    match σ.lookup v with          -- `if tp in type_var_to_actual: return type_var_to_actual[tp][0]`
    | some a => a
    | none => .tv v                -- `params == ()` for a TypeVar: returned unchanged
  | t => if !t.hasTV then t        -- `if not params: return tp`
         else t.subst σ            -- `tp[tuple(chain.from_iterable(...))]`

/-! ### TypeVars and implicit parameters (`implicit_params.py`) -/

structure TVDecl where
  constraints : List Hint
  bound : Option Hint
  deriving Repr, Inhabited

def anyHint : Hint := .atom "Any" false

/-- `create_union(tuple(constraints))` -/
def unionOf (cs : List Hint) : Hint := cs.foldl Hint.app (.con "Union")

/-- `ImplicitParamsGetter._derive_default` for a plain `TypeVar` -/
def TVDecl.implicit (d : TVDecl) : Hint :=
  if !d.constraints.isEmpty then unionOf d.constraints
  else match d.bound with
    | none => anyHint
    | some b => b

/-! ### Class tables -/

inductive Kind where
  | dataclass | attrs | namedTuple | typedDict | pydantic
  deriving Repr, DecidableEq, Inhabited

/-- one entry of `__orig_bases__`: a model class, bare (`args = none`) or
    subscribed. `Generic[...]`, `Protocol[...]`, `NamedTuple`, `TypedDict`,
    `BaseModel`, `object` have no shape: `_get_members` answers with an empty
    storage for them, so they are dropped from the table. -/
structure Base where
  cls : Nat
  args : Option (List Hint)
  deriving Repr, DecidableEq, Inhabited

/-- the facts about one Python class the resolver and the introspectors read -/
structure Cls where
  /-- `cls.__parameters__` -/
  params : List TVar
  /-- `vars(cls).get("__orig_bases__")` (model classes only) -/
  ownOrigBases : Option (List Base)
  /-- `cls.__bases__` (model classes only). Plain classes, hence bare — except
      for pydantic, where a subscribed parent `P[int]` is a real class created
      by pydantic and is recognised as parametrised through
      `__pydantic_generic_metadata__`. -/
  bases : List Base
  /-- `cls.__mro__` (model classes only, the class itself first) -/
  mro : List Nat
  /-- `vars(cls)["__annotations__"]`: what the class body itself annotates -/
  ownAnn : Members
  deriving Repr, Inhabited

structure Hierarchy where
  kind : Kind
  tvars : List (TVar × TVDecl)
  /-- class `i` is `classes[i]`; bases refer to smaller indices -/
  classes : List Cls
  deriving Repr, Inhabited

def Hierarchy.cls (H : Hierarchy) (i : Nat) : Cls := H.classes.getD i default

/-- `get_implicit_params(origin)` for a user defined generic -/
def implicitParams (H : Hierarchy) (c : Nat) : List Hint :=
  (H.cls c).params.map fun v =>
    match H.tvars.lookup v with
    | some d => d.implicit
    | none => anyHint

/-- `GenericResolver._get_orig_bases` (repaired): the class's own
    `__orig_bases__`, otherwise its `__bases__`. -/
def origBases (H : Hierarchy) (c : Nat) : List Base :=
  match (H.cls c).ownOrigBases with
  | some bs => bs
  | none => (H.cls c).bases

/-! ### What an introspector reports (`get_*_shape`, `ShapeGenericResolver._get_members`) -/

def ownKeys (H : Hierarchy) (c : Nat) : List Key := (H.cls c).ownAnn.map (·.1)

/-- the class of the MRO whose body annotates `k` (first wins):
    `typing.get_type_hints` merges `__annotations__` over `reversed(__mro__)` -/
def definer (H : Hierarchy) (c : Nat) (k : Key) : Option Nat :=
  (H.cls c).mro.find? fun d => ((H.cls d).ownAnn.lookup k).isSome

/-- `get_all_type_hints(cls)[k]` -/
def annotated (H : Hierarchy) (c : Nat) (k : Key) : Option Hint :=
  (definer H c k).bind fun d => (H.cls d).ownAnn.lookup k

/-- field ids in definition order (fields of the furthest ancestor first) -/
def fieldKeys (H : Hierarchy) (c : Nat) : List Key :=
  ((H.cls c).mro.reverse.flatMap fun d => ownKeys H d).eraseDups

/-! ### Specification: the declared type of a field

  Independent of the resolver: find the class whose body annotates the field
  (by the MRO), walk the chain of base subscriptions from the requested class
  down to it carrying the binding of the current class's parameters, and
  substitute the final binding into the annotation. -/

/-- binding of the parameters of base `b` given the binding `σ` of the
    parameters of the class that lists `b` among its bases -/
def bindBase (H : Hierarchy) (σ : Subst) (b : Base) : Subst :=
  match b.args with
  | some args => (H.cls b.cls).params.zip (args.map (·.subst σ))
  | none => (H.cls b.cls).params.zip (implicitParams H b.cls)

/-- the binding of `d`'s parameters seen from `c` under `σ` -/
def bindTo (H : Hierarchy) : Nat → Nat → Subst → Nat → Option Subst
  | 0, _, _, _ => none
  | fuel + 1, c, σ, d =>
    if c = d then some σ
    else
      match (origBases H c).find? fun b => (H.cls b.cls).mro.contains d with
      | some b => bindTo H fuel b.cls (bindBase H σ b) d
      | none => none

def declaredAt (H : Hierarchy) (fuel : Nat) (c : Nat) (σ : Subst) (k : Key) : Option Hint :=
  (definer H c k).bind fun d =>
    (bindTo H fuel c σ d).bind fun τ =>
      ((H.cls d).ownAnn.lookup k).map fun t => t.subst τ

/-- **Specification.** the annotation in the defining class with every
    parameter replaced along the chain of base subscriptions; a bare class
    receives its implicit parameters. -/
def declaredType (H : Hierarchy) (tgt : Base) (k : Key) : Option Hint :=
  declaredAt H (H.classes.length + 1) tgt.cls (bindBase H [] tgt) k

/-! ### Storages per model kind -/

structure Storage where
  members : Members
  overridden : List Key
  deriving Repr, Inhabited

def mergedMembers (H : Hierarchy) (c : Nat) : Members :=
  (fieldKeys H c).filterMap fun k => (annotated H c k).map fun t => (k, t)

def idSubst (ps : List TVar) : Subst := ps.map fun v => (v, Hint.tv v)

/-- pydantic substitutes the arguments of subscribed parents into
    `model_fields[...].annotation` itself.  Third-party behaviour, *modelled by
    the specification* (relative to the class's own parameters) and validated by
    the raw-members correspondence on conflict-free hierarchies; not verified. -/
def pydanticMembers (H : Hierarchy) (c : Nat) : Members :=
  (fieldKeys H c).filterMap fun k =>
    (declaredAt H (c + 1) c (idSubst (H.cls c).params) k).map fun t => (k, t)

/-- `MembersStorage` of a class for each model kind.
    dataclass / attrs / NamedTuple: field types are `get_type_hints` (MRO merge),
    `overriden_types` are the fields the class body re-annotates;
    TypedDict: `overriden_types` is always empty (its `__annotations__` already
    contain the parents' hints, see the comment in typed_dict.py);
    pydantic: `model_fields` annotations, `overriden_types` as for dataclasses. -/
def rawStorage (H : Hierarchy) (c : Nat) : Storage :=
  match H.kind with
  | .typedDict => { members := mergedMembers H c, overridden := [] }
  | .pydantic => { members := pydanticMembers H c, overridden := ownKeys H c }
  | _ => { members := mergedMembers H c, overridden := ownKeys H c }

/-! ### The resolver (`GenericResolver`) -/

/-- `_get_type_var_to_actual` without TypeVarTuple: `result[tv] = (args[idx],)` -/
def typeVarToActual (params : List TVar) (args : List Hint) : Subst := params.zip args

/-- `_get_members_of_parametrized_generic`, given the function computing
    `_get_members_by_parents` -/
def ofParametrizedWith (H : Hierarchy) (bp : Nat → Members) (c : Nat) (args : List Hint) : Members :=
  let σ := typeVarToActual (H.cls c).params args
  (bp c).map fun kv => (kv.1, parametrizeByDict σ kv.2)

/-- `get_resolved_members` -/
def getResolvedWith (H : Hierarchy) (bp : Nat → Members) (b : Base) : Members :=
  match b.args with
  | some args => ofParametrizedWith H bp b.cls args                       -- `is_parametrized(tp)`
  | none =>
    if !(H.cls b.cls).params.isEmpty then                                  -- `is_generic(tp)`
      ofParametrizedWith H bp b.cls (implicitParams H b.cls)               -- `fill_implicit_params(tp)`
    else bp b.cls

/-- `bases_members`: `for base in reversed(orig_bases): bases_members.update(...)`.
    Only `key in bases_members` and `bases_members[key]` are ever evaluated, so
    the dict is an association list read with `lookup`; `update` puts the new
    entries in front. -/
def basesMembersOf (res : Base → Members) (bases : List Base) : Members :=
  bases.reverse.foldl (fun acc b => res b ++ acc) []

/-- the value of one member in the dict comprehension that ends
    `_get_members_by_parents`:
    `bases_members[key] if key in bases_members and key not in overriden
       and (is_generic(value) or isinstance(value, TypeVar)) else value` -/
def pickMember (basesMembers : Members) (overridden : List Key) (k : Key) (v : Hint) : Hint :=
  match basesMembers.lookup k with
  | some bv => if !overridden.contains k && v.isGeneric then bv else v
  | none => v

/-- `_get_members_by_parents`; `fuel` bounds the depth of the hierarchy. -/
def byParents (H : Hierarchy) : Nat → Nat → Members
  | 0, c => (rawStorage H c).members
  | fuel + 1, c =>
    let st := rawStorage H c
    if !st.members.any (fun kv => kv.2.hasTV) then st.members
    else
      let basesMembers := basesMembersOf (getResolvedWith H (byParents H fuel)) (origBases H c)
      st.members.map fun kv => (kv.1, pickMember basesMembers st.overridden kv.1 kv.2)

/-- `GenericResolver.get_resolved_members(tp).members` for `tp = C`, `C[args]` -/
def resolve (H : Hierarchy) (tgt : Base) : Members :=
  getResolvedWith H (byParents H H.classes.length) tgt

end Adaptix.Generic
