/-
  C15 — surface type hints, normal forms and ordering keys.

  Anchors: src/adaptix/_internal/type_tools/normalize_type.py
           (BaseNormType and its subclasses, `_make_orderable`, `_order_args`).

  Everything is parametrised by the type `α` of *objects* a hint can mention
  (classes, generic origins, NewType objects, TypeVars, enum classes).  A
  `World α` says what Python shows of such an object to the normaliser:
  `str(obj)` and `id(obj)`; plus `str`/`id` of the special forms.  Equality of
  `α` is Python's `==`/`is` on these objects (identity).

  Lean core only (no Mathlib): this file is linked into the driver.
-/
namespace Adaptix.Types

/-- Python `str` values as lists of code points (kernel-friendly; compared
    lexicographically by code point exactly as Python compares `str`). -/
abbrev Str := List Char

/-! ### ordering keys

`_make_orderable` returns `(text, id, [keys of args])`; Python compares such
tuples lexicographically: first the texts, then the ids, then the lists of child
keys (element-wise, a proper prefix is smaller). -/

inductive OKey where
  | mk (text : Str) (ident : Nat) (kids : List OKey)
deriving Repr, Inhabited

/-- three-way comparison of Python `str` (code points, prefix smaller) -/
def strCmp : Str → Str → Ordering
  | [], [] => .eq
  | [], _ :: _ => .lt
  | _ :: _, [] => .gt
  | a :: s, b :: t =>
    if a.toNat < b.toNat then .lt
    else if b.toNat < a.toNat then .gt
    else strCmp s t

def natCmp (a b : Nat) : Ordering :=
  if a < b then .lt else if b < a then .gt else .eq

mutual
/-- tuple comparison `(text, id, kids)`: the first component that differs decides -/
def OKey.cmp : OKey → OKey → Ordering
  | .mk t1 i1 k1, .mk t2 i2 k2 =>
    (strCmp t1 t2).then ((natCmp i1 i2).then (OKey.cmpList k1 k2))
/-- list comparison: element-wise, a proper prefix is smaller -/
def OKey.cmpList : List OKey → List OKey → Ordering
  | [], [] => .eq
  | [], _ :: _ => .lt
  | _ :: _, [] => .gt
  | a :: s, b :: t => (OKey.cmp a b).then (OKey.cmpList s t)
end

/-- `key a <= key b`, the test `list.sort` makes (it never moves `b` before `a` unless `key b < key a`) -/
def OKey.le (a b : OKey) : Bool := (OKey.cmp a b).isLE

/-! ### stable sort

`list.sort(key=…)` is a stable sort.  A stable sort is determined by its
specification, so it is modelled by the simplest stable algorithm: insertion
from the right, an element going *before* the elements it is `<=` to. -/

def insertBy {β : Type} (le : β → β → Bool) (a : β) : List β → List β
  | [] => [a]
  | b :: l => if le a b then a :: b :: l else b :: insertBy le a l

def stableSort {β : Type} (le : β → β → Bool) : List β → List β
  | [] => []
  | a :: l => insertBy le a (stableSort le l)

/-! ### Python `repr` of the literal values that may occur in `Literal[...]` -/

def digitChar (d : Nat) : Char := Char.ofNat (48 + d % 10)

def natDigitsAux : Nat → Nat → Str → Str
  | 0, _, acc => acc
  | fuel + 1, n, acc =>
    if n / 10 = 0 then digitChar n :: acc
    else natDigitsAux fuel (n / 10) (digitChar n :: acc)

/-- `repr(n)` for a natural number -/
def natRepr (n : Nat) : Str := natDigitsAux (n + 1) n []

/-- `repr(i)` for an `int` -/
def intRepr : Int → Str
  | .ofNat n => natRepr n
  | .negSucc n => '-' :: natRepr (n + 1)

def hexDigit (d : Nat) : Char :=
  if d < 10 then Char.ofNat (48 + d) else Char.ofNat (87 + d)

/-- one character inside a `repr(str)` quoted with `q` (ASCII range; the
    harness keeps literal strings inside printable ASCII plus `\t \n \r`). -/
def pyEscapeChar (q : Char) (c : Char) : Str :=
  if c = q ∨ c = '\\' then ['\\', c]
  else if c = '\n' then ['\\', 'n']
  else if c = '\r' then ['\\', 'r']
  else if c = '\t' then ['\\', 't']
  else if c.toNat < 32 ∨ c.toNat = 127 then ['\\', 'x', hexDigit (c.toNat / 16), hexDigit (c.toNat % 16)]
  else [c]

/-- `repr(s)` of a `str`: single quotes unless the text has a `'` and no `"` -/
def pyRepr (s : Str) : Str :=
  let q : Char := if s.contains '\'' ∧ ¬ s.contains '"' then '"' else '\''
  q :: (s.flatMap (pyEscapeChar q) ++ [q])

/-! ### literal values, typed -/

/-- a value inside `Literal[...]`; the constructor is the value's exact `type()`
    (`0` is `int 0`, `False` is `bool false`: different values). `bytes` are
    carried as the text of their ASCII content. -/
inductive LitVal (α : Type) where
  | int (i : Int)
  | bool (b : Bool)
  | str (s : Str)
  | bytes (s : Str)
  | enum (cls : α) (name : Str)
  | none
deriving DecidableEq, Repr, Inhabited

/-- what Python shows of the objects a hint mentions -/
structure World (α : Type) where
  /-- `str(obj)` -/
  str : α → Str
  /-- `id(obj)` -/
  ident : α → Nat
  noneKey : Str × Nat        -- str(None), id(None)
  anyKey : Str × Nat         -- typing.Any
  unionKey : Str × Nat       -- typing.Union
  literalKey : Str × Nat     -- typing.Literal
  annotatedKey : Str × Nat   -- typing.Annotated
  tupleKey : Str × Nat       -- tuple
  typeKey : Str × Nat        -- type
  ellipsisText : Str         -- str(Ellipsis)

/-- `_LiteralNormType._make_orderable` (repaired: enum members of same-named
    classes are told apart by `id(type(obj))`). -/
def litKey {α : Type} (W : World α) : LitVal α → OKey
  | .int i => .mk (intRepr i) 0 []
  | .bool true => .mk ['T', 'r', 'u', 'e'] 0 []
  | .bool false => .mk ['F', 'a', 'l', 's', 'e'] 0 []
  | .str s => .mk (pyRepr s) 0 []
  | .bytes s => .mk ('b' :: pyRepr s) 0 []
  | .enum c n => .mk (W.str c ++ n) (W.ident c) []
  | .none => .mk ['N', 'o', 'n', 'e'] 0 []

/-! ### normal forms -/

/-- `BaseNormType.origin` -/
inductive Origin (α : Type) where
  | none | any | union | literal | annotated | tuple | type
  | obj (a : α)      -- a class, generic origin, NewType object, tag (`ClassVar`…)
deriving DecidableEq, Repr, Inhabited

/-- A normalised type: `origin` and `args`.  `source` is not part of equality
    or hash and is not modelled.  `args` of the real classes also hold
    `Ellipsis`, literal values and `Annotated` metadata; these are the leaf
    constructors.  Derived (structural) equality is exactly the real `__eq__`:
    `_BasicNormType.__eq__` compares `(origin, args)`, `_LiteralNormType.__eq__`
    compares `(type, value)` sequences (typed `LitVal`).  A `NormTV` is the node
    whose origin is the variable and whose args are empty: `NormTV.__eq__`/
    `__hash__` look at the variable only, `.origin` is the variable, `.args` is
    `()`, and an object is never both a TypeVar and a class. -/
inductive Norm (α : Type) where
  | node (o : Origin α) (args : List (Norm α))
  | ellipsis
  | lit (v : LitVal α)
  | mdata (m : Str)
deriving Repr, Inhabited

def originKey {α : Type} (W : World α) : Origin α → Str × Nat
  | .none => W.noneKey
  | .any => W.anyKey
  | .union => W.unionKey
  | .literal => W.literalKey
  | .annotated => W.annotatedKey
  | .tuple => W.tupleKey
  | .type => W.typeKey
  | .obj a => (W.str a, W.ident a)

mutual
/-- `_UnionNormType._make_orderable` (repaired): `(str(origin), id(origin), [keys of args])`;
    the args of a `Literal` norm get the `Literal` keys; any other non-norm
    arg `(str(obj), 0, [])`. -/
def orderKey {α : Type} (W : World α) : Norm α → OKey
  | .node o args => .mk (originKey W o).1 (originKey W o).2 (orderKeyList W args)
  | .ellipsis => .mk W.ellipsisText 0 []
  | .lit v => litKey W v
  | .mdata m => .mk m 0 []
def orderKeyList {α : Type} (W : World α) : List (Norm α) → List OKey
  | [] => []
  | n :: ns => orderKey W n :: orderKeyList W ns
end

/-! ### surface hints, as `typing` hands them to adaptix -/

/-- A type hint.  `alias`/`op` flags record the spelling (typing alias `List`
    vs builtin `list`; `Union[...]` vs `X | Y`); they never influence the
    normal form.  `lim` of a type variable: `constrained = true` → its
    constraints, else `[]` = no bound, `[b]` = bound `b`.  `params` of a bare
    generic are its type variables (`BUILTIN_ORIGIN_TO_TYPEVARS[origin]` or
    `origin.__parameters__`), as `typeVar` hints. -/
inductive Hint (α : Type) where
  | none (spelling : Bool)                 -- `None` / `type(None)`
  | any
  | cls (a : α)                            -- class without type parameters (int, a model, an Enum class, object …)
  | newType (a : α)
  | typeVar (a : α) (constrained : Bool) (lim : List (Hint α))
  | bare (alias : Bool) (a : α) (params : List (Hint α))
  | app (alias : Bool) (a : α) (args : List (Hint α))     -- list[int], Dict[str, int], ClassVar[int], InitVar[int]
  | tupleBare (alias : Bool)
  | tupleVar (alias : Bool) (h : Hint α)                  -- tuple[T, ...]
  | tupleFix (alias : Bool) (hs : List (Hint α))          -- tuple[T1, …, Tn], tuple[()]
  | typeBare (alias : Bool)
  | typeOf (alias : Bool) (h : Hint α)                    -- type[T] / Type[T]
  | union (op : Bool) (ms : List (Hint α))
  | optional (h : Hint α)                                 -- Optional[T]
  | literal (vs : List (LitVal α))
  | annotated (h : Hint α) (metas : List Str)
deriving Repr, Inhabited

end Adaptix.Types
