/-
  C15 — specification side of `HintVars.lean`: the type variables a hint MENTIONS, as a relation that
  never looks at a spelling flag (`alias`, `op`, `Optional` vs `Union`) and involves no traversal order,
  no de-duplication and no object attribute.  Lean core only.
-/
import AdaptixModel.Types.HintVars

namespace Adaptix.Types

variable {α : Type}

/-- `Occurs E v h`: the type variable `v` occurs in `h` at a position a subscription `h[...]` would substitute:
    not inside the bound/constraints of a variable, not as the declared parameter of an unsubscribed generic,
    not below an origin whose subscription CPython leaves without `__parameters__` (`InitVar`). -/
inductive Occurs (E : GenEnv α) (v : α) : Hint α → Prop where
  | tv (c lim) : Occurs E v (.typeVar v c lim)
  | app (al a args m) : E.noParams a = false → m ∈ args → Occurs E v m → Occurs E v (.app al a args)
  | tupleVar (al h) : Occurs E v h → Occurs E v (.tupleVar al h)
  | tupleFix (al hs m) : m ∈ hs → Occurs E v m → Occurs E v (.tupleFix al hs)
  | typeOf (al h) : Occurs E v h → Occurs E v (.typeOf al h)
  | union (o ms m) : m ∈ ms → Occurs E v m → Occurs E v (.union o ms)
  | optional (h) : Occurs E v h → Occurs E v (.optional h)
  | annotated (h metas) : Occurs E v h → Occurs E v (.annotated h metas)

/-- the hint is itself a type variable (GenericResolver looks it up directly: `tp in type_var_to_actual`,
    `isinstance(tp, TypeVar)`) -/
def Hint.isTypeVar : Hint α → Bool
  | .typeVar _ _ _ => true
  | _ => false

/-- the hint is an `Annotated[...]` -/
def Hint.isAnnotated : Hint α → Bool
  | .annotated _ _ => true
  | _ => false

end Adaptix.Types
